package main

import (
	"fmt"
	"go/ast"
	"go/constant"
	"go/token"
	"go/types"
	"math/big"
	"sort"
	"strings"
)

// E2 R-TAB: constants and tables, evaluated with go/constant and compared
// with values the checker computes itself (math/big), never with values
// copied from the repository.

func pow10(n int) *big.Int {
	return new(big.Int).Exp(big.NewInt(10), big.NewInt(int64(n)), nil)
}

// isPow10 returns k if v == 10^k.
func isPow10(v *big.Int) (int, bool) {
	if v.Sign() <= 0 {
		return 0, false
	}
	t := new(big.Int).Set(v)
	ten := big.NewInt(10)
	r := new(big.Int)
	k := 0
	for t.Cmp(big.NewInt(1)) > 0 {
		t.QuoRem(t, ten, r)
		if r.Sign() != 0 {
			return 0, false
		}
		k++
	}
	return k, true
}

// wordsOf evaluates a composite literal of constant uint64 words
// (little-endian limbs) to a big integer.
func (p *Prog) wordsOf(e ast.Expr) (*big.Int, int, bool) {
	cl, ok := ast.Unparen(e).(*ast.CompositeLit)
	if !ok {
		return nil, 0, false
	}
	v := new(big.Int)
	for i := len(cl.Elts) - 1; i >= 0; i-- {
		u, ok := p.constUint64(cl.Elts[i])
		if !ok {
			return nil, 0, false
		}
		v.Lsh(v, 64)
		v.Or(v, new(big.Int).SetUint64(u))
	}
	return v, len(cl.Elts), true
}

func constBig(v constant.Value) (*big.Int, bool) {
	v = constant.ToInt(v)
	if v.Kind() != constant.Int {
		return nil, false
	}
	b, ok := new(big.Int).SetString(v.ExactString(), 10)
	return b, ok
}

func ruleTabPowers(c *Ctx) {
	p := c.P
	for _, t := range []struct {
		name  string
		n     int
		limbs int
	}{{"uint128PowersOf10", 39, 2}, {"uint192PowersOf10", 58, 3}} {
		init := p.pkgVarInit(t.name)
		cl, ok := init.(*ast.CompositeLit)
		if !ok {
			c.undecided("table:"+t.name, nil, "table "+t.name+" not found as a composite literal")
			continue
		}
		c.check(len(cl.Elts) == t.n, "len:"+t.name, cl, fmt.Sprintf("%d entries", t.n),
			fmt.Sprintf("%s has %d entries, want %d (10^0..10^%d is everything that fits)", t.name, len(cl.Elts), t.n, t.n-1))
		for i, el := range cl.Elts {
			v, limbs, ok := p.wordsOf(el)
			key := fmt.Sprintf("%s[%d]", t.name, i)
			if !ok {
				c.undecided(key, el, "entry is not a literal of constant words")
				continue
			}
			c.check(limbs == t.limbs && v.Cmp(pow10(i)) == 0, key, el, fmt.Sprintf("= 10^%d", i),
				fmt.Sprintf("%s = %s, want 10^%d", key, v.String(), i))
		}
	}
	// rcp: oneSig = 10^57 (the numerator of the reciprocal, exponent -57)
	if fd := c.fn("decomposed192.rcp"); fd != nil {
		found := false
		ast.Inspect(fd.Body, func(n ast.Node) bool {
			as, ok := n.(*ast.AssignStmt)
			if !ok || len(as.Lhs) != 1 || len(as.Rhs) != 1 {
				return true
			}
			if id, ok := as.Lhs[0].(*ast.Ident); ok && id.Name == "oneSig" {
				found = true
				v, _, ok := p.wordsOf(as.Rhs[0])
				c.check(ok && v.Cmp(pow10(57)) == 0, "rcp.oneSig", as, "= 10^57",
					"rcp's numerator must be 10^57 to pair with `exp := -57 - d.exp`")
			}
			return true
		})
		if !found {
			c.undecided("rcp.oneSig", fd, "numerator literal of rcp not found")
		}
		// and the exponent constant that pairs with it
		cnt := 0
		ast.Inspect(fd.Body, func(n ast.Node) bool {
			as, ok := n.(*ast.AssignStmt)
			if !ok || len(as.Lhs) != 1 || len(as.Rhs) != 1 {
				return true
			}
			id, ok := as.Lhs[0].(*ast.Ident)
			if !ok || id.Name != "exp" || as.Tok != token.DEFINE {
				return true
			}
			be, ok := as.Rhs[0].(*ast.BinaryExpr)
			if !ok || be.Op != token.SUB {
				return true
			}
			k, ok := p.constInt64(be.X)
			cnt++
			c.check(ok && k == -57 && p.exprStr(be.Y) == "d.exp", "rcp.exp", as, "exp := -57 - d.exp pairs with the 10^57 numerator",
				"rcp must start from exponent -57 - d.exp: 10^57/sig = (1/value)·10^(57+d.exp)")
			return true
		})
		if cnt == 0 {
			c.undecided("rcp.exp", fd, "initial exponent of rcp not found")
		}
	}
	// mul1e38: o1·2^64 + o0 = 10^38
	if fd := c.fn("uint128.mul1e38"); fd != nil {
		var o0, o1 *big.Int
		ast.Inspect(fd.Body, func(n ast.Node) bool {
			ds, ok := n.(*ast.DeclStmt)
			if !ok {
				return true
			}
			gd := ds.Decl.(*ast.GenDecl)
			if gd.Tok != token.CONST {
				return true
			}
			for _, s := range gd.Specs {
				vs := s.(*ast.ValueSpec)
				for i, nm := range vs.Names {
					if i < len(vs.Values) {
						if v := p.constOf(vs.Values[i]); v != nil {
							b, _ := constBig(v)
							switch nm.Name {
							case "o0":
								o0 = b
							case "o1":
								o1 = b
							}
						}
					}
				}
			}
			return true
		})
		if o0 == nil || o1 == nil {
			c.undecided("mul1e38.const", fd, "constants o0/o1 not found")
		} else {
			v := new(big.Int).Lsh(o1, 64)
			v.Add(v, o0)
			c.check(v.Cmp(pow10(38)) == 0, "mul1e38.const", fd, "o1·2^64+o0 = 10^38", "mul1e38 multiplies by "+v.String()+", want 10^38")
		}
	}
}

func ruleTabDigitPairs(c *Ctx) {
	p := c.P
	init := p.pkgVarInit("digitPairs")
	cl, ok := init.(*ast.CompositeLit)
	if !ok {
		c.undecided("table:digitPairs", nil, "digitPairs not found")
		return
	}
	c.check(len(cl.Elts) == 100, "len:digitPairs", cl, "100 entries", fmt.Sprintf("digitPairs has %d entries, want 100", len(cl.Elts)))
	for i, el := range cl.Elts {
		key := fmt.Sprintf("digitPairs[%d]", i)
		e, ok := el.(*ast.CompositeLit)
		if !ok || len(e.Elts) != 2 {
			c.undecided(key, el, "entry is not a pair")
			continue
		}
		a, ok1 := p.constInt64(e.Elts[0])
		b, ok2 := p.constInt64(e.Elts[1])
		c.check(ok1 && ok2 && a == int64('0'+i/10) && b == int64('0'+i%10), key, el, fmt.Sprintf("= %02d", i),
			fmt.Sprintf("digitPairs[%d] = {%q,%q}, want {%q,%q}", i, rune(a), rune(b), rune('0'+i/10), rune('0'+i%10)))
	}
	// text constants
	for _, t := range []struct{ name, want string }{
		{"nanText", "NaN"}, {"padNaNText", " NaN"}, {"posNaNText", "+NaN"},
		{"negInfText", "-Inf"}, {"padInfText", " Inf"}, {"posInfText", "+Inf"},
	} {
		init := p.pkgVarInit(t.name)
		call, ok := init.(*ast.CallExpr)
		got := ""
		okv := false
		if ok && len(call.Args) == 1 {
			if v := p.constOf(call.Args[0]); v != nil && v.Kind() == constant.String {
				got = constant.StringVal(v)
				okv = true
			}
		}
		if !okv {
			c.undecided("text:"+t.name, nil, "text constant "+t.name+" not found")
			continue
		}
		c.check(got == t.want, "text:"+t.name, init, fmt.Sprintf("= %q", t.want), fmt.Sprintf("%s = %q, want %q", t.name, got, t.want))
	}
}

// divKInfo is recorded per method object for the other engines.
type divKInfo struct {
	K     *big.Int
	Log10 int
}

// divKTable computes, for every method whose body divides by one constant
// with bits.Div64, that constant. Engines use this instead of method names.
func (p *Prog) divKTable() (map[string]divKInfo, map[string]string) {
	out := map[string]divKInfo{}
	problems := map[string]string{}
	for _, name := range p.sortedFuncNames() {
		fd := p.Funcs[name]
		if fd.Body == nil || fd.Recv == nil {
			continue
		}
		recv := recvTypeName(fd.Recv.List[0].Type)
		if !strings.HasPrefix(recv, "uint") {
			continue
		}
		var divisors []*big.Int
		nonConst := false
		ast.Inspect(fd.Body, func(n ast.Node) bool {
			call, ok := n.(*ast.CallExpr)
			if !ok || p.calleeName(call) != "math/bits.Div64" || len(call.Args) != 3 {
				return true
			}
			if v := p.constOf(call.Args[2]); v != nil {
				b, _ := constBig(v)
				divisors = append(divisors, b)
			} else {
				nonConst = true
			}
			return true
		})
		if len(divisors) == 0 || nonConst {
			continue
		}
		// threshold literals compared with the top limb
		var thresholds []*big.Int
		ast.Inspect(fd.Body, func(n ast.Node) bool {
			ifs, ok := n.(*ast.IfStmt)
			if !ok {
				return true
			}
			be, ok := ifs.Cond.(*ast.BinaryExpr)
			if !ok || be.Op != token.LSS {
				return true
			}
			if v := p.constOf(be.Y); v != nil {
				b, _ := constBig(v)
				thresholds = append(thresholds, b)
			}
			return true
		})
		k := divisors[0]
		for _, d := range append(divisors[1:], thresholds...) {
			if d.Cmp(k) != 0 {
				problems[name] = fmt.Sprintf("%s divides by %s but also uses %s", name, k, d)
			}
		}
		if len(thresholds) != 1 {
			problems[name] = fmt.Sprintf("%s: expected exactly one top-limb threshold test, found %d", name, len(thresholds))
		}
		l, ok := isPow10(k)
		if !ok {
			problems[name] = fmt.Sprintf("%s divides by %s, which is not a power of ten", name, k)
		}
		out[name] = divKInfo{K: k, Log10: l}
	}
	return out, problems
}

// ruleTabDivK verifies each divK method as schoolbook long division by one
// constant: symbolic execution of the Div64 chain.
func ruleTabDivK(c *Ctx) {
	p := c.P
	tab, problems := p.divKTable()
	var names []string
	for n := range tab {
		names = append(names, n)
	}
	sort.Strings(names)
	for _, name := range names {
		fd := p.Funcs[name]
		if msg, bad := problems[name]; bad {
			c.bad("divK.const:"+name, fd, msg)
			continue
		}
		c.ok("divK.const:"+name, fd, fmt.Sprintf("every Div64 divisor and the top-limb threshold are one constant 10^%d", tab[name].Log10))
		// name/constant agreement is not required by any rule (engines use the
		// recorded constant), but callers pair exponents by what the method
		// does, so record it.
		if msg := p.checkDivChain(fd, tab[name].K); msg != "" {
			c.bad("divK.chain:"+name, fd, msg)
		} else {
			c.ok("divK.chain:"+name, fd, "Div64 chain is schoolbook long division: limbs consumed from the top, each remainder feeds the next high word, quotient limbs returned in place")
		}
	}
}

// checkDivChain symbolically executes a divK body. Values: Q(i) quotient limb
// i, R(i) remainder after consuming limbs >= i, Z zero.
func (p *Prog) checkDivChain(fd *ast.FuncDecl, K *big.Int) string {
	if fd.Recv == nil || len(fd.Recv.List) != 1 || len(fd.Recv.List[0].Names) != 1 {
		return "unexpected receiver"
	}
	recvObj := p.Info.Defs[fd.Recv.List[0].Names[0]]
	arr, ok := recvObj.Type().Underlying().(*types.Array)
	if !ok {
		return "receiver is not an array of limbs"
	}
	L := int(arr.Len())
	type sym struct {
		kind byte // 'Q','R','Z'
		i    int
	}
	type state map[types.Object]sym
	limbIndex := func(e ast.Expr) (int, bool) {
		ix, ok := ast.Unparen(e).(*ast.IndexExpr)
		if !ok || p.objOf(ix.X) != recvObj {
			return 0, false
		}
		i, ok := p.constInt64(ix.Index)
		return int(i), ok
	}
	var run func(list []ast.Stmt, st state, guardTop bool) (state, string)
	// consumed tracks the lowest limb consumed so far, stored under a nil key
	// via a side variable per state: encode in map with special object nil.
	type meta struct{ next int }
	metas := map[*state]*meta{}
	_ = metas
	var errOut string
	run = func(list []ast.Stmt, st state, guardTop bool) (state, string) {
		for _, s := range list {
			switch x := s.(type) {
			case *ast.DeclStmt:
				gd, ok := x.Decl.(*ast.GenDecl)
				if !ok || gd.Tok != token.VAR {
					return nil, "unexpected declaration"
				}
				for _, sp := range gd.Specs {
					vs := sp.(*ast.ValueSpec)
					if len(vs.Values) != 0 {
						return nil, "unexpected initialiser"
					}
					for _, n := range vs.Names {
						st[p.Info.Defs[n]] = sym{'Z', 0}
					}
				}
			case *ast.AssignStmt:
				if len(x.Lhs) != 2 || len(x.Rhs) != 1 {
					return nil, "unexpected assignment " + p.posStr(x)
				}
				call, ok := x.Rhs[0].(*ast.CallExpr)
				if !ok || p.calleeName(call) != "math/bits.Div64" {
					return nil, "unexpected assignment " + p.posStr(x)
				}
				kv, _ := constBig(p.constOf(call.Args[2]))
				if kv == nil || kv.Cmp(K) != 0 {
					return nil, "divisor differs at " + p.posStr(x)
				}
				j, ok := limbIndex(call.Args[1])
				if !ok {
					return nil, "low word is not a receiver limb at " + p.posStr(x)
				}
				// high word
				hiOK := false
				if v, ok := p.constInt64(call.Args[0]); ok && v == 0 {
					// fresh start: only legal for the top limb
					hiOK = j == L-1
				} else if hj, ok := limbIndex(call.Args[0]); ok {
					// n[top] as high word: legal only under the guard n[top] < K
					hiOK = guardTop && hj == L-1 && j == L-2
				} else if o := p.objOf(call.Args[0]); o != nil {
					if sv, ok := st[o]; ok && sv.kind == 'R' && sv.i == j+1 {
						hiOK = true
					}
				}
				if !hiOK {
					return nil, fmt.Sprintf("Div64 at %s: the high word is not the running remainder of limb %d (or 0 / the guarded top limb)", p.posStr(x), j+1)
				}
				qo, ro := p.objOf(x.Lhs[0]), p.objOf(x.Lhs[1])
				if qo == nil || ro == nil {
					return nil, "unexpected targets at " + p.posStr(x)
				}
				st[qo] = sym{'Q', j}
				st[ro] = sym{'R', j}
			case *ast.IfStmt:
				be, ok := x.Cond.(*ast.BinaryExpr)
				if !ok || be.Op != token.LSS || x.Else == nil {
					return nil, "unexpected condition at " + p.posStr(x)
				}
				tj, ok1 := limbIndex(be.X)
				kv, _ := constBig(p.constOf(be.Y))
				if !ok1 || tj != L-1 || kv == nil || kv.Cmp(K) != 0 {
					return nil, "the guard must be n[top] < K at " + p.posStr(x)
				}
				cp := func(s state) state {
					n := state{}
					for k, v := range s {
						n[k] = v
					}
					return n
				}
				a, e1 := run(x.Body.List, cp(st), true)
				if e1 != "" {
					return nil, e1
				}
				eb, ok := x.Else.(*ast.BlockStmt)
				if !ok {
					return nil, "unexpected else at " + p.posStr(x)
				}
				b, e2 := run(eb.List, cp(st), false)
				if e2 != "" {
					return nil, e2
				}
				// join: in the guarded branch Q(top) = 0 is represented by Z.
				for k, va := range a {
					vb := b[k]
					if va == vb {
						st[k] = va
						continue
					}
					if va.kind == 'Z' && vb.kind == 'Q' && vb.i == L-1 {
						st[k] = vb // zero is the correct top quotient limb when n[top] < K
						continue
					}
					return nil, "branches disagree at " + p.posStr(x)
				}
			case *ast.ReturnStmt:
				if len(x.Results) != 2 {
					return nil, "unexpected return"
				}
				cl, ok := x.Results[0].(*ast.CompositeLit)
				if !ok || len(cl.Elts) != L {
					return nil, "quotient is not a full limb literal"
				}
				for i, el := range cl.Elts {
					o := p.objOf(el)
					sv, ok := st[o]
					if !ok || sv.kind != 'Q' || sv.i != i {
						return nil, fmt.Sprintf("returned limb %d is not quotient limb %d", i, i)
					}
				}
				ro := p.objOf(x.Results[1])
				if sv, ok := st[ro]; !ok || sv.kind != 'R' || sv.i != 0 {
					return nil, "returned remainder is not the remainder after the lowest limb"
				}
				errOut = "done"
				return st, ""
			default:
				return nil, "unexpected statement at " + p.posStr(s)
			}
		}
		return st, ""
	}
	_, e := run(fd.Body.List, state{}, false)
	if e != "" {
		return e
	}
	if errOut != "done" {
		return "no return reached"
	}
	return ""
}

func ruleTabP10(c *Ctx) {
	p := c.P
	bias, okb := p.pkgConstInt("exponentBias")
	if !okb {
		c.undecided("p10:bias", nil, "exponentBias not found")
		return
	}
	for _, t := range []struct {
		fn   string
		bias int64
		prop string
	}{{"Decimal.PowWithMode", bias, "C18"}, {"decomposed192.powexp10", 0, "C16"}} {
		fd := c.fn(t.fn)
		if fd == nil {
			continue
		}
		// the selector: the exponent of the power operand. In PowWithMode it is the second result of
		// decompose on the (only) Decimal parameter, in powexp10 the int16 parameter.
		var tagObj types.Object
		ps := paramObjs(p, fd)
		if t.bias == 0 {
			if len(ps) >= 1 {
				tagObj = ps[0]
			}
		} else if len(ps) >= 1 {
			ast.Inspect(fd.Body, func(n ast.Node) bool {
				as, ok := n.(*ast.AssignStmt)
				if !ok || len(as.Lhs) != 2 || len(as.Rhs) != 1 {
					return true
				}
				call, ok := as.Rhs[0].(*ast.CallExpr)
				if !ok || !strings.HasSuffix(p.calleeName(call), ".decompose") {
					return true
				}
				if sel, ok := ast.Unparen(call.Fun).(*ast.SelectorExpr); ok && p.objOf(sel.X) == ps[0] {
					tagObj = p.objOf(as.Lhs[1])
				}
				return true
			})
		}
		if tagObj == nil {
			c.undecided("p10:"+t.fn, fd, "the exponent selecting the power of ten was not found", t.prop)
			continue
		}
		found := 0
		maxE := int64(0)
		var tabVar types.Object
		walkStack(fd.Body, func(n ast.Node, stack []ast.Node) {
			switch x := n.(type) {
			case *ast.SwitchStmt:
				// (a) one arm per exponent assigning a constant
				if x.Tag == nil || p.objOf(x.Tag) != tagObj {
					return
				}
				for _, cc := range x.Body.List {
					cl := cc.(*ast.CaseClause)
					if len(cl.List) != 1 || len(cl.Body) != 1 {
						continue
					}
					as, ok := cl.Body[0].(*ast.AssignStmt)
					if !ok || len(as.Lhs) != 1 || len(as.Rhs) != 1 || as.Tok != token.ASSIGN || p.objOf(as.Lhs[0]) == nil {
						continue
					}
					k, ok1 := p.constInt64(cl.List[0])
					v, ok2 := p.constInt64(as.Rhs[0])
					if !ok1 || !ok2 {
						continue
					}
					if tabVar == nil {
						tabVar = p.objOf(as.Lhs[0])
					}
					key := fmt.Sprintf("p10:%s:case%d", t.fn, k-t.bias)
					found++
					if p.objOf(as.Lhs[0]) != tabVar {
						c.check(false, key, cl, "all arms set the same variable", fmt.Sprintf("%s: case %d assigns a different variable than the other arms", t.fn, k-t.bias), t.prop)
						continue
					}
					e := k - t.bias
					maxE = max(maxE, e)
					c.check(e >= 0 && e <= 18 && pow10(int(e)).Cmp(big.NewInt(v)) == 0, key, cl, fmt.Sprintf("p10 = 10^%d", e),
						fmt.Sprintf("%s: case %d sets p10 = %d, want 10^%d", t.fn, e, v, e), t.prop)
				}
			case *ast.IndexExpr:
				// (b) a lookup T[exp-bias][0] in a read-only table of constants
				row := x
				if inner, ok := ast.Unparen(x.X).(*ast.IndexExpr); ok {
					if j, ok := p.constInt64(x.Index); !ok || j != 0 {
						return
					}
					row = inner
				} else if len(stack) > 0 {
					if par, ok := stack[len(stack)-1].(*ast.IndexExpr); ok && ast.Unparen(par.X) == ast.Expr(x) {
						return // visited as the inner part of T[i][j]
					}
				}
				base, ok := ast.Unparen(row.X).(*ast.Ident)
				if !ok {
					return
				}
				tab := p.constTableOf(p.Info.Uses[base])
				if tab == nil || tab.two != (row != x) {
					return
				}
				k, off, ok := p.linearKey(row.Index)
				if !ok || k != fmt.Sprintf("%s@%d", tagObj.Name(), tagObj.Pos()) {
					return
				}
				uses := false
				ast.Inspect(row.Index, func(m ast.Node) bool {
					if mid, ok := m.(*ast.Ident); ok && p.Info.Uses[mid] == tagObj {
						uses = true
					}
					return true
				})
				if !uses {
					return
				}
				iv := p.intervalAt(fd, row.Index, append(append([]ast.Node{}, stack...), n))
				if iv.lo == nil || iv.hi == nil || !iv.lo.IsInt64() || !iv.hi.IsInt64() || iv.hi.Int64()-iv.lo.Int64() > 64 {
					c.undecided("p10:"+t.fn+":lookup", x, t.fn+": the index of the power-of-ten lookup is not bounded at this point", t.prop)
					return
				}
				for i := iv.lo.Int64(); i <= iv.hi.Int64(); i++ {
					e := i - off.Int64() - t.bias // exponent this index stands for
					key := fmt.Sprintf("p10:%s:case%d", t.fn, e)
					found++
					maxE = max(maxE, e)
					okV := i >= 0 && i < int64(len(tab.rows)) && e >= 0 && e <= 18 && tab.rows[i][0].Cmp(pow10(int(e))) == 0
					if okV {
						for _, limb := range tab.rows[i][1:] {
							if limb.Sign() != 0 {
								okV = false
							}
						}
					}
					c.check(okV, key, x, fmt.Sprintf("p10 = 10^%d", e),
						fmt.Sprintf("%s: for exponent %d the lookup %s reads entry %d, which is not 10^%d in one word", t.fn, e, p.exprStr(x), i, e), t.prop)
				}
			}
		})
		if found < 7 {
			c.undecided("p10:"+t.fn, fd, fmt.Sprintf("only %d p10 table arms found (want >= 7)", found), t.prop)
		}
		if t.bias != 0 {
			// the 64-bit product (exponent of the base)·p10·(coefficient of the power) is only shown not to
			// overflow for p10 <= 10^7 (E7.G7, shortcut exit)
			c.check(maxE <= 7, "p10:"+t.fn+":max", fd, "largest power of ten in the shortcut is 10^7", fmt.Sprintf("%s: the shortcut handles 10^%d; beyond 10^7 the 64-bit exponent product can overflow", t.fn, maxE), t.prop)
		}
	}
}

// grids: every (n[i], o[j]) partial product appears exactly once.
func ruleTabGrids(c *Ctx) {
	p := c.P
	type grid struct {
		fn    string
		a, b  int    // limb counts
		other string // name of second operand: "o", "n" (pow2), or "" for consts/scalars
	}
	for _, g := range []grid{
		{"uint128.mul", 2, 2, "o"}, {"uint192.mul", 3, 3, "o"}, {"uint192.pow2", 3, 3, "n"},
		{"uint128.mul1e38", 2, 2, "const"}, {"uint128.mul64", 2, 1, "scalar"}, {"uint192.mul64", 3, 1, "scalar"}, {"uint256.mul64", 4, 1, "scalar"},
	} {
		fd := c.fn(g.fn)
		if fd == nil {
			continue
		}
		recvObj := p.Info.Defs[fd.Recv.List[0].Names[0]]
		var otherObj types.Object
		if g.other == "o" || g.other == "scalar" {
			otherObj = p.Info.Defs[fd.Type.Params.List[0].Names[0]]
		}
		pairs := map[[2]int]int{}
		bad := ""
		operand := func(e ast.Expr) (which byte, idx int, ok bool) {
			e = ast.Unparen(e)
			if ix, isIx := e.(*ast.IndexExpr); isIx {
				i, okc := p.constInt64(ix.Index)
				if !okc {
					return 0, 0, false
				}
				o := p.objOf(ix.X)
				if o == recvObj {
					return 'n', int(i), true
				}
				if o == otherObj {
					return 'o', int(i), true
				}
				return 0, 0, false
			}
			if o := p.objOf(e); o != nil {
				if o == otherObj && g.other == "scalar" {
					return 'o', 0, true
				}
				if cst, isC := o.(*types.Const); isC && g.other == "const" {
					switch cst.Name() {
					case "o0":
						return 'o', 0, true
					case "o1":
						return 'o', 1, true
					}
				}
			}
			return 0, 0, false
		}
		record := func(x, y ast.Expr, at ast.Node) {
			w1, i1, ok1 := operand(x)
			w2, i2, ok2 := operand(y)
			if !ok1 || !ok2 {
				bad = "unrecognised product operand at " + p.posStr(at)
				return
			}
			if g.other == "n" { // squaring: both are receiver limbs, ordered pair
				if w1 != 'n' || w2 != 'n' {
					bad = "unexpected operand at " + p.posStr(at)
					return
				}
				pairs[[2]int{i1, i2}]++
				return
			}
			if w1 == 'o' && w2 == 'n' {
				i1, i2 = i2, i1
			} else if !(w1 == 'n' && w2 == 'o') {
				bad = "product does not combine one limb of each operand at " + p.posStr(at)
				return
			}
			pairs[[2]int{i1, i2}]++
		}
		ast.Inspect(fd.Body, func(n ast.Node) bool {
			switch x := n.(type) {
			case *ast.CallExpr:
				if p.calleeName(x) == "math/bits.Mul64" && len(x.Args) == 2 {
					record(x.Args[0], x.Args[1], x)
				}
			case *ast.BinaryExpr:
				if x.Op == token.MUL {
					record(x.X, x.Y, x)
				}
			}
			return true
		})
		if bad != "" {
			c.bad("grid:"+g.fn, fd, bad)
			continue
		}
		okAll := true
		msg := ""
		for i := 0; i < g.a; i++ {
			for j := 0; j < g.b; j++ {
				// the top-most product of a truncating multiply may be absent
				// only if it cannot affect the kept limbs; none of today's
				// grids omit a pair.
				if pairs[[2]int{i, j}] != 1 {
					okAll = false
					msg += fmt.Sprintf(" (n[%d],o[%d])×%d", i, j, pairs[[2]int{i, j}])
				}
			}
		}
		if len(pairs) != g.a*g.b {
			okAll = false
			msg += fmt.Sprintf(" %d distinct pairs, want %d", len(pairs), g.a*g.b)
		}
		c.check(okAll, "grid:"+g.fn, fd, fmt.Sprintf("all %d partial products appear exactly once", g.a*g.b),
			g.fn+": partial-product grid is not complete/unique:"+msg)
	}
}
