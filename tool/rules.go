package main

// rules is the registry of rule engines. Floors are the instance counts
// confirmed by reading the current tree; a run that finds fewer fails.
var rules = []Rule{
	{ID: "E1.wrap", Doc: "exported wrappers are exactly the documented delegation (canonical body comparison with callees, constants and parameters resolved through go/types)",
		Props: []string{"C01", "C02", "C03", "C05", "C06", "C07", "C08", "C09", "C10", "C15", "C18", "C19", "C20"}, Floor: 27, Run: ruleWrap},
}
