package main

// rules is the registry of rule engines. Floors are the instance counts
// confirmed by reading the current tree; a run that finds fewer fails.
var rules = []Rule{
	{ID: "E1.wrap", Doc: "exported wrappers are exactly the documented delegation (canonical body comparison with callees, constants and parameters resolved through go/types)",
		Props: []string{"C01", "C02", "C03", "C05", "C06", "C07", "C08", "C09", "C10", "C15", "C18", "C19", "C20"}, Floor: 27, Run: ruleWrap},
	{ID: "E2.powers", Doc: "power-of-ten tables, the 10^57 reciprocal numerator and the 10^38 multiplier equal values computed by the checker",
		Props: []string{"C16", "C17", "C18", "C04", "C09"}, Floor: 102, Run: ruleTabPowers},
	{ID: "E2.text", Doc: "digitPairs[i] is the two-digit numeral of i and the special-value texts are NaN/+Inf/-Inf (and padded forms)",
		Props: []string{"C06", "C07", "C13"}, Floor: 107, Run: ruleTabDigitPairs},
	{ID: "E2.divK", Doc: "every uintN.divK uses one power-of-ten constant for threshold and all Div64 steps, and its Div64 chain is symbolically verified to be schoolbook long division",
		Props: []string{"C01", "C02", "C03", "C04", "C05", "C06", "C08", "C09", "C14", "C16", "C17"}, Floor: 32, Run: ruleTabDivK},
	{ID: "E2.p10", Doc: "the p10 switch tables of Pow and powexp10 map case k to 10^k",
		Props: []string{"C18", "C16"}, Floor: 15, Run: ruleTabP10},
	{ID: "E2.grid", Doc: "multi-word multiplications contain each partial product (n[i], o[j]) exactly once",
		Props: []string{"C02", "C09", "C16", "C17", "C18"}, Floor: 7, Run: ruleTabGrids},
	{ID: "E2.ln", Doc: "ln table (89 entries), ln10, ln2, 1/ln10, 1/ln2 are within one unit of the true value at their scale (computed by the checker to 400 bits); table length and indexing agree",
		Props: []string{"C16", "C18"}, Floor: 96, Run: ruleTabLn},
	{ID: "E2.payload", Doc: "NaN payload registry: packing, unpacking, operation names, arity and construction sites agree",
		Props: []string{"C15"}, Floor: 60, Run: ruleTabPayload},
	{ID: "E3.pred", Doc: "class predicates are exactly mask tests with the BID masks and partition all bit patterns",
		Props: []string{"C15", "C12", "C04", "C19"}, Floor: 6, Run: ruleLayoutPredicates},
	{ID: "E3.codec", Doc: "compose/decompose bit fields equal the IEEE 754-2008 BID layout for both forms (bit-provenance evaluation of masks and shifts per branch)",
		Props: []string{"C12", "C19"}, Floor: 11, Run: ruleLayoutCompose},
	{ID: "E3.binary", Doc: "MarshalBinary/UnmarshalBinary bodies are nothing but inverse 16-entry big-endian byte tables behind a length guard",
		Props: []string{"C12"}, Floor: 39, Run: ruleLayoutBinary},
	{ID: "E3.decompose", Doc: "Decompose writes the coefficient of d.decompose() as a 16-entry big-endian byte table",
		Props: []string{"C14"}, Floor: 18, Run: ruleLayoutDecompose},
	{ID: "E3.literals", Doc: "every constant Decimal literal decodes under the BID layout to the value its constructor claims; only the frozen set of functions builds a Decimal from raw words",
		Props: []string{"C12", "C15", "C19"}, Floor: 15, Run: ruleLayoutLiterals},
	{ID: "E9.dispatch", Doc: "class-domain abstract interpretation of each operation on every tuple of operand classes {NaN,±Inf,±0,±finite}: every outcome on every path must be admissible under the IEEE 754 / Go math specification table (DESIGN.md App. A)",
		Props: []string{"C01", "C02", "C03", "C04", "C08", "C09", "C10", "C11", "C13", "C14", "C15", "C16", "C17", "C18", "C19", "C20"}, Floor: 1060, Run: ruleDispatch},
}
