package main

import (
	"fmt"
	"go/ast"
	"go/token"
	"go/types"
	"math/big"
	"strings"
)

// maxBiasedExp is the largest biased exponent of the format, computed from the
// format parameters (14-bit exponent field whose two top bits are never 11).
const specMaxBiasedExp = 3<<12 - 1 // 12287
const specBias = 6176
const specMaxDigits = 35 // 5·2^111-1 has 35 digits

// stmtPath returns, for a node stack, the chain of (block, index) pairs from
// the function body down to the statement containing the node.
type blockPos struct {
	list []ast.Stmt
	idx  int
}

func blockChain(stack []ast.Node) []blockPos {
	var out []blockPos
	for i := 0; i < len(stack)-1; i++ {
		var list []ast.Stmt
		switch b := stack[i].(type) {
		case *ast.BlockStmt:
			list = b.List
		case *ast.CaseClause:
			list = b.Body
		}
		if list == nil {
			continue
		}
		for j, s := range list {
			if s == stack[i+1] {
				out = append(out, blockPos{list, j})
			}
		}
	}
	return out
}

// isOverflowGuard matches `if X > maxBiasedExponent { ... return ... }` (also
// >= max+1) for the variable key, with a body that leaves the function.
func (p *Prog) isOverflowGuard(s ast.Stmt, key string) bool {
	ifs, ok := s.(*ast.IfStmt)
	if !ok || ifs.Init != nil {
		return false
	}
	x, op, k, ok := p.normCmp(ifs.Cond)
	if !ok || p.exprKey(x) != key || op != token.GTR || !k.IsInt64() || k.Int64() != specMaxBiasedExp {
		return false
	}
	return blockLeaves(ifs.Body.List)
}

// blockLeaves reports whether every path through the list ends in a return.
func blockLeaves(list []ast.Stmt) bool {
	if len(list) == 0 {
		return false
	}
	switch x := list[len(list)-1].(type) {
	case *ast.ReturnStmt:
		return true
	case *ast.IfStmt:
		if x.Else == nil {
			return false
		}
		eb, ok := x.Else.(*ast.BlockStmt)
		return ok && blockLeaves(x.Body.List) && blockLeaves(eb.List)
	}
	return false
}

// G3 + G8: every compose call.
func ruleGuardCompose(c *Ctx) {
	p := c.P
	perFn := map[string]int{}
	total := 0
	for _, name := range p.sortedFuncNames() {
		fd := p.Funcs[name]
		if fd.Body == nil || name == "compose" {
			continue
		}
		// an exponent outside the 14-bit field also breaks the encoding itself (C12: an independent decoder
		// must recover the same fields)
		fp := append(append([]string{}, funcProps(name)...), "C12")
		env := p.newCanonEnv(fd)
		walkStack(fd.Body, func(n ast.Node, stack []ast.Node) {
			call, ok := n.(*ast.CallExpr)
			if !ok || !p.isPkgFunc(call, "compose") || len(call.Args) != 3 {
				return
			}
			perFn[name]++
			total++
			key := fmt.Sprintf("compose:%s#%d", name, perFn[name])
			full := append(append([]ast.Node{}, stack...), n)
			chain := blockChain(full)
			expArg := ast.Unparen(call.Args[2])
			// (B) constant
			if k, ok := p.constInt64(expArg); ok {
				c.check(k >= 0 && k <= specMaxBiasedExp, key, call, fmt.Sprintf("constant biased exponent %d", k),
					fmt.Sprintf("%s: compose is called with the constant exponent %d outside 0..%d", name, k, specMaxBiasedExp), fp...)
				return
			}
			xkey := p.exprKey(expArg)
			if xkey == "" {
				if why, ok := g3Reviewed(p, name, fd, call); ok {
					c.exempt(key, call, why, fp...)
				} else {
					c.bad(key, call, fmt.Sprintf("%s: the exponent passed to compose (`%s`) is a computed expression without a range guard; compose packs it into a 14-bit field unchecked", name, p.exprStr(expArg)), fp...)
				}
				return
			}
			// walk outwards looking for the guard; nothing may assign X between guard and call
			guarded := false
			dirty := false
			// "compose then overwrite": quo := compose(...); if qexp > max { quo = inf(...) }
			if len(chain) > 0 {
				last := chain[len(chain)-1]
				if as, ok := last.list[last.idx].(*ast.AssignStmt); ok && len(as.Lhs) == 1 && last.idx+1 < len(last.list) {
					if ifs, ok := last.list[last.idx+1].(*ast.IfStmt); ok {
						if be, ok := ast.Unparen(ifs.Cond).(*ast.BinaryExpr); ok && be.Op == token.GTR && p.exprKey(be.X) == xkey {
							if k, ok := p.constInt64(be.Y); ok && k == specMaxBiasedExp && len(ifs.Body.List) == 1 {
								if a2, ok := ifs.Body.List[0].(*ast.AssignStmt); ok && len(a2.Lhs) == 1 && p.exprKey(a2.Lhs[0]) == p.exprKey(as.Lhs[0]) {
									if c2, ok := a2.Rhs[0].(*ast.CallExpr); ok && p.isPkgFunc(c2, "inf") {
										guarded = true
									}
								}
							}
						}
					}
				}
			}
			// the call sits on the in-range side of an if/else on the overflow condition
			for _, f := range p.factsAt(full, func(st ast.Stmt) bool { return p.assignsTo(st, xkey) }) {
				fx, fop, fk, ok := p.normCmp(f.cond)
				if !ok || p.exprKey(fx) != xkey || !fk.IsInt64() || fk.Int64() != specMaxBiasedExp {
					continue
				}
				if !f.val {
					fop = negOp(fop)
				}
				if fop == token.LEQ {
					guarded = true
				}
			}
			for ci := len(chain) - 1; ci >= 0 && !guarded && !dirty; ci-- {
				bp := chain[ci]
				for j := bp.idx - 1; j >= 0; j-- {
					s := bp.list[j]
					if p.isOverflowGuard(s, xkey) {
						guarded = true
						break
					}
					if p.assignsTo(s, xkey) {
						dirty = true
						break
					}
				}
			}
			if guarded {
				// G8: sign consistency between the rounding call that produced the
				// coefficient and this compose
				sigKey := p.exprKey(call.Args[1])
				signC := env.canon(call.Args[0])
				mismatch := ""
				ast.Inspect(fd.Body, func(m ast.Node) bool {
					as, ok := m.(*ast.AssignStmt)
					if !ok || len(as.Lhs) != 2 || len(as.Rhs) != 1 || as.Pos() > call.Pos() {
						return true
					}
					rc, ok := as.Rhs[0].(*ast.CallExpr)
					if !ok {
						return true
					}
					cn := p.calleeName(rc)
					if !strings.HasPrefix(cn, "RoundingMode.") {
						return true
					}
					if p.exprKey(as.Lhs[0]) != sigKey || p.exprKey(as.Lhs[1]) != xkey {
						return true
					}
					if !p.reaches(fd, as, call) {
						return true
					}
					si := 0
					if cn == "RoundingMode.round" {
						si = 1
					}
					if got := env.canon(rc.Args[si]); got != signC {
						mismatch = fmt.Sprintf("%s rounds with sign `%s` but the result is composed with sign `%s`", cn, p.exprStr(rc.Args[si]), p.exprStr(call.Args[0]))
					}
					return true
				})
				if mismatch != "" {
					if name == "Decimal.PowWithMode" && strings.Contains(mismatch, "dNeg") {
						c.exempt(key, call, "power-of-ten shortcut rounds with the base's sign: a coefficient of 1 is inexact only at 10^-6177, whose exponent is odd, so no input distinguishes the two signs", fp...)
					} else {
						c.bad(key, call, name+": "+mismatch+" (directed rounding modes would round the wrong way)", fp...)
					}
					return
				}
				c.ok(key, call, "exponent passes `> maxBiasedExponent -> return` before compose; rounding sign = compose sign", fp...)
				return
			}
			// (C) unmodified decompose exponent
			if !dirty || true {
				if p.isUnmodifiedDecomposeExp(fd, expArg, call) {
					c.ok(key, call, "unmodified exponent of decompose()", fp...)
					return
				}
			}
			if why, ok := g3Reviewed(p, name, fd, call); ok {
				c.exempt(key, call, why, fp...)
				return
			}
			// last resort: the interval analysis bounds the exponent at the call
			if iv := p.intervalAt(fd, expArg, stackOf(fd, call)); iv.lo != nil && iv.hi != nil && iv.lo.Sign() >= 0 && iv.hi.Cmp(big.NewInt(specMaxBiasedExp)) <= 0 {
				c.ok(key, call, fmt.Sprintf("interval analysis: the exponent lies in [%v, %v] at the call", iv.lo, iv.hi), fp...)
				return
			}
			c.bad(key, call, fmt.Sprintf("%s: the exponent `%s` reaches compose without passing the overflow guard `> maxBiasedExponent -> ±Inf` (a result above the largest exponent would be packed into the 14-bit field and wrap)", name, p.exprStr(expArg)), fp...)
		})
	}
	if total < 30 {
		c.undecided("compose.count", nil, fmt.Sprintf("only %d compose call sites found", total))
	}
}

// reaches reports whether control can flow from statement s to node n: false
// when the innermost block containing s always returns and does not contain n.
func (p *Prog) reaches(fd *ast.FuncDecl, s ast.Stmt, n ast.Node) bool {
	res := true
	walkStack(fd.Body, func(m ast.Node, stack []ast.Node) {
		if m != ast.Node(s) {
			return
		}
		for i := len(stack) - 1; i >= 0; i-- {
			var list []ast.Stmt
			switch b := stack[i].(type) {
			case *ast.BlockStmt:
				list = b.List
			case *ast.CaseClause:
				list = b.Body
			}
			if list == nil {
				continue
			}
			if blockLeaves(list) && !containsNode(stack[i], n) {
				res = false
			}
			if containsNode(stack[i], n) {
				return
			}
		}
	})
	return res
}

// isUnmodifiedDecomposeExp: X is the second result of a decompose() and no
// statement between that assignment and the call (in source order, on the
// path to the call) assigns it.
func (p *Prog) isUnmodifiedDecomposeExp(fd *ast.FuncDecl, x ast.Expr, call *ast.CallExpr) bool {
	key := p.exprKey(x)
	var def *ast.AssignStmt
	ast.Inspect(fd.Body, func(n ast.Node) bool {
		as, ok := n.(*ast.AssignStmt)
		if !ok || len(as.Lhs) != 2 || len(as.Rhs) != 1 {
			return true
		}
		if rc, ok := as.Rhs[0].(*ast.CallExpr); ok && p.isPkgFunc(rc, "Decimal.decompose") && p.exprKey(as.Lhs[1]) == key {
			def = as
		}
		return true
	})
	if def == nil || def.Pos() > call.Pos() {
		return false
	}
	// any assignment to X located between def and call that can reach the call
	dirty := false
	walkStack(fd.Body, func(n ast.Node, stack []ast.Node) {
		if n.Pos() <= def.End() || n.Pos() >= call.Pos() {
			return
		}
		switch s := n.(type) {
		case *ast.AssignStmt:
			for _, l := range s.Lhs {
				if p.exprKey(l) == key && s != def {
					// the assignment reaches the call unless its enclosing block ends in a return before the call
					dirty = true
				}
			}
		case *ast.IncDecStmt:
			if p.exprKey(s.X) == key {
				dirty = true
			}
		}
	})
	return !dirty
}

// g3Reviewed: compose sites whose exponent is a computed expression, each
// with a structural mini-check and the arithmetic reason.
func g3Reviewed(p *Prog, fn string, fd *ast.FuncDecl, call *ast.CallExpr) (string, bool) {
	env := p.newCanonEnv(fd)
	arg := env.canon(call.Args[2])
	switch fn {
	case "Frexp":
		// exp -= int16(rexp), rexp = exp - bias + log10(sig) + 1  =>  exp' = bias - log10 - 1 in [6140, 6175]
		body := env.canonStmts(fd.Body.List)
		if strings.Contains(body, "call(uint128.log10;recv=") && strings.Contains(body, "-=conv(int16;") {
			return "Frexp: exponent becomes bias - log10(sig) - 1, within 6140..6175", true
		}
	case "Decimal.Canonical":
		body := env.canonStmts(fd.Body.List)
		bias := fmt.Sprintf("K(%d)", specBias)
		if strings.Contains(body, ">"+bias+");){") && strings.Contains(body, "<"+bias+");){") {
			return "Canonical: the exponent only moves toward the bias inside loops conditioned on `exp > bias` / `exp < bias`, so it stays between its decoded value and the bias", true
		}
	case "Decimal.PowWithMode":
		if strings.Contains(arg, fmt.Sprintf("K(%d)+", specBias)) {
			return "Pow sqrt-of-even-power shortcut: exp = ±(dExp-bias)/2 lies in -3088..3088, plus the bias is in range", true
		}
	case "Decimal.Compose":
		// interval of the unbiased exponent at the call, propagated through the clamping loops
		if conv, ok := ast.Unparen(call.Args[2]).(*ast.CallExpr); ok && len(conv.Args) == 1 {
			if be, ok := ast.Unparen(conv.Args[0]).(*ast.BinaryExpr); ok && be.Op == token.ADD {
				var ev ast.Expr
				var kb int64
				if k, ok := p.constInt64(be.Y); ok {
					ev, kb = be.X, k
				} else if k, ok := p.constInt64(be.X); ok {
					ev, kb = be.Y, k
				}
				if ev != nil && kb == specBias && p.exprKey(ev) != "" {
					iv, reached := p.ivalWalk(fd.Body.List, ival{}, p.exprKey(ev), call)
					if reached && iv.lo != nil && iv.hi != nil && iv.lo.Cmp(big.NewInt(-specBias)) >= 0 && iv.hi.Cmp(big.NewInt(specMaxBiasedExp-specBias)) <= 0 {
						return fmt.Sprintf("Compose: interval analysis of the clamping loops gives %s in [%s, %s] at the call; biased it fits the 14-bit field", p.exprStr(ev), iv.lo, iv.hi), true
					}
				}
			}
		}
	case "Decimal.add":
		// compose(!o.Signbit(), oSig, oExp) in the zero-operand early return: handled as unmodified decompose exponent
	}
	return "", false
}

// ---------------------------------------------------------------------------
// G7: early-out thresholds are admissible.

type thrSpec struct {
	fn    string
	what  string
	props []string
	// extract returns the constant and the node, or ok=false
	extract func(p *Prog, fd *ast.FuncDecl) (int64, ast.Node, bool)
	// admissible reports whether the constant is sound, with the reason
	admissible func(k int64) (bool, string)
}

// findReturnGuard finds `if <var> <op> CONST { return ... }` where <var> is an
// identifier with the given name (the n-th such statement, 0-based).
func (p *Prog) findReturnGuard(fd *ast.FuncDecl, varName string, op token.Token, nth int) (int64, ast.Node, bool) {
	var res int64
	var node ast.Node
	cnt := 0
	found := false
	try := func(cond ast.Expr, at ast.Node) {
		for _, cj := range conjuncts(cond) {
			x, nop, k, ok := p.normCmp(cj)
			if !ok || !k.IsInt64() {
				continue
			}
			// allow int(x), int64(x)
			if cv, ok := x.(*ast.CallExpr); ok && len(cv.Args) == 1 {
				if tv, ok := p.Info.Types[cv.Fun]; ok && tv.IsType() {
					x = ast.Unparen(cv.Args[0])
				}
			}
			if p.exprName(x) != varName {
				continue
			}
			kv := k.Int64()
			switch {
			case op == token.LSS && nop == token.LEQ:
				kv++ // x <= k  is  x < k+1
			case op == token.GTR && nop == token.GTR:
			default:
				continue
			}
			if cnt == nth && !found {
				res, node, found = kv, at, true
			}
			cnt++
		}
	}
	ast.Inspect(fd.Body, func(n ast.Node) bool {
		if found {
			return false
		}
		switch x := n.(type) {
		case *ast.IfStmt:
			try(x.Cond, x)
		case *ast.SwitchStmt:
			if x.Tag == nil {
				for _, cc := range x.Body.List {
					cl := cc.(*ast.CaseClause)
					for _, e := range cl.List {
						try(e, cl)
					}
				}
			}
		}
		return true
	})
	return res, node, found
}

func ruleThresholds(c *Ctx) {
	p := c.P
	cmax := new(big.Float).SetPrec(300).SetInt(new(big.Int).Sub(new(big.Int).Lsh(big.NewInt(5), 111), big.NewInt(1)))
	f10 := func(e int) *big.Float {
		x := new(big.Float).SetPrec(300)
		if e >= 0 {
			return x.SetInt(pow10(e))
		}
		return x.Quo(big.NewFloat(1).SetPrec(300), new(big.Float).SetPrec(300).SetInt(pow10(-e)))
	}
	mulf := func(a, b *big.Float) *big.Float { return new(big.Float).SetPrec(300).Mul(a, b) }
	// the library flushes to zero exactly when kept coefficient and guard digit are both zero, i.e.
	// value < 1e-6177; rounding to nearest gives zero below 5e-6177. An early zero must imply value < 1e-6177·(something safe): we use < 5e-6177
	// together with the property's "zero when the exact magnitude is below 1e-6177" for the directed modes pinned by the repository's vectors.
	half := mulf(big.NewFloat(5).SetPrec(300), f10(-6177))
	maxFinite := mulf(cmax, f10(6111))
	guard := func(fn, v string, op token.Token, nth int) func(p *Prog, fd *ast.FuncDecl) (int64, ast.Node, bool) {
		return func(p *Prog, fd *ast.FuncDecl) (int64, ast.Node, bool) { return p.findReturnGuard(fd, v, op, nth) }
	}
	two63 := new(big.Float).SetPrec(300).SetInt(new(big.Int).Lsh(big.NewInt(1), 63))
	two128 := new(big.Float).SetPrec(300).SetInt(new(big.Int).Lsh(big.NewInt(1), 128))
	specs := []thrSpec{
		{fn: "New", what: "zero early-out `exp < A`", props: []string{"C11"}, extract: guard("New", "exp", token.LSS, 0),
			admissible: func(a int64) (bool, string) {
				// all cut-off values |sig|·10^exp with |sig| <= 2^63, exp <= A-1 must round to zero; int16(exp+bias) must not wrap for exp >= A
				ok1 := mulf(two63, f10(int(a-1))).Cmp(half) < 0
				ok2 := a+specBias >= -32768
				return ok1 && ok2, fmt.Sprintf("2^63·10^(A-1) < 5e-6177 requires A <= %d; A + bias >= -32768", -6195)
			}},
		{fn: "New", what: "overflow early-out `exp > B`", props: []string{"C11"}, extract: guard("New", "exp", token.GTR, 0),
			admissible: func(b int64) (bool, string) {
				ok1 := f10(int(b+1)).Cmp(maxFinite) > 0 // smallest cut-off value 1·10^(B+1)
				ok2 := b+specBias <= 32767
				return ok1 && ok2, "10^(B+1) must exceed the largest finite Decimal (B >= 6145) and B + bias <= 32767"
			}},
		{fn: "Ldexp", what: "zero early-out `exp < A`", props: []string{"C11"}, extract: guard("Ldexp", "exp", token.LSS, 0),
			admissible: func(a int64) (bool, string) {
				// frac's own exponent can be as large as 6111 and its coefficient as large as cmax
				ok1 := mulf(cmax, f10(6111+int(a-1))).Cmp(half) < 0
				ok2 := a >= -32768
				return ok1 && ok2, "cmax·10^(6111+A-1) < 5e-6177 requires A <= -12321 (frac's own exponent counts)"
			}},
		{fn: "Ldexp", what: "overflow early-out `exp > B`", props: []string{"C11"}, extract: guard("Ldexp", "exp", token.GTR, 0),
			admissible: func(b int64) (bool, string) {
				ok1 := f10(-6176+int(b+1)).Cmp(maxFinite) > 0
				ok2 := specMaxBiasedExp+b <= 32767
				return ok1 && ok2, "10^(-6176+B+1) must exceed the largest finite Decimal (B >= 12321); fexp + B must fit int16 (B <= 20480)"
			}},
		{fn: "parseNumber", what: "overflow early-out `exp > B`", props: []string{"C05", "C13"}, extract: guard("parseNumber", "exp", token.GTR, 1),
			admissible: func(b int64) (bool, string) {
				ok1 := f10(int(b+1)).Cmp(maxFinite) > 0
				return ok1 && b+specBias <= 32767, "coefficient >= 1: 10^(B+1) must exceed the largest finite Decimal (B >= 6145)"
			}},
		{fn: "parseNumber", what: "zero early-out `exp < A`", props: []string{"C05", "C13"}, extract: guard("parseNumber", "exp", token.LSS, 0),
			admissible: func(a int64) (bool, string) {
				ok1 := mulf(two128, f10(int(a-1))).Cmp(half) < 0
				return ok1 && a+specBias >= -32768, "coefficient < 2^128: 2^128·10^(A-1) < 5e-6177 requires A <= -6214"
			}},
		{fn: "parseNumber", what: "exponent accumulator cap `exp > C`", props: []string{"C05", "C13"}, extract: guard("parseNumber", "exp", token.GTR, 0),
			admissible: func(cc int64) (bool, string) {
				// above the cap the literal is declared out of range whatever the digit count: the cap must dwarf any input length,
				// and C·10+9 must not overflow int64 together with ±len
				t := new(big.Int).Mul(big.NewInt(cc), big.NewInt(10))
				t.Add(t, big.NewInt(9))
				ok1 := cc >= 1<<40
				ok2 := t.Cmp(new(big.Int).Lsh(big.NewInt(1), 62)) < 0
				return ok1 && ok2, "the cap must exceed any realisable digit count (>= 2^40) and keep exp·10+9 ± nfrac inside int64 (< 2^62)"
			}},
		{fn: "Decimal.Float64", what: "zero early-out `exp < A`", props: []string{"C09", "C19"}, extract: guard("Decimal.Float64", "exp", token.LSS, 0),
			admissible: func(a int64) (bool, string) {
				// cmax·10^(A-1) must be below half of the smallest subnormal 2^-1075
				h := new(big.Float).SetPrec(300).SetMantExp(big.NewFloat(1), -1075)
				return mulf(cmax, f10(int(a-1))).Cmp(h) < 0, "cmax·10^(A-1) < 2^-1075"
			}},
		{fn: "Decimal.Float64", what: "overflow early-out `exp > B`", props: []string{"C09", "C19"}, extract: guard("Decimal.Float64", "exp", token.GTR, 0),
			admissible: func(b int64) (bool, string) {
				h := new(big.Float).SetPrec(300).SetMantExp(big.NewFloat(1), 1024)
				return f10(int(b+1)).Cmp(h) >= 0, "10^(B+1) >= 2^1024"
			}},
		{fn: "Log1p", what: "|x| >= 1 is tested only when `dExp > T`", props: []string{"C16", "C15"},
			extract: func(p *Prog, fd *ast.FuncDecl) (int64, ast.Node, bool) {
				// the if statement that guards the comparison of the coefficient with a power-of-ten table entry
				var k int64
				var node ast.Node
				found := false
				ast.Inspect(fd.Body, func(n ast.Node) bool {
					ifs, isIf := n.(*ast.IfStmt)
					if !isIf || found {
						return true
					}
					x, op, kb, ok := p.normCmp(ifs.Cond)
					if !ok || op != token.GTR || !kb.IsInt64() {
						return true
					}
					if b, isB := p.Info.TypeOf(x).Underlying().(*types.Basic); !isB || b.Info()&types.IsInteger == 0 || b.Info()&types.IsUnsigned != 0 {
						return true
					}
					hasTab := false
					ast.Inspect(ifs.Body, func(m ast.Node) bool {
						if ix, isIx := m.(*ast.IndexExpr); isIx {
							if o := p.objOf(ix.X); o != nil && p.constTableOf(o) != nil {
								hasTab = true
							}
						}
						return true
					})
					if hasTab {
						k, node, found = kb.Int64(), ifs, true
					}
					return true
				})
				return k, node, found
			},
			admissible: func(t int64) (bool, string) {
				// skipped for dExp <= T: every coefficient (below 2^114) times 10^T must stay below 1
				two114 := new(big.Float).SetPrec(300).SetInt(new(big.Int).Lsh(big.NewInt(1), 114))
				return mulf(two114, f10(int(t))).Cmp(big.NewFloat(1)) < 0, "2^114·10^T < 1, i.e. T <= -35: for smaller exponents no coefficient reaches magnitude 1"
			}},
		{fn: "Decimal.PowWithMode", what: "power-of-ten shortcut exit `oSig[0] > C`", props: []string{"C18"},
			extract: func(p *Prog, fd *ast.FuncDecl) (int64, ast.Node, bool) {
				var k int64
				var node ast.Node
				ok := false
				ast.Inspect(fd.Body, func(n ast.Node) bool {
					ifs, isIf := n.(*ast.IfStmt)
					if !isIf || ok {
						return !ok
					}
					// a disjunction containing `oSig[1] != 0` and `oSig[0] > C` (further exits may be or-ed in)
					var disj []ast.Expr
					var flat func(e ast.Expr)
					flat = func(e ast.Expr) {
						if be, isB := ast.Unparen(e).(*ast.BinaryExpr); isB && be.Op == token.LOR {
							flat(be.X)
							flat(be.Y)
							return
						}
						disj = append(disj, ast.Unparen(e))
					}
					flat(ifs.Cond)
					if len(disj) < 2 {
						return true
					}
					hiTest := false
					var loK int64
					loTest := false
					for _, dj := range disj {
						x, op, kv, isCmp := p.normCmp(dj)
						if !isCmp || !kv.IsInt64() {
							continue
						}
						switch {
						case p.exprStr(x) == "oSig[1]" && ((op == token.NEQ && kv.Int64() == 0) || (op == token.GTR && kv.Int64() == 0)):
							hiTest = true
						case p.exprStr(x) == "oSig[0]" && op == token.GTR:
							loTest, loK = true, kv.Int64()
						}
					}
					if hiTest && loTest {
						k, node, ok = loK, ifs, true
					}
					return true
				})
				return k, node, ok
			},
			admissible: func(cc int64) (bool, string) {
				// base 10^k, |k| >= 1, integer y >= C+1: the result is 10^(k·y); zero side needs y >= 6177+1, overflow side y >= 6146;
				// the 64-bit exponent arithmetic |k|·10^7·y must not overflow
				ok1 := cc+1 >= 6178
				t := new(big.Int).Mul(big.NewInt(6176*10_000_000), big.NewInt(cc))
				ok2 := t.Cmp(new(big.Int).Lsh(big.NewInt(1), 62)) < 0
				return ok1 && ok2, "the guard must be `oSig[1] != 0 || oSig[0] > C` with C >= 6177 (10^-6177 still rounds) and 6176·10^7·C < 2^62"
			}},
		{fn: "Decimal.PowWithMode", what: "shortcut underflow exit `exp64 < A`", props: []string{"C18"}, extract: guard("Decimal.PowWithMode", "exp64", token.LSS, 0),
			admissible: func(a int64) (bool, string) {
				// coefficient 1: value 10^(exp64-bias); zero only below 5e-6177, i.e. exp64 <= -2; int16(exp64) must not wrap
				return a <= -1 && a >= -32768, "coefficient 1: 10^(A-1-bias) < 5e-6177 requires A <= -1; A >= -32768"
			}},
		{fn: "Decimal.PowWithMode", what: "shortcut overflow exit `exp64 > B`", props: []string{"C18"}, extract: guard("Decimal.PowWithMode", "exp64", token.GTR, 0),
			admissible: func(b int64) (bool, string) {
				return b >= specMaxBiasedExp+specMaxDigits-1 && b <= 32767, "coefficient 1 can be scaled up 34 digits: B >= 12321; B <= 32767"
			}},
		{fn: "Exp2", what: "magnitude exit `dSigInt > C`", props: []string{"C16"}, extract: guard("Exp2", "dSigInt", token.GTR, 0),
			admissible: func(cc int64) (bool, string) {
				// 2^-(C+1) < 5e-6177  <=>  (C+1)·log10(2) > 6176.3
				lg := new(big.Float).SetPrec(300).Quo(bigLn(2, 1), bigLn(10, 1))
				v := new(big.Float).SetPrec(300).Mul(lg, new(big.Float).SetInt64(cc+1))
				return v.Cmp(big.NewFloat(6176.31)) > 0 && cc < 1<<20, "2^-(C+1) must be below 5e-6177: C+1 >= 20518 (the argument is a binary exponent)"
			}},
		{fn: "Exp10", what: "magnitude exit `dSigInt > C`", props: []string{"C16"}, extract: guard("Exp10", "dSigInt", token.GTR, 0),
			admissible: func(cc int64) (bool, string) {
				return cc+1 >= 6178 && cc <= 32767-58, "10^-(C+1) must be below 5e-6177 (C >= 6177) for negative arguments; int16(dSigInt) must fit"
			}},
		{fn: "Exp10", what: "final exit `res.exp > C`", props: []string{"C16"},
			extract: func(p *Prog, fd *ast.FuncDecl) (int64, ast.Node, bool) {
				// the last `res.exp > C` before rcp
				var k int64
				var node ast.Node
				ok := false
				ast.Inspect(fd.Body, func(n ast.Node) bool {
					if ifs, isIf := n.(*ast.IfStmt); isIf {
						if be, isB := ast.Unparen(ifs.Cond).(*ast.BinaryExpr); isB && be.Op == token.GTR && p.exprStr(be.X) == "res.exp" {
							if v, isC := p.constInt64(be.Y); isC {
								k, node, ok = v, ifs, true // keep the last one
							}
						}
					}
					return true
				})
				return k, node, ok
			},
			admissible: func(cc int64) (bool, string) {
				return cc >= 6177, "for negative arguments res = 10^|x| with exponent up to 6176 must still reach the reciprocal (C >= 6177)"
			}},
		{fn: "decomposed192.powexp10", what: "squaring guard `2·d.exp > C`", props: []string{"C16", "C18"},
			extract: func(p *Prog, fd *ast.FuncDecl) (int64, ast.Node, bool) {
				var k int64
				var node ast.Node
				ok := false
				ast.Inspect(fd.Body, func(n ast.Node) bool {
					if ifs, isIf := n.(*ast.IfStmt); isIf && !ok {
						if be, isB := ast.Unparen(ifs.Cond).(*ast.BinaryExpr); isB && be.Op == token.GTR {
							if m, isM := ast.Unparen(be.X).(*ast.BinaryExpr); isM && m.Op == token.MUL && strings.Contains(p.exprStr(m.X), "d.exp") {
								if two, is2 := p.constInt64(m.Y); is2 && two == 2 {
									if v, isC := p.constInt64(be.Y); isC {
										k, node, ok = v, ifs, true
									}
								}
							}
						}
					}
					return true
				})
				return k, node, ok
			},
			admissible: func(cc int64) (bool, string) {
				// d.mul(d): exponent 2·d.exp plus the digits dropped from a 384-bit product to 192 bits (at most 116-57 = 59)
				return cc+59 <= 32767, "2·d.exp + 59 dropped digits must fit int16: C <= 32708"
			}},
	}
	// early-outs of the 192-bit working arithmetic: an operand is dropped (kept as sticky only) when it lies
	// below one unit of the other operand's 192-bit coefficient; the working precision of 57 digits is what
	// Sqrt/Cbrt's 1e-20 ulp margin and the Pow/Log error allowances rest on
	two192 := new(big.Float).SetPrec(300).SetInt(new(big.Int).Lsh(big.NewInt(1), 192))
	expIf := func(op token.Token, nth int) func(p *Prog, fd *ast.FuncDecl) (int64, ast.Node, bool) {
		return func(p *Prog, fd *ast.FuncDecl) (int64, ast.Node, bool) {
			cnt := 0
			var k int64
			var node ast.Node
			found := false
			ast.Inspect(fd.Body, func(n ast.Node) bool {
				ifs, isIf := n.(*ast.IfStmt)
				if !isIf || found {
					return true
				}
				x, o, kb, ok := p.normCmp(ifs.Cond)
				if !ok || o != op || !kb.IsInt64() || kb.Sign() == 0 || (op == token.LEQ && kb.Int64() == -1) {
					return true
				}
				b, isB := p.Info.TypeOf(x).Underlying().(*types.Basic)
				if !isB || b.Kind() != types.Int16 {
					return true
				}
				if cnt == nth {
					k, node, found = kb.Int64(), ifs, true
				}
				cnt++
				return true
			})
			return k, node, found
		}
	}
	dropBelow := func(k int64) (bool, string) {
		// x <= k drops the smaller operand: 2^192·10^k < 1
		return mulf(two192, f10(int(k))).Cmp(big.NewFloat(1)) < 0, "a dropped operand must lie below one unit of the other's coefficient: 2^192·10^k < 1, i.e. a gap of more than 57 digits"
	}
	dropAbove := func(k int64) (bool, string) {
		return f10(int(k + 1)).Cmp(two192) >= 0, "a dropped operand must lie below one unit of the other's coefficient: 10^(k+1) >= 2^192, i.e. a gap of more than 57 digits"
	}
	for _, fn := range []string{"decomposed192.add", "decomposed192.sub"} {
		specs = append(specs,
			thrSpec{fn: fn, what: "receiver dropped when `exp < -T`", props: []string{"C16", "C17", "C18"}, extract: expIf(token.LEQ, 0), admissible: dropBelow},
			thrSpec{fn: fn, what: "argument dropped when `exp > T`", props: []string{"C16", "C17", "C18"}, extract: expIf(token.GTR, 0), admissible: dropAbove})
	}
	for _, fn := range []string{"decomposed192.add1", "decomposed192.sub1", "decomposed192.add1neg"} {
		specs = append(specs,
			thrSpec{fn: fn, what: "d dropped against 1 when `d.exp < -K`", props: []string{"C16", "C18"}, extract: expIf(token.LEQ, 0),
				admissible: func(k int64) (bool, string) {
					// d < 2^192·10^k must lie below one unit of 1.000…0 held with 57 digits after the point
					return mulf(two192, f10(int(k))).Cmp(f10(-57)) < 0, "2^192·10^k < 10^-57: d is below one unit of a 58-digit 1.00…0"
				}},
			thrSpec{fn: fn, what: "1 dropped against d when `d.exp > B`", props: []string{"C16", "C18"}, extract: expIf(token.GTR, 0), admissible: dropAbove})
	}
	for _, fn := range []string{"decomposed192.quo", "decomposed192.rcp"} {
		specs = append(specs, thrSpec{fn: fn, what: "divisor pre-scaling loop `sig[2] >= C`", props: []string{"C16", "C17", "C18"},
			extract: func(p *Prog, fd *ast.FuncDecl) (int64, ast.Node, bool) {
				var k int64
				var node ast.Node
				found := false
				ast.Inspect(fd.Body, func(n ast.Node) bool {
					f, isFor := n.(*ast.ForStmt)
					if !isFor || found || f.Cond == nil {
						return true
					}
					_, op, kb, ok := p.normCmp(f.Cond)
					if !ok || op != token.GTR || !kb.IsInt64() {
						return true
					}
					divides := false
					ast.Inspect(f.Body, func(m ast.Node) bool {
						if call, isCall := m.(*ast.CallExpr); isCall && strings.HasSuffix(p.calleeName(call), ".div10") {
							divides = true
						}
						return true
					})
					if divides {
						k, node, found = kb.Int64()+1, f, true // sig[2] > k  ==  sig[2] >= k+1
					}
					return true
				})
				return k, node, found
			},
			admissible: func(cc int64) (bool, string) {
				// the loop drops divisor digits while sig >= C·2^128; what is left has at least log10(C·2^128)-1 digits.
				// Sqrt/Cbrt's 1e-20 ulp margin on a 34-digit result needs 55 digits of the divisor.
				kept := mulf(new(big.Float).SetPrec(300).SetInt64(cc), new(big.Float).SetPrec(300).SetInt(new(big.Int).Lsh(big.NewInt(1), 128)))
				return kept.Cmp(f10(56)) >= 0, "the divisor keeps at least 55 digits: C·2^128 >= 10^56"
			}})
	}
	specs = append(specs, thrSpec{fn: "decomposed192.powexp10", what: "overflow exit before the last product `d.exp + r.exp > C`", props: []string{"C18", "C16"},
		extract: func(p *Prog, fd *ast.FuncDecl) (int64, ast.Node, bool) {
			var k int64
			var node ast.Node
			ok := false
			ast.Inspect(fd.Body, func(n ast.Node) bool {
				if ifs, isIf := n.(*ast.IfStmt); isIf && !ok {
					if be, isB := ast.Unparen(ifs.Cond).(*ast.BinaryExpr); isB && be.Op == token.GTR {
						if m, isM := ast.Unparen(be.X).(*ast.BinaryExpr); isM && m.Op == token.ADD && strings.Contains(p.exprStr(m.X), ".exp") && strings.Contains(p.exprStr(m.Y), ".exp") {
							if v, isC := p.constInt64(be.Y); isC {
								k, node, ok = v, ifs, true
							}
						}
					}
				}
				return true
			})
			return k, node, ok
		},
		admissible: func(cc int64) (bool, string) {
			return cc+59 <= 32767, "d.exp + r.exp + 59 digits moved into the exponent by mul must fit int16: C <= 32708"
		}})
	for _, s := range specs {
		fd := c.fn(s.fn)
		if fd == nil {
			continue
		}
		key := "thr:" + s.fn + ":" + s.what
		k, node, ok := s.extract(p, fd)
		if !ok {
			c.undecided(key, fd, s.fn+": "+s.what+" not found in the expected form", s.props...)
			continue
		}
		good, why := s.admissible(k)
		c.check(good, key, node, fmt.Sprintf("constant %d is admissible (%s)", k, why),
			fmt.Sprintf("%s: %s uses the constant %d, which is not admissible: %s. Inputs beyond the threshold still have a representable (or differently rounded) result", s.fn, s.what, k, why), s.props...)
	}
	// post-epow exits of Exp/Exp2/Exp10/Expm1/Pow: res.exp > maxUnbiased+58 (assumes the 192-bit
	// significand returned by epow carries at least 8 digits, which mul/quo normalisation provides)
	for _, fn := range []string{"Exp", "Exp2", "Expm1", "Decimal.PowWithMode", "decomposed192.epowm1"} {
		fd := c.fn(fn)
		if fd == nil {
			continue
		}
		n := 0
		ast.Inspect(fd.Body, func(nd ast.Node) bool {
			ifs, ok := nd.(*ast.IfStmt)
			if !ok {
				return true
			}
			be, ok := ast.Unparen(ifs.Cond).(*ast.BinaryExpr)
			if !ok || be.Op != token.GTR || p.exprStr(be.X) != "res.exp" {
				return true
			}
			k, ok := p.constInt64(be.Y)
			if !ok {
				return true
			}
			n++
			min := int64(6111 + 58)
			if fn == "Exp2" && n == 2 {
				min = 6111 + 35 // after the 2^int factor: compared against the result exponent directly
			}
			c.check(k >= min, fmt.Sprintf("thr:%s:res.exp#%d", fn, n), ifs, fmt.Sprintf("range exit at res.exp > %d", k),
				fmt.Sprintf("%s: the range exit `res.exp > %d` cuts off results that are still representable after the reciprocal (needs >= %d)", fn, k, min), funcProps(fn)...)
			return true
		})
		if n == 0 {
			c.undecided("thr:"+fn+":res.exp", fd, "range exit on res.exp not found", funcProps(fn)...)
		}
	}
}
