package main

import (
	"encoding/json"
	"fmt"
	"os"
	"os/exec"
	"path/filepath"
	"regexp"
	"sort"
	"strings"
	"sync"
)

// thoroughExtras runs the additional analyses of the thorough tier:
//
//	(a) the same rules on the package type-checked for GOARCH=386 (uint and
//	    bits.UintSize are 32 bits there); verdicts must agree,
//	(b) checker sensitivity: every seeded variant of this property kept under
//	    /verif/seeded that is expected to be caught must be reported on a
//	    scratch copy (analysed in a separate process, removed immediately),
//	(c) for C20, the compiler's bounds-check-elimination report as a
//	    cross-reference.
//
// A failed self-test is recorded as an undecided obligation: a checker that
// lost its sensitivity must not report success.
func thoroughExtras(c *Ctx, prop, repo, verif string, seed int64, cov map[string]interface{}, notes *[]string) {
	saveRule := c.rule
	defer func() { c.rule = saveRule }()
	c.rule = &Rule{ID: "T.thorough", Props: []string{prop}}

	// (a) GOARCH=386
	p386, err := load(repo, "386")
	if err != nil {
		c.undecided("arch386.load", nil, "the package does not load for GOARCH=386: "+err.Error(), prop)
	} else {
		c2 := runRules(p386, prop, "quick")
		v64 := map[string]string{}
		for _, o := range c.Obls {
			if hasProp(o.Props, prop) {
				v64[o.Key] = o.Verdict
			}
		}
		diff := 0
		var diffs []string
		n386 := 0
		for _, o := range c2.Obls {
			if !hasProp(o.Props, prop) {
				continue
			}
			n386++
			if v, ok := v64[o.Key]; !ok || v != o.Verdict {
				diff++
				if len(diffs) < 5 {
					diffs = append(diffs, fmt.Sprintf("%s: amd64=%q 386=%q (%s)", o.Key, v, o.Verdict, o.Detail))
				}
			}
		}
		if diff == 0 && n386 == len(v64) {
			c.ok("arch386", nil, fmt.Sprintf("%d obligations re-decided with GOARCH=386 type information: identical verdicts", n386), prop)
		} else {
			c.bad("arch386", nil, fmt.Sprintf("analysis under GOARCH=386 differs in %d obligations (amd64 has %d, 386 has %d): %s", diff, len(v64), n386, strings.Join(diffs, " | ")), prop)
		}
		cov["arch386_obligations"] = n386
	}

	// (b) seeded variants
	type expect struct {
		Detected   []string          `json:"detected"`
		NotDecided map[string]string `json:"not_decided"`
	}
	var ex expect
	if b, err := os.ReadFile(filepath.Join(verif, "seeded", "EXPECT.json")); err == nil {
		json.Unmarshal(b, &ex)
	}
	exe, _ := os.Executable()
	dirs, _ := filepath.Glob(filepath.Join(verif, "seeded", prop+"-*"))
	sort.Strings(dirs)
	var caught, missed, skipped []string
	var mu sync.Mutex
	var wg sync.WaitGroup
	sem := make(chan struct{}, 6)
	for _, d := range dirs {
		d := d
		id := filepath.Base(d)
		tmp, err := os.MkdirTemp("", "dverif-seed-")
		if err != nil {
			skipped = append(skipped, id+" (no scratch dir)")
			continue
		}
		wg.Add(1)
		sem <- struct{}{}
		go func() {
			defer wg.Done()
			defer func() { <-sem }()
			defer os.RemoveAll(tmp)
			files, _ := filepath.Glob(filepath.Join(repo, "*.go"))
			for _, f := range append(files, filepath.Join(repo, "go.mod")) {
				if b, err := os.ReadFile(f); err == nil {
					os.WriteFile(filepath.Join(tmp, filepath.Base(f)), b, 0o644)
				}
			}
			patch := exec.Command("patch", "-p1", "-s", "-i", filepath.Join(d, "patch.diff"))
			patch.Dir = tmp
			if out, err := patch.CombinedOutput(); err != nil {
				mu.Lock()
				skipped = append(skipped, id+" (patch no longer applies: "+strings.TrimSpace(string(out))+")")
				mu.Unlock()
				return
			}
			cmd := exec.Command(exe, "check", "-prop", prop, "-tier", "quick", "-repo", tmp, "-verif", verif, "-noevidence")
			out, _ := cmd.CombinedOutput()
			mu.Lock()
			if strings.Contains(string(out), "VIOLATION property="+prop) {
				caught = append(caught, id)
			} else {
				missed = append(missed, id)
			}
			mu.Unlock()
		}()
	}
	wg.Wait()
	sort.Strings(caught)
	sort.Strings(missed)
	sort.Strings(skipped)
	expected := map[string]bool{}
	for _, id := range ex.Detected {
		expected[id] = true
	}
	var regress []string
	for _, id := range missed {
		if expected[id] {
			regress = append(regress, id)
		}
	}
	cov["seeded_variants_caught"] = caught
	cov["seeded_variants_missed"] = missed
	cov["seeded_variants_skipped"] = skipped
	if len(regress) > 0 {
		c.undecided("selftest.sensitivity", nil, "checker self-test failed: seeded variants that this check is expected to report were not reported: "+strings.Join(regress, ", "), prop)
	} else if len(dirs) > 0 {
		c.ok("selftest.sensitivity", nil, fmt.Sprintf("%d seeded variants of %s analysed on scratch copies: %d reported, %d not reported (listed as not decided), %d skipped", len(dirs), prop, len(caught), len(missed), len(skipped)), prop)
	}
	for _, id := range missed {
		why := ex.NotDecided[id]
		if why == "" {
			why = "no sound structural rule"
		}
		*notes = append(*notes, "seeded variant "+id+" is not reported: "+why)
	}

	// (c) compiler BCE cross-reference (C20 only)
	if prop == "C20" {
		cmd := exec.Command("go", "build", "-a", "-gcflags=-d=ssa/check_bce/debug=1", ".")
		cmd.Dir = repo
		cmd.Env = append(os.Environ(), "GOFLAGS=-mod=mod", "GOPROXY=off", "GOSUMDB=off", "GOTOOLCHAIN=local", "GOWORK=off")
		out, _ := cmd.CombinedOutput()
		re := regexp.MustCompile(`(?m)^\./([a-z_0-9]+\.go):(\d+):\d+: Found (IsInBounds|IsSliceInBounds)`)
		per := map[string]int{}
		total := 0
		for _, m := range re.FindAllStringSubmatch(string(out), -1) {
			per[m[1]]++
			total++
		}
		cov["compiler_unproven_bounds_checks"] = map[string]interface{}{"total": total, "by_file": per}
		*notes = append(*notes, fmt.Sprintf("cross-reference: the Go compiler's bounds-check elimination leaves %d index/slice checks unproven (by file: %v); table accesses among them are decided by E11.index, the rest rest on data invariants that are NOT decided", total, per))
	}
}
