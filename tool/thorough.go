package main

// thoroughExtras runs the additional analyses of the thorough tier.
func thoroughExtras(c *Ctx, prop, repo, verif string, seed int64, cov map[string]interface{}, notes *[]string) {
}
