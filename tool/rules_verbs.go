package main

import (
	"fmt"
	"go/ast"
	"go/token"
	"go/types"
	"math/big"
	"strconv"
	"strings"
)

// The composition of the formatting pipeline - which digit the precision selects for rounding, which layout
// %g picks, how many fraction digits each emitter is asked for, how '#' restores trailing zeros - decided by
// interpreting Append and Decimal.format on concrete digit buffers (the digit extraction itself is replaced by
// the buffer; digits.round, fmtE and fmtF are followed) and comparing the text with a reference written from
// the rules of strconv.FormatFloat and fmt's float formatting, applied to the exact decimal value.

// refRound rounds the digit string D·10^e half-to-even to keep the first `keep` digits (keep may be <= 0) and
// strips trailing zeros; the empty string denotes zero (exponent 0).
func refRound(D string, e, keep int) (string, int) {
	if D == "" {
		return "", 0
	}
	if keep >= len(D) {
		return D, e
	}
	drop := len(D)
	if keep > 0 {
		drop = len(D) - keep
	}
	if keep < 0 {
		return "", 0
	}
	v, _ := new(big.Int).SetString(D, 10)
	pw := new(big.Int).Exp(big.NewInt(10), big.NewInt(int64(drop)), nil)
	q, r := new(big.Int).QuoRem(v, pw, new(big.Int))
	half := new(big.Int).Quo(pw, big.NewInt(2))
	switch r.Cmp(half) {
	case 1:
		q.Add(q, big.NewInt(1))
	case 0:
		if q.Bit(0) == 1 {
			q.Add(q, big.NewInt(1))
		}
	}
	if q.Sign() == 0 {
		return "", 0
	}
	s := q.String()
	e += drop
	for strings.HasSuffix(s, "0") {
		s = strings.TrimSuffix(s, "0")
		e++
	}
	return s, e
}

// refE and refF are strconv's %e and %f layouts of the digits D with the decimal point after dp digits.
func refE(D string, dp, prec int, ech byte) string {
	var b strings.Builder
	if D == "" {
		b.WriteByte('0')
	} else {
		b.WriteByte(D[0])
	}
	if prec > 0 {
		b.WriteByte('.')
		i := 1
		for ; i < len(D) && i <= prec; i++ {
			b.WriteByte(D[i])
		}
		for ; i <= prec; i++ {
			b.WriteByte('0')
		}
	}
	b.WriteByte(ech)
	x := dp - 1
	if D == "" {
		x = 0
	}
	if x < 0 {
		b.WriteByte('-')
		x = -x
	} else {
		b.WriteByte('+')
	}
	if x < 10 {
		b.WriteByte('0')
	}
	b.WriteString(strconv.Itoa(x))
	return b.String()
}

func refF(D string, dp, prec int) string {
	var b strings.Builder
	if dp > 0 {
		m := min(len(D), dp)
		b.WriteString(D[:m])
		for ; m < dp; m++ {
			b.WriteByte('0')
		}
	} else {
		b.WriteByte('0')
	}
	if prec > 0 {
		b.WriteByte('.')
		for i := 0; i < prec; i++ {
			ch := byte('0')
			if j := dp + i; 0 <= j && j < len(D) {
				ch = D[j]
			}
			b.WriteByte(ch)
		}
	}
	return b.String()
}

// refStrconv is strconv.FormatFloat(value, verb, prec) for the exact decimal value D·10^e (prec < 0: shortest,
// which for an exact decimal is D itself).
func refStrconv(D string, e int, verb byte, prec int) string {
	shortest := prec < 0
	nd, dp := len(D), len(D)+e
	if D == "" {
		nd, dp = 0, 0
	}
	if shortest {
		switch verb {
		case 'e', 'E':
			prec = nd - 1
		case 'f':
			prec = max(nd-dp, 0)
		case 'g', 'G':
			prec = nd
		}
	} else {
		keep := 0
		switch verb {
		case 'e', 'E':
			keep = prec + 1
		case 'f':
			keep = dp + prec
		case 'g', 'G':
			if prec == 0 {
				prec = 1
			}
			keep = prec
		}
		if D != "" && keep < nd {
			if keep < 0 {
				D, e = "", 0
			} else {
				D, e = refRound(D, e, keep)
			}
			nd, dp = len(D), len(D)+e
			if D == "" {
				nd, dp = 0, 0
			}
		}
	}
	switch verb {
	case 'e', 'E':
		return refE(D, dp, prec, verb)
	case 'f':
		return refF(D, dp, prec)
	}
	// g
	eprec := prec
	if eprec > nd && nd >= dp {
		eprec = nd
	}
	if shortest {
		eprec = 6
	}
	x := dp - 1
	if x < -4 || x >= eprec {
		if prec > nd {
			prec = nd
		}
		return refE(D, dp, prec-1, verb+'e'-'g')
	}
	if prec > dp {
		prec = nd
	}
	return refF(D, dp, max(nd-dp, 0))
}

// refFmt is fmt's rendering (width 0) of a float holding the exact value ±D·10^e under verb e/E/f/F/g/G with
// an optional precision (prec < 0: none) and the flags '#', '+', ' '.
func refFmt(neg bool, D string, e int, verb byte, prec int, sharp, plus, space bool) string {
	sv := verb
	if sv == 'F' {
		sv = 'f'
	}
	if prec < 0 {
		switch sv {
		case 'e', 'E', 'f':
			prec = 6
		}
	}
	num := []byte(refStrconv(D, e, sv, prec))
	if sharp {
		digits := 0
		switch verb {
		case 'g', 'G':
			digits = prec
			if digits == -1 {
				digits = 6
			}
		}
		var tail []byte
		hasPoint, sawNonzero := false, false
		for i := 0; i < len(num); i++ {
			switch num[i] {
			case '.':
				hasPoint = true
			case 'e', 'E':
				tail = append(tail, num[i:]...)
				num = num[:i]
			default:
				if num[i] != '0' {
					sawNonzero = true
				}
				if sawNonzero {
					digits--
				}
			}
		}
		if !hasPoint {
			if len(num) == 1 && num[0] == '0' {
				digits--
			}
			num = append(num, '.')
		}
		for ; digits > 0; digits-- {
			num = append(num, '0')
		}
		num = append(num, tail...)
	}
	sign := ""
	switch {
	case neg:
		sign = "-"
	case plus:
		sign = "+"
	case space:
		sign = " "
	}
	return sign + string(num)
}

// verbInterp prepares an interpreter in which d.digits(&digs) fills digs with the given buffer.
func verbInterp(p *Prog, neg bool, D string, e int) *interp {
	in := textInterp(p)
	in.intrinsics["Decimal.isSpecial"] = func(in *interp, st *state, call *ast.CallExpr, recv AV, args []AV) ([]AV, bool) {
		return []AV{avBool{false}}, true
	}
	in.intrinsics["Decimal.digits"] = func(in *interp, st *state, call *ast.CallExpr, recv AV, args []AV) ([]AV, bool) {
		if len(call.Args) != 1 {
			return nil, false
		}
		u, ok := ast.Unparen(call.Args[0]).(*ast.UnaryExpr)
		if !ok {
			return nil, false
		}
		o := p.objOf(u.X)
		if o == nil {
			return nil, false
		}
		st.vars[o] = avRef{"digs"}
		st.flds["ref:digs.neg"] = avBool{neg}
		st.flds["ref:digs.dig"] = avStr{D}
		st.flds["ref:digs.exp"] = avInt{int64(e)}
		st.flds["ref:digs.ndig"] = avInt{int64(len(D))}
		return []AV{&avTuple{}}, true
	}
	return in
}

func flowText(in *interp, flows []flow) string {
	if len(flows) != 1 || flows[0].kind != flowReturn || in.overflow {
		return "?"
	}
	if s, ok := flows[0].ret.(avStr); ok {
		return s.s
	}
	if tup, ok := flows[0].ret.(*avTuple); ok && len(tup.vs) == 1 {
		if s, ok := tup.vs[0].(avStr); ok {
			return s.s
		}
	}
	return "?"
}

type verbCase struct {
	D string
	e int
}

func verbCases(thorough bool) []verbCase {
	cs := []verbCase{
		{"", 0}, {"7", 0}, {"5", -1}, {"25", -2}, {"123456", -2}, {"1234567", -3}, {"9996", -2}, {"999", 0},
		{"1", 5}, {"1", 6}, {"1", -4}, {"1", -5}, {"123", -7}, {"1200003", -4}, {"55", -2},
		{"1", 21}, {"1", -6176}, {"12980742146337069071326240823050239", 6111},
	}
	if thorough {
		cs = append(cs, verbCase{"15", -1}, verbCase{"12", 5}, verbCase{"45", -2}, verbCase{"1", 20}, verbCase{"99999951", -2}, verbCase{"6", -1}, verbCase{"4", -1}, verbCase{"95", -1}, verbCase{"125", -3}, verbCase{"375", -3},
			verbCase{"1000001", -9}, verbCase{"9999999", 0}, verbCase{"123456789", 3}, verbCase{"5", -7}, verbCase{"1", 9})
	}
	return cs
}

func ruleVerbs(c *Ctx) {
	p := c.P
	props := []string{"C07", "C06"}
	thorough := c.Tier == "thorough"
	precs := []int{-1, 0, 1, 2, 5, 6, 7, 40}
	if thorough {
		precs = []int{-1, 0, 1, 2, 3, 4, 5, 6, 7, 8, 10, 21, 40}
	}
	// package function Append(buf, d, fmt, prec): no flags
	if fd := c.fn("Append"); fd != nil && fd.Body != nil {
		ps := paramObjs(p, fd)
		bad := ""
		n := 0
		if len(ps) != 4 {
			c.undecided("verbs.Append.shape", fd, "Append(buf, d, fmt, prec) expected", props...)
		} else {
			for _, cs := range verbCases(thorough) {
				for _, verb := range []byte{'e', 'E', 'f', 'g', 'G'} {
					for _, prec := range precs {
						if bad != "" {
							break
						}
						if verb == 'f' && (cs.e > 100 || cs.e < -100) {
							continue // thousands of positional zeros: the emitter loop is decided by E10.fmtf
						}
						neg := (len(cs.D)+prec)%2 == 0
						in := verbInterp(p, neg, cs.D, cs.e)
						st := newState()
						st.vars[ps[0]] = avStr{""}
						st.vars[ps[1]] = top
						st.vars[ps[2]] = avInt{int64(verb)}
						st.vars[ps[3]] = avInt{int64(prec)}
						in.curFn = append(in.curFn, fd)
						got := flowText(in, in.execBlock(fd.Body.List, st))
						n++
						// Append follows strconv.FormatFloat (no fmt defaults): -1 is the shortest exact form
						want := refStrconv(cs.D, cs.e, verb, prec)
						if neg {
							want = "-" + want
						}
						if got != want {
							bad = fmt.Sprintf("Append(%sdigits %q·10^%d, '%c', %d) gives %q, want %q", map[bool]string{true: "-", false: ""}[neg], cs.D, cs.e, verb, prec, clip(got), clip(want))
						}
					}
				}
			}
			c.check(bad == "", "verbs.Append", fd, fmt.Sprintf("Append rounds at the digit the precision selects and lays the number out as strconv does for the same exact value (%d evaluations against a reference)", n), bad, props...)
		}
	}
	// Decimal.format(buf, args): verbs with flags
	if fd := c.fn("Decimal.format"); fd != nil && fd.Body != nil {
		ps := paramObjs(p, fd)
		bad := ""
		n := 0
		if len(ps) != 2 {
			c.undecided("verbs.format.shape", fd, "format(buf, args) expected", props...)
			return
		}
		type fl struct{ sharp, plus, space bool }
		flagSets := []fl{{false, false, false}, {true, false, false}, {false, true, false}, {true, false, true}}
		for _, cs := range verbCases(thorough) {
			for _, verb := range []byte{'e', 'E', 'f', 'F', 'g', 'G'} {
				for _, prec := range precs {
					for fi, fs := range flagSets {
						if bad != "" {
							break
						}
						if !thorough && fi >= 2 && (verb == 'E' || verb == 'F' || verb == 'G') {
							continue
						}
						if (verb == 'f' || verb == 'F') && (cs.e > 100 || cs.e < -100) {
							continue
						}
						neg := (len(cs.D)+prec+fi)%3 == 0
						in := verbInterp(p, neg, cs.D, cs.e)
						st := newState()
						st.vars[ps[0]] = avStr{""}
						st.vars[ps[1]] = avRef{"args"}
						st.flds["ref:args.forceDP"] = avBool{fs.sharp}
						st.flds["ref:args.printSign"] = avBool{fs.plus}
						st.flds["ref:args.padSign"] = avBool{fs.space}
						st.flds["ref:args.padRight"] = avBool{false}
						st.flds["ref:args.padZero"] = avBool{false}
						st.flds["ref:args.verb"] = avInt{int64(verb)}
						st.flds["ref:args.prec"] = avInt{int64(prec)}
						st.flds["ref:args.wid"] = avInt{0}
						if rv := recvObj(p, fd); rv != nil {
							st.vars[rv] = top
						}
						in.curFn = append(in.curFn, fd)
						got := flowText(in, in.execBlock(fd.Body.List, st))
						n++
						want := refFmt(neg, cs.D, cs.e, verb, prec, fs.sharp, fs.plus, fs.space)
						if got != want {
							bad = fmt.Sprintf("%%%s%s%c of %sdigits %q·10^%d gives %q, want %q (what package fmt prints for a float64 holding that value)", flagStr(fs.sharp, fs.plus, fs.space), precStr(prec), verb, map[bool]string{true: "-", false: ""}[neg], cs.D, cs.e, clip(got), clip(want))
						}
					}
				}
			}
		}
		c.check(bad == "", "verbs.format", fd, fmt.Sprintf("Decimal.format rounds at the digit the precision selects, picks the %%g layout and restores '#' zeros as package fmt does for the same exact value (%d evaluations against a reference)", n), bad, props...)
	}
}

func flagStr(sharp, plus, space bool) string {
	s := ""
	if sharp {
		s += "#"
	}
	if plus {
		s += "+"
	}
	if space {
		s += " "
	}
	return s
}

func precStr(prec int) string {
	if prec < 0 {
		return ""
	}
	return "." + strconv.Itoa(prec)
}

func clip(s string) string {
	if len(s) > 80 {
		return s[:60] + "..." + s[len(s)-12:]
	}
	return s
}

// The named format constants mean what IEEE 754-2008 decimal128 (and the library's 35-digit extension) say:
// bias 6176, largest biased exponent 12287, smallest 0, and maxDigits = the number of decimal digits of the
// largest coefficient 5·2^111-1. Each is tagged with the properties of the functions that use it.
func ruleFormatConsts(c *Ctx) {
	p := c.P
	maxCoef := new(big.Int).Sub(new(big.Int).Mul(big.NewInt(5), new(big.Int).Lsh(big.NewInt(1), 111)), big.NewInt(1))
	want := map[string]int64{
		"exponentBias": 6176, "maxBiasedExponent": 12287, "minBiasedExponent": 0,
		"maxUnbiasedExponent": 6111, "minUnbiasedExponent": -6176, "maxDigits": int64(len(maxCoef.String())),
	}
	users := map[string]map[string]bool{}
	for name, fd := range p.Funcs {
		if fd.Body == nil {
			continue
		}
		ast.Inspect(fd.Body, func(n ast.Node) bool {
			if id, ok := n.(*ast.Ident); ok {
				if o := p.Info.Uses[id]; o != nil && o.Parent() == p.Pkg.Types.Scope() {
					if _, ok := want[o.Name()]; ok {
						if users[o.Name()] == nil {
							users[o.Name()] = map[string]bool{}
						}
						users[o.Name()][name] = true
					}
				}
			}
			return true
		})
	}
	names := []string{"exponentBias", "maxBiasedExponent", "minBiasedExponent", "maxUnbiasedExponent", "minUnbiasedExponent", "maxDigits"}
	for _, nm := range names {
		props := []string{}
		for fn := range users[nm] {
			for _, pr := range funcProps(fn) {
				if !hasProp(props, pr) {
					props = append(props, pr)
				}
			}
		}
		if len(props) == 0 {
			props = []string{"C12"}
		}
		sortStrings(props)
		got, ok := p.pkgConstInt(nm)
		if !ok {
			if len(users[nm]) == 0 {
				continue // a constant the library no longer has
			}
			c.undecided("const:"+nm, nil, nm+" is not an integer constant", props...)
			continue
		}
		c.check(got == want[nm], "const:"+nm, nil, fmt.Sprintf("%s = %d", nm, got), fmt.Sprintf("%s = %d, the format needs %d (bias 6176, biased exponents 0..12287, %d digits in the largest coefficient 5·2^111-1); used by %d functions", nm, got, want[nm], want["maxDigits"], len(users[nm])), props...)
	}
}

func sortStrings(s []string) {
	for i := 1; i < len(s); i++ {
		for j := i; j > 0 && s[j] < s[j-1]; j-- {
			s[j], s[j-1] = s[j-1], s[j]
		}
	}
}

// uintN.log10: the digit-count estimate `l2*K >> S` from the bit length, corrected downwards by one table
// comparison, is right for every value iff for every bit length L the estimate t satisfies
// 10^(t-1) <= 2^(L-1) (one correction suffices) and 2^L - 1 < 10^(t+1) (never too small), and t indexes the
// table. Checked for every L by constant evaluation of the extracted expression.
func ruleLog10Estimate(c *Ctx) {
	p := c.P
	for _, name := range p.sortedFuncNames() {
		fd := p.Funcs[name]
		if fd.Body == nil || fd.Recv == nil || !strings.HasSuffix(name, ".log10") {
			continue
		}
		limbs := limbsOf(p.Info.TypeOf(fd.Recv.List[0].Type))
		if limbs == 0 {
			continue
		}
		// est := <expr over one integer variable>, containing a right shift of a product
		var estVar, lenVar types.Object
		var estExpr ast.Expr
		ast.Inspect(fd.Body, func(n ast.Node) bool {
			as, ok := n.(*ast.AssignStmt)
			if !ok || len(as.Lhs) != 1 || len(as.Rhs) != 1 || estExpr != nil {
				return true
			}
			be, ok := ast.Unparen(as.Rhs[0]).(*ast.BinaryExpr)
			if !ok || be.Op != token.SHR {
				return true
			}
			var vars []types.Object
			ast.Inspect(be, func(m ast.Node) bool {
				if id, ok := m.(*ast.Ident); ok {
					if v, ok := p.Info.Uses[id].(*types.Var); ok {
						vars = append(vars, v)
					}
				}
				return true
			})
			if len(vars) == 1 {
				estVar, lenVar, estExpr = p.objOf(as.Lhs[0]), vars[0], be
			}
			return true
		})
		if estExpr == nil || estVar == nil {
			continue
		}
		// the table the estimate indexes
		var tab *constTable
		ast.Inspect(fd.Body, func(n ast.Node) bool {
			if ix, ok := n.(*ast.IndexExpr); ok && p.objOf(ix.Index) == estVar {
				if o := p.objOf(ix.X); o != nil {
					if t := p.constTableOf(o); t != nil {
						tab = t
					}
				}
			}
			return true
		})
		props := funcProps(name)
		key := "log10.estimate:" + name
		if tab == nil {
			c.undecided(key, fd, name+": the estimate is not compared with a power-of-ten table entry", props...)
			continue
		}
		var eval func(e ast.Expr, l int64) (*big.Int, bool)
		eval = func(e ast.Expr, l int64) (*big.Int, bool) {
			e = ast.Unparen(e)
			if v := p.constOf(e); v != nil {
				return constBig(v)
			}
			switch x := e.(type) {
			case *ast.Ident:
				if p.objOf(x) == lenVar {
					return big.NewInt(l), true
				}
			case *ast.BinaryExpr:
				a, ok1 := eval(x.X, l)
				b, ok2 := eval(x.Y, l)
				if !ok1 || !ok2 {
					return nil, false
				}
				switch x.Op {
				case token.MUL:
					return new(big.Int).Mul(a, b), true
				case token.ADD:
					return new(big.Int).Add(a, b), true
				case token.SUB:
					return new(big.Int).Sub(a, b), true
				case token.QUO:
					if b.Sign() == 0 {
						return nil, false
					}
					return new(big.Int).Quo(a, b), true
				case token.SHR:
					return new(big.Int).Rsh(a, uint(b.Uint64())), true
				}
			case *ast.CallExpr:
				if tv, ok := p.Info.Types[x.Fun]; ok && tv.IsType() && len(x.Args) == 1 {
					return eval(x.Args[0], l)
				}
			}
			return nil, false
		}
		bad := ""
		for l := int64(1); l <= int64(64*limbs) && bad == ""; l++ {
			tv, ok := eval(estExpr, l)
			if !ok || !tv.IsInt64() {
				bad = "the estimate expression could not be evaluated"
				break
			}
			t := tv.Int64()
			if t < 0 || int(t) >= len(tab.rows) {
				bad = fmt.Sprintf("bit length %d gives the estimate %d, outside the table of %d powers", l, t, len(tab.rows))
				break
			}
			lo := new(big.Int).Lsh(big.NewInt(1), uint(l-1))
			hi := new(big.Int).Sub(new(big.Int).Lsh(big.NewInt(1), uint(l)), big.NewInt(1))
			if t >= 1 && pow10(int(t-1)).Cmp(lo) > 0 {
				bad = fmt.Sprintf("bit length %d gives the estimate %d, but 2^%d has only %d digits: one downward correction is not enough", l, t, l-1, len(lo.String()))
			} else if pow10(int(t+1)).Cmp(hi) <= 0 {
				bad = fmt.Sprintf("bit length %d gives the estimate %d, but 2^%d-1 = %s is at least 10^%d: the result is one too small for the values from 10^%d up (the correction only goes down)", l, t, l, hi.String(), t+1, t+1)
			}
		}
		c.check(bad == "", key, fd, fmt.Sprintf("the digit estimate is within one (from above) of floor(log10) for every bit length 1..%d", 64*limbs), name+": "+bad, props...)
	}
}
