package main

import (
	"fmt"
	"go/ast"
	"go/token"
	"go/types"
	"math/big"
	"sort"
	"strings"
)

// E11 R-EFFECT: totality, purity, concurrency.

func ruleEffectPanics(c *Ctx) {
	p := c.P
	documented := map[string]string{
		"Decimal.Sign": "NaN", "Decimal.Payload": "not NaN", "Decimal.Int": "NaN or Inf", "Decimal.Rat": "NaN or Inf", "Decimal.Float": "NaN",
		"Decimal.Int32": "NaN", "Decimal.Int64": "NaN", "Decimal.Uint32": "NaN", "Decimal.Uint64": "NaN", "MustParse": "syntax error",
	}
	found := map[string]bool{}
	for _, name := range p.sortedFuncNames() {
		fd := p.Funcs[name]
		if fd.Body == nil {
			continue
		}
		ast.Inspect(fd.Body, func(n ast.Node) bool {
			if call, ok := n.(*ast.CallExpr); ok && p.calleeName(call) == "builtin.panic" {
				found[name] = true
			}
			return true
		})
	}
	var names []string
	for n := range found {
		names = append(names, n)
	}
	sort.Strings(names)
	for _, n := range names {
		cond, ok := documented[n]
		c.check(ok, "panic:"+n, p.Funcs[n], "documented panic ("+cond+"); the guarding condition is decided by E9.dispatch / E1.wrap",
			n+" contains a panic call but is not one of the documented panicking functions (Sign, Payload, Int, Rat, Float, Int32..Uint64, MustParse)", "C20")
	}
	for n := range documented {
		if !found[n] {
			c.bad("panic.missing:"+n, p.Funcs[n], n+" is documented to panic but contains no panic call", "C20")
		}
	}
}

func ruleEffectShared(c *Ctx) {
	p := c.P
	scope := p.Pkg.Types.Scope()
	isPkgVar := func(o types.Object) bool {
		v, ok := o.(*types.Var)
		return ok && v.Parent() == scope
	}
	rootObj := func(e ast.Expr) types.Object {
		for {
			e = ast.Unparen(e)
			switch x := e.(type) {
			case *ast.Ident:
				return p.objOf(x)
			case *ast.IndexExpr:
				e = x.X
			case *ast.SelectorExpr:
				if _, ok := p.Info.Selections[x]; ok {
					e = x.X
				} else {
					return p.objOf(x.Sel)
				}
			case *ast.StarExpr:
				e = x.X
			case *ast.SliceExpr:
				e = x.X
			default:
				return nil
			}
		}
	}
	nWrites := 0
	// unexported functions whose result aliases package-level storage: their call results are
	// tainted in the callers instead of being reported at the helper (fixpoint over the call graph)
	retTainted := map[string]bool{}
	for _, name := range p.sortedFuncNames() {
		fd := p.Funcs[name]
		if fd.Body == nil {
			continue
		}
		if fd.Recv == nil && fd.Name.Name == "init" {
			c.bad("shared.init", fd, "the package declares an init function; results must depend on arguments and DefaultRoundingMode only", "C20")
		}
		// 1. no store to package-level state
		ast.Inspect(fd.Body, func(n ast.Node) bool {
			switch x := n.(type) {
			case *ast.AssignStmt:
				for _, l := range x.Lhs {
					if o := rootObj(l); o != nil && isPkgVar(o) {
						nWrites++
						c.bad(fmt.Sprintf("shared.write:%s:%s", name, o.Name()), x, fmt.Sprintf("%s writes the package-level variable %s: shared state must never be modified (data race under concurrent use, results no longer a function of the arguments)", name, o.Name()), "C20")
					}
				}
			case *ast.IncDecStmt:
				if o := rootObj(x.X); o != nil && isPkgVar(o) {
					nWrites++
					c.bad(fmt.Sprintf("shared.write:%s:%s", name, o.Name()), x, name+" modifies the package-level variable "+o.Name(), "C20")
				}
			case *ast.GoStmt, *ast.SelectStmt, *ast.SendStmt:
				c.bad("shared.conc:"+name, n, name+" uses a concurrency primitive; the library must not start goroutines or communicate", "C20")
			case *ast.UnaryExpr:
				if x.Op == token.AND {
					if o := rootObj(x.X); o != nil && isPkgVar(o) {
						c.bad(fmt.Sprintf("shared.addr:%s:%s", name, o.Name()), x, name+" takes the address of the package-level variable "+o.Name(), "C20")
					}
				}
				if x.Op == token.ARROW {
					c.bad("shared.conc:"+name, n, name+" receives from a channel", "C20")
				}
			}
			return true
		})
	}
	// 2. package-level slices/arrays (and locals holding them) do not escape
	isRefType := func(t types.Type) bool {
		switch t.Underlying().(type) {
		case *types.Slice, *types.Pointer, *types.Map:
			return true
		}
		return false
	}
	analyse := func(name string, fd *ast.FuncDecl, report bool) bool {
		tainted := map[types.Object]bool{}
		shared := func(e ast.Expr) (string, bool) {
			e = ast.Unparen(e)
			tv, ok := p.Info.Types[e]
			if !ok || !isRefType(tv.Type) {
				return "", false
			}
			if call, ok := e.(*ast.CallExpr); ok {
				if cn := p.calleeName(call); retTainted[cn] {
					return "the result of " + cn, true
				}
				return "", false
			}
			o := rootObj(e)
			if o == nil {
				return "", false
			}
			return o.Name(), isPkgVar(o) || tainted[o]
		}
		for pass := 0; pass < 3; pass++ {
			ast.Inspect(fd.Body, func(n ast.Node) bool {
				as, ok := n.(*ast.AssignStmt)
				if !ok || len(as.Lhs) != len(as.Rhs) {
					return true
				}
				for i, r := range as.Rhs {
					if _, sh := shared(r); sh {
						if lo := p.objOf(as.Lhs[i]); lo != nil && !isPkgVar(lo) {
							tainted[lo] = true
						}
					}
				}
				return true
			})
		}
		returns := false
		exported := fd.Name.IsExported()
		walkStack(fd.Body, func(n ast.Node, stack []ast.Node) {
			switch x := n.(type) {
			case *ast.ReturnStmt:
				for _, r := range x.Results {
					if what, sh := shared(r); sh {
						returns = true
						if report && exported {
							c.bad(fmt.Sprintf("shared.escape:%s:%s", name, what), x, fmt.Sprintf("%s returns %s, which aliases package-level storage: a caller writing into the result would change what every later call (in any goroutine) returns", name, what), "C20", "C06")
						}
					}
				}
			case *ast.CallExpr:
				if !report {
					return
				}
				cn := p.calleeName(x)
				for i, a := range x.Args {
					what, sh := shared(a)
					if !sh {
						continue
					}
					okUse := false
					switch {
					case cn == "builtin.append" && i >= 1 && x.Ellipsis != token.NoPos:
						okUse = true // contents are copied
					case cn == "builtin.len" || cn == "builtin.cap":
						okUse = true
					case strings.HasSuffix(cn, ".Write") && i == 0:
						okUse = true // io.Writer must not modify or retain the slice
					}
					if !okUse {
						c.bad(fmt.Sprintf("shared.pass:%s:%s", name, what), x, fmt.Sprintf("%s passes %s (package-level storage) to %s, which may retain or modify it", name, what, cn), "C20")
					}
				}
			}
		})
		return returns
	}
	for iter := 0; iter < 4; iter++ {
		for _, name := range p.sortedFuncNames() {
			fd := p.Funcs[name]
			if fd.Body == nil || fd.Name.IsExported() {
				continue
			}
			if analyse(name, fd, false) {
				retTainted[name] = true
			}
		}
	}
	for _, name := range p.sortedFuncNames() {
		if fd := p.Funcs[name]; fd.Body != nil {
			analyse(name, fd, true)
		}
	}
	c.check(nWrites == 0, "shared.nowrites", nil, fmt.Sprintf("no function writes package-level state (%d functions inspected); no goroutines, channels or init", p.NFuncs), "package-level state is written", "C20")
	// imports
	allowed := map[string]bool{"errors": true, "fmt": true, "io": true, "math": true, "math/big": true, "math/bits": true, "strconv": true, "encoding/json": true, "reflect": true, "unsafe": true}
	var imps []string
	for path := range p.Pkg.Imports {
		imps = append(imps, path)
	}
	sort.Strings(imps)
	for _, path := range imps {
		c.check(allowed[path], "import:"+path, nil, "import without shared mutable state or concurrency", "the package imports "+path+", which is outside the reviewed set (errors fmt io math math/big math/bits strconv encoding/json reflect unsafe): sync/atomic/time/rand etc. would break purity or determinism", "C20")
	}
	// package-level variables: DefaultRoundingMode is the only exported one
	for _, n := range scope.Names() {
		if v, ok := scope.Lookup(n).(*types.Var); ok && v.Exported() {
			c.check(n == "DefaultRoundingMode", "pkgvar:"+n, nil, "the one documented configuration variable", "exported package variable "+n+" is shared mutable state outside the documented DefaultRoundingMode", "C20")
		}
	}
	// unsafe: exactly one use, in String, over a function-local buffer
	nUnsafe := 0
	for _, name := range p.sortedFuncNames() {
		fd := p.Funcs[name]
		if fd.Body == nil {
			continue
		}
		ast.Inspect(fd.Body, func(n ast.Node) bool {
			call, ok := n.(*ast.CallExpr)
			if !ok {
				return true
			}
			cn := p.calleeName(call)
			if !strings.HasPrefix(cn, "builtin.") {
				if sel, ok := call.Fun.(*ast.SelectorExpr); ok {
					if id, ok := sel.X.(*ast.Ident); ok {
						if pn, ok := p.Info.Uses[id].(*types.PkgName); ok && pn.Imported().Path() == "unsafe" {
							nUnsafe++
							okU := name == "Decimal.String"
							c.check(okU, fmt.Sprintf("unsafe:%s#%d", name, nUnsafe), call, "unsafe string over String's private buffer", name+" uses package unsafe; only Decimal.String may, over its own freshly built buffer", "C20", "C06")
						}
					}
				}
			}
			return true
		})
	}
	if fd := c.fn("Decimal.String"); fd != nil {
		// every unsafe.String(unsafe.SliceData(B), len(B)) is over a function-local slice B that is only ever
		// defined/assigned from an emitter of this package (result not aliasing shared storage, fixpoint above)
		// handed nil or B itself, is used for nothing else, and the conversion is the operand of a return
		nConv := 0
		okAll := true
		why := ""
		params := map[types.Object]bool{}
		for _, po := range paramObjs(p, fd) {
			params[po] = true
		}
		walkStack(fd.Body, func(nd ast.Node, stack []ast.Node) {
			call, ok := nd.(*ast.CallExpr)
			if !ok || p.calleeName(call) != "unsafe.String" || len(call.Args) != 2 {
				return
			}
			nConv++
			var bObj types.Object
			if inner, ok := ast.Unparen(call.Args[0]).(*ast.CallExpr); ok && p.calleeName(inner) == "unsafe.SliceData" && len(inner.Args) == 1 {
				bObj = p.objOf(inner.Args[0])
			}
			lenOK := false
			if l, ok := ast.Unparen(call.Args[1]).(*ast.CallExpr); ok && p.calleeName(l) == "builtin.len" && len(l.Args) == 1 && p.objOf(l.Args[0]) == bObj {
				lenOK = true
			}
			if bObj == nil || !lenOK || params[bObj] {
				okAll, why = false, "the conversion is not unsafe.String(unsafe.SliceData(b), len(b)) over one local slice"
				return
			}
			if v, isVar := bObj.(*types.Var); !isVar || v.Parent() == p.Pkg.Types.Scope() {
				okAll, why = false, "the buffer is not function-local"
				return
			}
			inReturn := false
			for _, anc := range stack {
				if _, ok := anc.(*ast.ReturnStmt); ok {
					inReturn = true
				}
			}
			if !inReturn {
				okAll, why = false, "the conversion is not the operand of a return: the buffer could be used afterwards"
			}
			// all definitions and other uses of the buffer
			ast.Inspect(fd.Body, func(m ast.Node) bool {
				switch x := m.(type) {
				case *ast.AssignStmt:
					for i, l := range x.Lhs {
						if p.objOf(l) != bObj {
							continue
						}
						if len(x.Lhs) != len(x.Rhs) {
							okAll, why = false, "the buffer is assigned from a multi-value expression"
							continue
						}
						src, ok := ast.Unparen(x.Rhs[i]).(*ast.CallExpr)
						if !ok {
							if id, isId := ast.Unparen(x.Rhs[i]).(*ast.Ident); isId && id.Name == "nil" {
								continue
							}
							okAll, why = false, "the buffer is assigned from `"+p.exprStr(x.Rhs[i])+"`"
							continue
						}
						cn := p.calleeName(src)
						cfd := p.Funcs[cn]
						firstOK := len(src.Args) > 0 && (p.exprStr(src.Args[0]) == "nil" || p.objOf(src.Args[0]) == bObj)
						if cfd == nil || cfd.Name.IsExported() || retTainted[cn] || !firstOK {
							okAll, why = false, "the buffer is filled by `"+p.exprStr(src)+"`, which is not an emitter of this package handed nil or the buffer itself"
						}
					}
				case *ast.ValueSpec:
					for i, nm := range x.Names {
						if p.Info.Defs[nm] == bObj && i < len(x.Values) {
							if id, isId := ast.Unparen(x.Values[i]).(*ast.Ident); !isId || id.Name != "nil" {
								okAll, why = false, "the buffer is initialised from `"+p.exprStr(x.Values[i])+"`"
							}
						}
					}
				}
				return true
			})
			// any other use: only as the first argument of an emitter, in the conversion itself
			walkStack(fd.Body, func(m ast.Node, st2 []ast.Node) {
				id, ok := m.(*ast.Ident)
				if !ok || p.Info.Uses[id] != bObj || len(st2) == 0 {
					return
				}
				parent := st2[len(st2)-1]
				switch x := parent.(type) {
				case *ast.CallExpr:
					cn := p.calleeName(x)
					if cn == "unsafe.SliceData" || cn == "builtin.len" {
						return
					}
					if cfd := p.Funcs[cn]; cfd != nil && !cfd.Name.IsExported() && len(x.Args) > 0 && x.Args[0] == ast.Expr(id) {
						return
					}
				case *ast.AssignStmt:
					for _, l := range x.Lhs {
						if l == ast.Expr(id) {
							return
						}
					}
				}
				okAll, why = false, "the buffer is also used at "+p.posStr(id)
			})
		})
		c.check(okAll && nConv >= 1, "unsafe.private", fd, "every unsafe string is built over a function-local buffer filled only by this package's emitters and not used afterwards",
			"Decimal.String: "+why+"; the unsafe string must be built over a private buffer", "C20", "C06")
	}
}

// read-only methods of math/big types
var bigReadOnly = map[string]bool{
	"Sign": true, "BitLen": true, "Bits": true, "Bytes": true, "Cmp": true, "CmpAbs": true, "IsInt64": true, "Int64": true, "Uint64": true, "IsUint64": true,
	"Num": true, "Denom": true, "IsInf": true, "Signbit": true, "Rat": true, "Prec": true, "String": true, "Text": true, "Float64": true, "Float32": true,
	"IsInt": true, "MinPrec": true, "Mode": true, "Acc": true, "MantExp": true, "Int": true, "TrailingZeroBits": true, "Bit": true, "FillBytes": true, "Append": true,
}

type avParam struct{ name string }

func (v avParam) avKey() string { return "param:" + v.name }

func ruleEffectInputs(c *Ctx) {
	p := c.P
	outParams := map[string]string{
		"Decimal.Float": "f is the documented destination", "Decimal.Int": "i is the documented destination", "Decimal.Rat": "r is the documented destination",
		"Decimal.Decompose": "buf is the documented scratch buffer", "Append": "buf is the destination", "Decimal.Append": "buf is the destination",
		"Decimal.appendSpecial": "buf is the destination", "digits.fmtE": "buf is the destination", "digits.fmtF": "buf is the destination", "digits.pad": "buf is the destination",
	}
	writes := p.sliceWrites()
	n := 0
	for _, name := range p.sortedFuncNames() {
		fd := p.Funcs[name]
		if fd.Body == nil || fd.Type.Params == nil {
			continue
		}
		if fd.Recv != nil && strings.HasPrefix(recvTypeName(fd.Recv.List[0].Type), "uint") {
			continue
		}
		for _, f := range fd.Type.Params.List {
			for _, pn := range f.Names {
				po := p.Info.Defs[pn]
				if po == nil {
					continue
				}
				kind := ""
				switch t := po.Type().(type) {
				case *types.Pointer:
					if nt, ok := t.Elem().(*types.Named); ok && nt.Obj().Pkg() != nil && nt.Obj().Pkg().Path() == "math/big" {
						kind = "big"
					}
					if nt, ok := t.Elem().(*types.Named); ok && nt.Obj().Name() == "digits" {
						continue // internal scratch structure
					}
					if nt, ok := t.Elem().(*types.Named); ok && nt.Obj().Name() == "formatArgs" {
						continue
					}
				case *types.Slice:
					if b, ok := t.Elem().Underlying().(*types.Basic); ok && b.Kind() == types.Uint8 {
						kind = "bytes"
					}
				case *types.TypeParam:
					kind = "bytes" // D []byte | string
				}
				if kind == "" {
					continue
				}
				n++
				key := fmt.Sprintf("input:%s:%s", name, pn.Name)
				if why, ok := outParams[name]; ok {
					c.exempt(key, pn, why, "C20")
					continue
				}
				viol := ""
				if kind == "bytes" {
					viol = writes[name][po]
					if viol != "" && !fd.Name.IsExported() {
						// an internal helper: what it writes through is attributed to whoever hands it the slice
						c.ok(key, pn, "internal helper: its writes through "+pn.Name+" are charged to its callers", "C20")
						continue
					}
				} else {
					// path-sensitive: the parameter may be replaced by a private copy
					in := newInterp(p)
					in.onCall = func(in *interp, st *state, call *ast.CallExpr, cn string, recv AV, args []AV) {
						if !strings.HasPrefix(cn, "math/big.") {
							return
						}
						method := cn[strings.LastIndex(cn, ".")+1:]
						if pv, ok := recv.(avParam); ok && pv.name == pn.Name && !bigReadOnly[method] {
							viol = fmt.Sprintf("calls the mutating method %s on the caller's %s at %s (on a path where it has not been replaced by a private copy)", method, pn.Name, p.posStr(call))
						}
					}
					st := newState()
					st.vars[po] = avParam{pn.Name}
					in.curFn = append(in.curFn, fd)
					in.execBlock(fd.Body.List, st)
					if in.overflow {
						c.undecided(key, pn, "interpretation budget exceeded", "C20")
						continue
					}
				}
				c.check(viol == "", key, pn, "the argument is only read", fmt.Sprintf("%s modifies its input: %s", name, viol), append([]string{"C20"}, funcProps(name)...)...)
			}
		}
	}
	if n < 12 {
		c.undecided("input.count", nil, fmt.Sprintf("only %d pointer/slice parameters found", n), "C20")
	}
	// commit on success: every store through the receiver is immediately followed by `return nil`
	m := 0
	for _, name := range []string{"Decimal.Scan", "Decimal.UnmarshalText", "Decimal.UnmarshalJSON", "Decimal.UnmarshalBinary", "Decimal.Compose"} {
		fd := c.fn(name)
		if fd == nil {
			continue
		}
		recv := recvObj(p, fd)
		k := 0
		walkStack(fd.Body, func(nd ast.Node, stack []ast.Node) {
			as, ok := nd.(*ast.AssignStmt)
			if !ok || len(as.Lhs) != 1 {
				return
			}
			star, ok := as.Lhs[0].(*ast.StarExpr)
			if !ok || p.objOf(star.X) != recv {
				return
			}
			k++
			m++
			list, idx := enclosingBlock(append(append([]ast.Node{}, stack...), nd))
			okc := false
			if list != nil && idx+1 < len(list) {
				if r, ok := list[idx+1].(*ast.ReturnStmt); ok && len(r.Results) == 1 && p.exprStr(r.Results[0]) == "nil" {
					okc = true
				}
			}
			props := append([]string{"C20"}, funcProps(name)...)
			c.check(okc, fmt.Sprintf("commit:%s#%d", name, k), as, "the receiver is stored only immediately before `return nil`", name+": the receiver is overwritten at a point that is not immediately followed by `return nil`; on failure the receiver must stay untouched", props...)
		})
		if k == 0 {
			c.undecided("commit:"+name, fd, "no store through the receiver found", "C20")
		}
	}
	// UnmarshalJSON: "null" returns nil before anything reads or stores through the receiver
	if fd := c.fn("Decimal.UnmarshalJSON"); fd != nil && len(fd.Body.List) > 0 {
		env := p.newCanonEnv(fd)
		recv := recvObj(p, fd)
		found := false
		var at ast.Node = fd
		for _, s := range fd.Body.List {
			// only guard clauses that do not mention the receiver may precede the null test
			ifs, ok := s.(*ast.IfStmt)
			if !ok || ifs.Init != nil || ifs.Else != nil || len(ifs.Body.List) != 1 {
				break
			}
			if _, isRet := ifs.Body.List[0].(*ast.ReturnStmt); !isRet {
				break
			}
			touches := false
			ast.Inspect(ifs, func(n ast.Node) bool {
				if id, ok := n.(*ast.Ident); ok && p.Info.Uses[id] == recv && recv != nil {
					touches = true
				}
				return !touches
			})
			if touches {
				break
			}
			if env.canonStmt(ifs) == "if((K(\"null\")==conv(string;P0))){return nil}" {
				found, at = true, ifs
				break
			}
		}
		c.check(found, "json.null", at, "null returns nil before anything is read or stored through the receiver", "UnmarshalJSON must return nil for `null` in a guard clause that precedes every use of the receiver", "C13", "C20")
	}
	_ = m
}

// raw bits are read only by the encoding layer
func ruleEffectLayering(c *Ctx) {
	p := c.P
	allowed := map[string]bool{"Abs": true, "Decimal.Neg": true, "Decimal.IsNaN": true, "Decimal.isInf": true, "Decimal.isSpecial": true, "Decimal.Signbit": true,
		"Decimal.IsZero": true, "Decimal.decompose": true, "Decimal.MarshalBinary": true, "Decimal.Payload": true}
	identityOK := map[string]bool{"Decimal.Cmp": true, "Decimal.CmpAbs": true, "Decimal.Equal": true}
	decT := p.Pkg.Types.Scope().Lookup("Decimal")
	n := 0
	for _, name := range p.sortedFuncNames() {
		fd := p.Funcs[name]
		if fd.Body == nil {
			continue
		}
		ast.Inspect(fd.Body, func(nd ast.Node) bool {
			switch x := nd.(type) {
			case *ast.SelectorExpr:
				if x.Sel.Name != "lo" && x.Sel.Name != "hi" {
					return true
				}
				tv, ok := p.Info.Types[x.X]
				if !ok || decT == nil || !types.Identical(tv.Type, decT.Type()) {
					return true
				}
				n++
				if !allowed[name] {
					c.bad(fmt.Sprintf("layer.raw:%s", name), x, name+" reads the raw word ."+x.Sel.Name+" of a Decimal; only the encoding layer (class predicates, decompose, Abs/Neg, MarshalBinary, Payload) may, so that every operation sees operands as (class, sign, coefficient, exponent) and cannot depend on the cohort member", "C19", "C15")
				}
			case *ast.BinaryExpr:
				if x.Op != token.EQL && x.Op != token.NEQ {
					return true
				}
				tv, ok := p.Info.Types[x.X]
				if !ok || decT == nil || !types.Identical(tv.Type, decT.Type()) {
					return true
				}
				n++
				if !identityOK[name] {
					c.bad(fmt.Sprintf("layer.ident:%s", name), x, name+" compares two Decimals bit for bit; only the comparison fast paths may (equal bits imply equal value, but not the converse)", "C19", "C04")
				}
			}
			return true
		})
	}
	c.check(n >= 20, "layer.count", nil, fmt.Sprintf("%d raw-word reads / bit-identity comparisons, all inside the encoding layer", n), fmt.Sprintf("only %d raw-word uses found", n), "C19")
}

// loop progress
func ruleEffectLoops(c *Ctx) {
	p := c.P
	n := 0
	for _, name := range p.sortedFuncNames() {
		fd := p.Funcs[name]
		if fd.Body == nil {
			continue
		}
		k := 0
		ast.Inspect(fd.Body, func(nd ast.Node) bool {
			loop, ok := nd.(*ast.ForStmt)
			if !ok {
				return true
			}
			k++
			n++
			key := fmt.Sprintf("loop:%s#%d", name, k)
			props := []string{"C20"}
			hasExit := func(body ast.Node) bool {
				found := false
				ast.Inspect(body, func(m ast.Node) bool {
					switch y := m.(type) {
					case *ast.ReturnStmt:
						found = true
					case *ast.BranchStmt:
						if y.Tok == token.BREAK {
							found = true
						}
					case *ast.ForStmt, *ast.SwitchStmt:
						if m != body {
							// a break inside a nested loop/switch does not leave this loop; returns still do
							ast.Inspect(y, func(q ast.Node) bool {
								if _, ok := q.(*ast.ReturnStmt); ok {
									found = true
								}
								if b, ok := q.(*ast.BranchStmt); ok && b.Tok == token.BREAK && b.Label != nil {
									found = true
								}
								return true
							})
							return false
						}
					}
					return true
				})
				return found
			}
			if loop.Cond == nil {
				c.check(hasExit(loop.Body), key, loop, "unconditional loop with an exit", name+": `for {}` loop without break/return", props...)
				return true
			}
			// variables read by the condition
			reads := map[string]bool{}
			ast.Inspect(loop.Cond, func(m ast.Node) bool {
				switch y := m.(type) {
				case *ast.Ident:
					if k := p.exprKey(y); k != "" {
						reads[k] = true
					}
				case *ast.SelectorExpr:
					if k := p.exprKey(y); k != "" {
						reads[k] = true
					}
				}
				return true
			})
			progress := false
			check := func(e ast.Expr) {
				e = ast.Unparen(e)
				if ix, ok := e.(*ast.IndexExpr); ok {
					e = ix.X
				}
				k := p.exprKey(e)
				if k == "" {
					return
				}
				if reads[k] {
					progress = true
				}
				// a field of a read struct, or the struct of a read field
				for r := range reads {
					if strings.HasPrefix(r, k+".") || strings.HasPrefix(k, r+".") {
						progress = true
					}
				}
			}
			scan := func(root ast.Node) {
				ast.Inspect(root, func(m ast.Node) bool {
					switch y := m.(type) {
					case *ast.AssignStmt:
						for _, l := range y.Lhs {
							check(l)
						}
					case *ast.IncDecStmt:
						check(y.X)
					case *ast.CallExpr:
						// a mutating math/big call on a variable the condition reads
						cn := p.calleeName(y)
						if strings.HasPrefix(cn, "math/big.") {
							if sel, ok := y.Fun.(*ast.SelectorExpr); ok {
								check(sel.X)
							}
						}
					}
					return true
				})
			}
			scan(loop.Body)
			if loop.Post != nil {
				scan(loop.Post)
			}
			c.check(progress || hasExit(loop.Body), key, loop, "every iteration assigns a variable the condition reads (or can exit)", name+": loop whose body never assigns anything its condition `"+p.exprStr(loop.Cond)+"` reads and has no exit: it cannot terminate once entered", props...)
			return true
		})
	}
	if n < 190 {
		c.undecided("loop.count", nil, fmt.Sprintf("only %d loops found", n), "C20")
	}
}

// table index premises
func ruleEffectIndex(c *Ctx) {
	p := c.P
	scope := p.Pkg.Types.Scope()
	n := 0
	for _, name := range p.sortedFuncNames() {
		fd := p.Funcs[name]
		if fd.Body == nil {
			continue
		}
		k := 0
		walkStack(fd.Body, func(nd ast.Node, stack []ast.Node) {
			ix, ok := nd.(*ast.IndexExpr)
			if !ok {
				return
			}
			o := p.objOf(ix.X)
			v, ok := o.(*types.Var)
			if !ok || v.Parent() != scope {
				return
			}
			arr, ok := v.Type().Underlying().(*types.Array)
			if !ok {
				return
			}
			if _, isConst := p.constInt64(ix.Index); isConst {
				return
			}
			k++
			n++
			N := arr.Len()
			key := fmt.Sprintf("index:%s:%s#%d", name, v.Name(), k)
			props := append([]string{"C20"}, funcProps(name)...)
			idx := ast.Unparen(ix.Index)
			// forms:
			//  (1) -X or -(X - c): needs dominating `X > -N (+c)` strictly (or an early return on <=) and X <= 0 (+c)
			//  (2) l10 = l2*1233>>12 with l2 <= 64·limbs                       (log10)
			//  (3) remainder of division by N                                  (digitPairs[rem])
			//  (4) msd - 11 under msd > 10                                     (ln table)
			negInner, _ := negOperand(p, idx)
			// first the interval analysis: it needs no particular spelling of the index or of its guards
			if iv := p.intervalAt(fd, idx, append(append([]ast.Node{}, stack...), nd)); iv.lo != nil && iv.hi != nil && iv.lo.Sign() >= 0 && iv.hi.Cmp(big.NewInt(N-1)) <= 0 {
				c.ok(key, ix, fmt.Sprintf("interval analysis: the index lies in [%v, %v], the table has %d entries", iv.lo, iv.hi, N), props...)
				return
			}
			switch {
			case isNeg(idx) && negInner != nil:
				inner, off := negOperand(p, idx)
				okLo, okHi := false, false
				why := ""
				if inner != nil {
					okLo, okHi, why = p.negIndexGuards(fd, stack, nd, inner, off, N)
				}
				c.check(okLo && okHi, key, ix, fmt.Sprintf("index -%s is within 0..%d by the dominating guards", p.exprStr(inner), N-1),
					fmt.Sprintf("%s: %s[%s] can be out of range (table length %d): %s", name, v.Name(), p.exprStr(idx), N, why), props...)
			case strings.HasSuffix(name, ".log10"):
				c.exempt(key, ix, "index = bitlen·1233>>12 with bitlen <= 64·limbs: at most 38 (uint128) / 57 (uint192), the last table slot", props...)
			case v.Name() == "digitPairs":
				c.exempt(key, ix, "index is the remainder of a division by 100", props...)
			case v.Name() == "ln":
				c.exempt(key, ix, "msd2 returns two leading digits (10..99) and the access is under msd > 10: index msd-11 in 0..88", props...)
			default:
				c.undecided(key, ix, "table access with an index form the checker has no premise for", props...)
			}
		})
	}
	if n < 9 {
		c.undecided("index.count", nil, fmt.Sprintf("only %d variable table accesses found", n), "C20")
	}
}

func isNeg(e ast.Expr) bool {
	e = ast.Unparen(e)
	if u, ok := e.(*ast.UnaryExpr); ok && u.Op == token.SUB {
		return true
	}
	if be, ok := e.(*ast.BinaryExpr); ok && be.Op == token.SUB {
		return true
	}
	return false
}

// negOperand decomposes an index of the form off - X into (X, off):
// -X, -(X - c), c - X.
func negOperand(p *Prog, e ast.Expr) (ast.Expr, int64) {
	e = ast.Unparen(e)
	if be, ok := e.(*ast.BinaryExpr); ok && be.Op == token.SUB {
		if cst, ok := p.constInt64(be.X); ok && p.constOf(be.Y) == nil {
			return ast.Unparen(be.Y), cst
		}
		return nil, 0
	}
	u, ok := e.(*ast.UnaryExpr)
	if !ok {
		return nil, 0
	}
	x := ast.Unparen(u.X)
	if be, ok := x.(*ast.BinaryExpr); ok && be.Op == token.SUB {
		if cst, ok := p.constInt64(be.Y); ok {
			return ast.Unparen(be.X), cst
		}
	}
	return x, 0
}

// negIndexGuards checks that the index off - X lies in [0, N): X <= off and X > off - N.
func (p *Prog) negIndexGuards(fd *ast.FuncDecl, stack []ast.Node, site ast.Node, x ast.Expr, off int64, N int64) (bool, bool, string) {
	key := p.exprKey(x)
	if key == "" {
		return false, false, "index operand is not a variable"
	}
	full := append(append([]ast.Node{}, stack...), site)
	facts := p.factsAt(full, func(s ast.Stmt) bool {
		if _, isFor := s.(*ast.ForStmt); isFor {
			return false // a loop that drives X re-establishes its own exit condition
		}
		return p.assignsTo(s, key)
	})
	okLo, okHi := false, false
	for _, f := range facts {
		fx, op, k, ok := p.normCmp(f.cond)
		if !ok || p.exprKey(fx) != key || !k.IsInt64() {
			continue
		}
		if !f.val {
			op = negOp(op)
		}
		kv := k.Int64()
		switch op {
		case token.GTR: // X > kv  =>  index = off - X < off - kv ; need <= N
			if off-kv <= N {
				okHi = true
			}
		case token.LEQ: // X <= kv => index >= off - kv ; need >= 0
			if off-kv >= 0 {
				okLo = true
			}
		case token.EQL:
			if off-kv >= 0 && off-kv < N {
				okLo, okHi = true, true
			}
		}
	}
	why := ""
	if !okHi {
		why += fmt.Sprintf("no dominating guard establishes %s > %d; ", p.exprStr(x), off-N)
	}
	if !okLo {
		why += fmt.Sprintf("no dominating guard establishes %s <= %d", p.exprStr(x), off)
	}
	return okLo, okHi, why
}

// sliceWrites computes, for every function, which of its slice parameters it
// writes through: element stores, append/copy with the parameter as
// destination, the same through a local alias (x := p, x := p[a:b]), or
// handing it to a package function that writes through the corresponding
// parameter (fixpoint over the call graph). The value describes the write.
func (p *Prog) sliceWrites() map[string]map[types.Object]string {
	out := map[string]map[types.Object]string{}
	isSlice := func(o types.Object) bool {
		if o == nil {
			return false
		}
		switch o.Type().Underlying().(type) {
		case *types.Slice:
			return true
		}
		_, tp := o.Type().(*types.TypeParam)
		return tp
	}
	names := p.sortedFuncNames()
	for iter := 0; iter < 5; iter++ {
		changed := false
		for _, name := range names {
			fd := p.Funcs[name]
			if fd.Body == nil {
				continue
			}
			var params []types.Object
			if fd.Type.Params != nil {
				for _, f := range fd.Type.Params.List {
					for _, n := range f.Names {
						params = append(params, p.Info.Defs[n])
					}
				}
			}
			// alias[o] = the parameter a local slice may alias
			alias := map[types.Object]types.Object{}
			for _, po := range params {
				if isSlice(po) {
					alias[po] = po
				}
			}
			root := func(e ast.Expr) types.Object {
				for {
					e = ast.Unparen(e)
					switch x := e.(type) {
					case *ast.SliceExpr:
						e = x.X
						continue
					case *ast.Ident:
						return alias[p.objOf(x)]
					}
					return nil
				}
			}
			for pass := 0; pass < 3; pass++ {
				ast.Inspect(fd.Body, func(n ast.Node) bool {
					as, ok := n.(*ast.AssignStmt)
					if !ok || len(as.Lhs) != len(as.Rhs) {
						return true
					}
					for i, r := range as.Rhs {
						if src := root(r); src != nil {
							if lo := p.objOf(as.Lhs[i]); lo != nil && alias[lo] == nil {
								alias[lo] = src
							}
						}
					}
					return true
				})
			}
			note := func(po types.Object, what string) {
				if out[name] == nil {
					out[name] = map[types.Object]string{}
				}
				if out[name][po] == "" {
					out[name][po] = what
					changed = true
				}
			}
			ast.Inspect(fd.Body, func(n ast.Node) bool {
				switch x := n.(type) {
				case *ast.AssignStmt:
					for _, l := range x.Lhs {
						if ix, ok := ast.Unparen(l).(*ast.IndexExpr); ok {
							if po := root(ix.X); po != nil {
								note(po, "stores into "+po.Name()+"[...] at "+p.posStr(x))
							}
						}
					}
				case *ast.IncDecStmt:
					if ix, ok := ast.Unparen(x.X).(*ast.IndexExpr); ok {
						if po := root(ix.X); po != nil {
							note(po, "modifies "+po.Name()+"[...] at "+p.posStr(x))
						}
					}
				case *ast.CallExpr:
					cn := p.calleeName(x)
					if (cn == "builtin.append" || cn == "builtin.copy") && len(x.Args) > 0 {
						if po := root(x.Args[0]); po != nil {
							// append to a parameter that is the documented destination is reported like a store
							note(po, cn+" writes through "+po.Name()+" at "+p.posStr(x))
						}
						return true
					}
					// library functions that write through a slice argument
					if strings.HasSuffix(cn, "big.Int.FillBytes") || strings.HasPrefix(cn, "strconv.Append") || strings.HasSuffix(cn, ".Read") || cn == "io.ReadFull" {
						idx := 0
						if cn == "io.ReadFull" {
							idx = 1
						}
						if idx < len(x.Args) {
							if po := root(x.Args[idx]); po != nil {
								note(po, cn+" writes through "+po.Name()+" at "+p.posStr(x))
							}
						}
						return true
					}
					cfd := p.Funcs[cn]
					if cfd == nil || cfd.Type.Params == nil {
						return true
					}
					var cps []types.Object
					for _, f := range cfd.Type.Params.List {
						for _, n := range f.Names {
							cps = append(cps, p.Info.Defs[n])
						}
					}
					for i, a := range x.Args {
						if i >= len(cps) {
							break
						}
						if po := root(a); po != nil && out[cn][cps[i]] != "" {
							note(po, "hands "+po.Name()+" to "+cn+", which "+out[cn][cps[i]])
						}
					}
				}
				return true
			})
		}
		if !changed {
			break
		}
	}
	return out
}
