package main

import (
	"fmt"
	"go/ast"
	"go/token"
	"go/types"
	"math/big"
	"strings"
)

// E4 R-SCALE: value = sig × 10^exp is conserved. Every decimal scaling of a
// significand variable is paired, in the same statement list and before the
// next scaling of that variable, with exponent adjustments of equal
// magnitude (and, where the relation between the variables is known, of the
// right direction).

type scaleEvent struct {
	fn     string
	fd     *ast.FuncDecl
	stmt   ast.Stmt // the statement after which the group starts
	node   ast.Node
	target string // exprKey of the scaled variable
	tname  string
	k      int  // log10 of the factor
	up     bool // multiplication
	stack  []ast.Node
	horner bool
}

// isIntegerExprType reports whether the type is a signed/unsigned integer.
func isIntType(t types.Type) bool {
	b, ok := t.Underlying().(*types.Basic)
	return ok && b.Info()&types.IsInteger != 0
}

// adjustment describes `E += c`, `E -= c`, `E++`, `E--`.
type adjustment struct {
	key   string
	name  string
	delta int64 // signed
	node  ast.Node
}

func (p *Prog) asAdjustment(s ast.Stmt) (adjustment, bool) {
	switch x := s.(type) {
	case *ast.IncDecStmt:
		k := p.exprKey(x.X)
		if k == "" {
			return adjustment{}, false
		}
		if t := p.typeOf(x.X); t == nil || !isIntType(t) {
			return adjustment{}, false
		}
		d := int64(1)
		if x.Tok == token.DEC {
			d = -1
		}
		return adjustment{k, p.exprName(x.X), d, x}, true
	case *ast.AssignStmt:
		if len(x.Lhs) == 1 && len(x.Rhs) == 1 && x.Tok == token.ASSIGN {
			// E = E + c, E = E - c, E = c + E
			if be, ok := ast.Unparen(x.Rhs[0]).(*ast.BinaryExpr); ok && (be.Op == token.ADD || be.Op == token.SUB) {
				k := p.exprKey(x.Lhs[0])
				if k != "" {
					if t := p.typeOf(x.Lhs[0]); t != nil && isIntType(t) {
						if p.exprKey(be.X) == k {
							if c, ok := p.constInt64(be.Y); ok {
								if be.Op == token.SUB {
									c = -c
								}
								return adjustment{k, p.exprName(x.Lhs[0]), c, x}, true
							}
						}
						if be.Op == token.ADD && p.exprKey(be.Y) == k {
							if c, ok := p.constInt64(be.X); ok {
								return adjustment{k, p.exprName(x.Lhs[0]), c, x}, true
							}
						}
					}
				}
			}
		}
		if len(x.Lhs) != 1 || len(x.Rhs) != 1 || (x.Tok != token.ADD_ASSIGN && x.Tok != token.SUB_ASSIGN) {
			return adjustment{}, false
		}
		k := p.exprKey(x.Lhs[0])
		if k == "" {
			return adjustment{}, false
		}
		if t := p.typeOf(x.Lhs[0]); t == nil || !isIntType(t) {
			return adjustment{}, false
		}
		c, ok := p.constInt64(x.Rhs[0])
		if !ok {
			return adjustment{}, false
		}
		if x.Tok == token.SUB_ASSIGN {
			c = -c
		}
		return adjustment{k, p.exprName(x.Lhs[0]), c, x}, true
	}
	return adjustment{}, false
}

// exponentLike computes the exponent-like variables of a function.
func (p *Prog) exponentLike(fd *ast.FuncDecl) map[string]bool {
	out := map[string]bool{}
	// parameters: integer params of functions that also take a significand
	hasSig := false
	var intParams []*ast.Ident
	if fd.Type.Params != nil {
		for _, f := range fd.Type.Params.List {
			for _, n := range f.Names {
				o := p.Info.Defs[n]
				if o == nil {
					continue
				}
				if limbsOf(o.Type()) > 1 {
					hasSig = true
				}
				if sl, ok := o.Type().Underlying().(*types.Slice); ok {
					if b, ok := sl.Elem().Underlying().(*types.Basic); ok && b.Kind() == types.Uint8 {
						hasSig = true
					}
				}
				if b, ok := o.Type().Underlying().(*types.Basic); ok && (b.Kind() == types.Int16 || b.Kind() == types.Int32 || b.Kind() == types.Int) {
					intParams = append(intParams, n)
				}
				if b, ok := o.Type().Underlying().(*types.Basic); ok && (b.Kind() == types.Uint64 || b.Kind() == types.Int64) && strings.HasPrefix(n.Name, "sig") {
					hasSig = true
				}
			}
		}
	}
	if hasSig {
		for _, n := range intParams {
			out[p.exprKey(n)] = true
		}
	}
	changed := true
	for iter := 0; iter < 6 && changed; iter++ {
		changed = false
		add := func(e ast.Expr) {
			k := p.exprKey(e)
			if k == "" || out[k] {
				return
			}
			if t := p.typeOf(e); t != nil && isIntType(t) {
				out[k] = true
				changed = true
			}
		}
		mentionsExp := func(e ast.Expr) bool {
			found := false
			ast.Inspect(e, func(n ast.Node) bool {
				switch x := n.(type) {
				case *ast.Ident, *ast.SelectorExpr:
					if k := p.exprKey(x.(ast.Expr)); k != "" && out[k] {
						found = true
					}
				}
				return !found
			})
			return found
		}
		ast.Inspect(fd.Body, func(n ast.Node) bool {
			switch x := n.(type) {
			case *ast.SelectorExpr:
				if x.Sel.Name == "exp" {
					add(x)
				}
			case *ast.AssignStmt:
				// tuple results of decompose / reduce / round
				if len(x.Lhs) == 2 && len(x.Rhs) == 1 {
					if call, ok := x.Rhs[0].(*ast.CallExpr); ok {
						cn := p.calleeName(call)
						if cn == "Decimal.decompose" || strings.HasPrefix(cn, "RoundingMode.") {
							add(x.Lhs[1])
						}
					}
				}
				// definitions mentioning an exponent-like variable
				if len(x.Lhs) == len(x.Rhs) {
					for i := range x.Lhs {
						if x.Tok == token.DEFINE || x.Tok == token.ASSIGN {
							if mentionsExp(x.Rhs[i]) {
								// only plain arithmetic/conversions
								okForm := true
								ast.Inspect(x.Rhs[i], func(m ast.Node) bool {
									if call, ok := m.(*ast.CallExpr); ok {
										if tv, ok := p.Info.Types[call.Fun]; !ok || !tv.IsType() {
											okForm = false
										}
									}
									return okForm
								})
								if okForm {
									add(x.Lhs[i])
								}
							}
						}
					}
				}
			case *ast.KeyValueExpr:
				if id, ok := x.Key.(*ast.Ident); ok && id.Name == "exp" {
					add(x.Value)
				}
			case *ast.CallExpr:
				cn := p.calleeName(x)
				if strings.HasPrefix(cn, "RoundingMode.reduce") && len(x.Args) >= 3 {
					add(x.Args[2])
				}
				if cn == "RoundingMode.round" && len(x.Args) >= 4 {
					add(x.Args[3])
				}
				if cn == "compose" && len(x.Args) == 3 {
					add(x.Args[2])
				}
			}
			return true
		})
	}
	return out
}

// typeOf returns the type of an expression, falling back to the object's type
// for identifiers that go/types does not record in Info.Types.
func (p *Prog) typeOf(e ast.Expr) types.Type {
	if tv, ok := p.Info.Types[e]; ok && tv.Type != nil {
		return tv.Type
	}
	if o := p.objOf(e); o != nil {
		return o.Type()
	}
	if sel, ok := ast.Unparen(e).(*ast.SelectorExpr); ok {
		if s := p.Info.Selections[sel]; s != nil {
			return s.Type()
		}
	}
	return nil
}

// collectScaleEvents gathers decimal scaling events outside the kernel.
func (p *Prog) collectScaleEvents() []scaleEvent {
	var out []scaleEvent
	// multiplications
	for _, s := range p.collectMulSites() {
		k, ok := isPow10(s.K)
		if !ok {
			continue
		}
		ev := scaleEvent{fn: s.fn, fd: p.Funcs[s.fn], stmt: s.stmt, node: s.node, target: s.target, tname: nameOf(s.target), k: k, up: true, stack: s.stack}
		if s.commit {
			// the event is the commit `v = tmp`
			ev.stmt = nil
			var commit *ast.AssignStmt
			ast.Inspect(p.Funcs[s.fn].Body, func(n ast.Node) bool {
				as, ok := n.(*ast.AssignStmt)
				if ok && len(as.Lhs) == 1 && len(as.Rhs) == 1 && p.exprKey(as.Lhs[0]) == s.target && p.exprKey(as.Rhs[0]) == s.dest && as.Pos() > s.stmt.Pos() && commit == nil {
					commit = as
				}
				return true
			})
			if commit == nil {
				continue
			}
			ev.stmt = commit
			ev.node = commit
			ev.stack = nil
		}
		out = append(out, ev)
	}
	// mul1e38
	for _, name := range p.sortedFuncNames() {
		fd := p.Funcs[name]
		if fd.Body == nil {
			continue
		}
		walkStack(fd.Body, func(n ast.Node, stack []ast.Node) {
			as, ok := n.(*ast.AssignStmt)
			if !ok || len(as.Lhs) != 1 || len(as.Rhs) != 1 {
				return
			}
			if call, ok := as.Rhs[0].(*ast.CallExpr); ok && p.calleeName(call) == "uint128.mul1e38" {
				out = append(out, scaleEvent{fn: name, fd: fd, stmt: as, node: as, target: p.exprKey(as.Lhs[0]), tname: p.exprName(as.Lhs[0]), k: 38, up: true,
					stack: append(append([]ast.Node{}, stack...), n)})
			}
			// scalar v /= 10^k, v = v / 10^k
			if as.Tok == token.QUO_ASSIGN {
				if kb, ok := constBig(p.constOf(as.Rhs[0])); ok {
					if k, ok := isPow10(kb); ok && k > 0 {
						if fd.Recv == nil || !strings.HasPrefix(recvTypeName(fd.Recv.List[0].Type), "uint") {
							out = append(out, scaleEvent{fn: name, fd: fd, stmt: as, node: as, target: p.exprKey(as.Lhs[0]), tname: p.exprName(as.Lhs[0]), k: k,
								stack: append(append([]ast.Node{}, stack...), n)})
						}
					}
				}
			}
			if as.Tok == token.ASSIGN {
				if be, ok := ast.Unparen(as.Rhs[0]).(*ast.BinaryExpr); ok && be.Op == token.QUO && p.exprKey(be.X) != "" && p.exprKey(be.X) == p.exprKey(as.Lhs[0]) {
					if kb, ok := constBig(p.constOf(be.Y)); ok {
						if k, ok := isPow10(kb); ok && k > 0 {
							if fd.Recv == nil || !strings.HasPrefix(recvTypeName(fd.Recv.List[0].Type), "uint") {
								out = append(out, scaleEvent{fn: name, fd: fd, stmt: as, node: as, target: p.exprKey(as.Lhs[0]), tname: p.exprName(as.Lhs[0]), k: k,
									stack: append(append([]ast.Node{}, stack...), n)})
							}
						}
					}
				}
			}
		})
	}
	// divisions
	for _, ev := range p.collectDivEvents() {
		if isBlank(ev.qdest) {
			continue
		}
		se := scaleEvent{fn: ev.fn, fd: p.Funcs[ev.fn], stmt: ev.stmt, node: ev.stmt, target: ev.target, tname: ev.tname, k: ev.k, stack: ev.stack}
		if ev.commit {
			// tmp, rem := sig.div10(); if rem != 0 {break}; sig = tmp
			dest := p.exprKey(ev.qdest)
			var commit *ast.AssignStmt
			ast.Inspect(p.Funcs[ev.fn].Body, func(n ast.Node) bool {
				as, ok := n.(*ast.AssignStmt)
				if ok && len(as.Lhs) == 1 && len(as.Rhs) == 1 && p.exprKey(as.Lhs[0]) == ev.target && p.exprKey(as.Rhs[0]) == dest && as.Pos() > ev.stmt.Pos() && commit == nil {
					commit = as
				}
				return true
			})
			if commit == nil {
				continue // quotient used for something else (not a rescaling of the variable)
			}
			se.stmt = commit
			se.node = commit
			se.stack = nil
		}
		out = append(out, se)
	}
	return out
}

// readsVar reports whether n reads the variable (uses that are not plain
// assignment targets).
func (p *Prog) readsVar(n ast.Node, key string) bool {
	lhs := map[*ast.Ident]bool{}
	ast.Inspect(n, func(m ast.Node) bool {
		if as, ok := m.(*ast.AssignStmt); ok && (as.Tok == token.ASSIGN || as.Tok == token.DEFINE) {
			for _, l := range as.Lhs {
				if id, ok := ast.Unparen(l).(*ast.Ident); ok {
					lhs[id] = true
				}
			}
		}
		return true
	})
	found := false
	ast.Inspect(n, func(m ast.Node) bool {
		if id, ok := m.(*ast.Ident); ok && !lhs[id] && p.Info.Uses[id] != nil && p.exprKey(id) == key {
			found = true
		}
		if sel, ok := m.(*ast.SelectorExpr); ok && p.exprKey(sel) == key {
			found = true
		}
		return !found
	})
	return found
}

// liveAfter scans a statement list: 1 = the variable is read before being
// overwritten, 2 = overwritten first on every path, 0 = neither.
func (p *Prog) liveAfter(list []ast.Stmt, key string) int {
	for _, t := range list {
		switch x := t.(type) {
		case *ast.AssignStmt:
			for _, r := range x.Rhs {
				if p.readsVar(r, key) {
					return 1
				}
			}
			if x.Tok != token.ASSIGN && x.Tok != token.DEFINE {
				for _, l := range x.Lhs {
					if p.exprKey(l) == key {
						return 1 // op-assign reads
					}
				}
			}
			for _, l := range x.Lhs {
				if p.exprKey(l) == key {
					return 2
				}
			}
		case *ast.IfStmt:
			if x.Init != nil && p.readsVar(x.Init, key) {
				return 1
			}
			if p.readsVar(x.Cond, key) {
				return 1
			}
			a := p.liveAfter(x.Body.List, key)
			b := 0
			switch e := x.Else.(type) {
			case *ast.BlockStmt:
				b = p.liveAfter(e.List, key)
			case *ast.IfStmt:
				b = p.liveAfter([]ast.Stmt{e}, key)
			}
			if a == 1 || b == 1 {
				return 1
			}
			if a == 2 && b == 2 {
				return 2
			}
			// a branch that returns does not flow on
			if a == 2 && x.Else == nil {
				continue
			}
		case *ast.ReturnStmt:
			if p.readsVar(x, key) {
				return 1
			}
			return 2
		default:
			if p.readsVar(t, key) {
				return 1
			}
		}
	}
	return 0
}

// stackOf recomputes the ancestor stack of a node in a function.
func stackOf(fd *ast.FuncDecl, target ast.Node) []ast.Node {
	var res []ast.Node
	walkStack(fd.Body, func(n ast.Node, stack []ast.Node) {
		if n == target {
			res = append(append([]ast.Node{}, stack...), n)
		}
	})
	return res
}

func ruleScale(c *Ctx) {
	p := c.P
	evs := p.collectScaleEvents()
	expLike := map[string]map[string]bool{}
	count := map[string]int{}
	nPaired, nDir := 0, 0
	for _, ev := range evs {
		if ev.stack == nil {
			ev.stack = stackOf(ev.fd, ev.node)
		}
		el, ok := expLike[ev.fn]
		if !ok {
			el = p.exponentLike(ev.fd)
			expLike[ev.fn] = el
		}
		dir := "÷"
		if ev.up {
			dir = "×"
		}
		base := fmt.Sprintf("scale:%s:%s%s10^%d", ev.fn, ev.tname, dir, ev.k)
		count[base]++
		key := fmt.Sprintf("%s#%d", base, count[base])
		fp := funcProps(ev.fn)
		list, idx := enclosingBlock(ev.stack)
		if list == nil {
			c.undecided(key, ev.node, "scaling event outside a statement list", fp...)
			continue
		}
		// classification of events that need no compensation
		if ev.fn == "Decimal.Cmp" || ev.fn == "Decimal.CmpAbs" || ev.fn == "Decimal.Equal" {
			c.exempt(key, ev.node, "comparison routines consume an exponent gap instead of adjusting an exponent: decided for every gap by E5.gap", fp...)
			continue
		}
		if why, ok := p.scaleExempt(ev, list, idx); ok {
			c.exempt(key, ev.node, why, fp...)
			continue
		}
		// the group: following statements up to the next scaling of the same variable
		var adjs []adjustment
		var resets []string
		collect := func(stmts []ast.Stmt) {
			for _, s := range stmts {
				if a, ok := p.asAdjustment(s); ok && el[a.key] {
					adjs = append(adjs, a)
				}
			}
		}
		end := len(list)
		for j := idx + 1; j < len(list); j++ {
			if p.rescales(list[j], ev.target) {
				end = j
				break
			}
		}
		collect(list[idx+1 : end])
		// the post statement of the enclosing loop runs after the body
		if end == len(list) {
			for i := len(ev.stack) - 2; i >= 0; i-- {
				if f, ok := ev.stack[i].(*ast.ForStmt); ok {
					if f.Post != nil && i+1 < len(ev.stack) && ev.stack[i+1] == ast.Node(f.Body) {
						// only when the event's block is the loop body itself
						if bl, _ := enclosingBlock(ev.stack); len(bl) > 0 && len(f.Body.List) > 0 && bl[0] == f.Body.List[0] {
							collect([]ast.Stmt{f.Post})
						}
					}
					break
				}
			}
		}
		// zero-reset idiom: if V == 0 { E = ... } else { E += k }
		for _, s := range list[idx+1 : end] {
			ifs, ok := s.(*ast.IfStmt)
			if !ok || ifs.Else == nil || !p.isZeroTestOf(ifs.Cond, ev.target) {
				continue
			}
			if eb, ok := ifs.Else.(*ast.BlockStmt); ok {
				collect(eb.List)
			}
			for _, t := range ifs.Body.List {
				if as, ok := t.(*ast.AssignStmt); ok && as.Tok == token.ASSIGN && len(as.Lhs) == 1 && el[p.exprKey(as.Lhs[0])] {
					resets = append(resets, p.exprName(as.Lhs[0]))
				}
			}
		}
		// a scaled variable shared by a group: several variables scaled by the same factor
		// before the adjustments (rem and sig ×10^4 ↔ exp -= 4) is naturally covered: each
		// event sees the same adjustments.
		if len(adjs) == 0 {
			c.bad(key, ev.node, fmt.Sprintf("%s: %s is scaled by 10^%s%d but no exponent is adjusted before the next scaling or the end of the block: value = sig·10^exp is not conserved", ev.fn, ev.tname, map[bool]string{true: "+", false: "-"}[ev.up], ev.k), fp...)
			continue
		}
		var bad []string
		for _, a := range adjs {
			m := a.delta
			if m < 0 {
				m = -m
			}
			if int(m) != ev.k {
				bad = append(bad, fmt.Sprintf("%s changes by %+d", a.name, a.delta))
			}
		}
		if len(bad) > 0 {
			c.bad(key, ev.node, fmt.Sprintf("%s: %s is scaled by 10^%d but %s (magnitudes must be equal)", ev.fn, ev.tname, ev.k, strings.Join(bad, ", ")), fp...)
			continue
		}
		nPaired++
		// direction, where the relation is known
		dirBad := ""
		checked := 0
		for _, a := range adjs {
			want, known := p.expectedSign(ev, a, el)
			if !known {
				if ev.fn == "Decimal.Float64" && strings.HasPrefix(a.name, "shift") {
					continue // `shift` counts remaining decimal steps; its meaning is flipped by `shift *= -1` (reviewed): magnitude only
				}
				// no other relation is known: the adjusted variable is the exponent of the value being scaled
				want = -1
				if !ev.up {
					want = 1
				}
			}
			checked++
			if (a.delta > 0) != (want > 0) {
				dirBad = fmt.Sprintf("%s moves by %+d; scaling %s %s by 10^%d requires it to move %s", a.name, a.delta, ev.tname, map[bool]string{true: "up", false: "down"}[ev.up], ev.k, map[bool]string{true: "up", false: "down"}[want > 0])
			}
		}
		if dirBad != "" {
			c.bad(key, ev.node, ev.fn+": "+dirBad, fp...)
			continue
		}
		if checked > 0 {
			nDir++
		}
		var names []string
		for _, a := range adjs {
			names = append(names, fmt.Sprintf("%s%+d", a.name, a.delta))
		}
		det := "paired with " + strings.Join(names, ", ")
		if checked > 0 {
			det += " (direction checked)"
		}
		if len(resets) > 0 {
			det += "; zero resets " + strings.Join(resets, ",")
		}
		c.ok(key, ev.node, det, fp...)
	}
	c.Notes = append(c.Notes, fmt.Sprintf("E4: %d scaling events, %d paired by magnitude, %d of them direction-checked", len(evs), nPaired, nDir))
	if nPaired < 150 {
		c.undecided("scale.count", nil, fmt.Sprintf("only %d paired scaling events", nPaired))
	}
}

// rescales reports whether statement s (directly) scales the variable again.
func (p *Prog) rescales(s ast.Stmt, target string) bool {
	as, ok := s.(*ast.AssignStmt)
	if !ok {
		return false
	}
	if len(as.Lhs) >= 1 && p.exprKey(as.Lhs[0]) == target && len(as.Rhs) == 1 {
		if call, ok := as.Rhs[0].(*ast.CallExpr); ok {
			cn := p.calleeName(call)
			if strings.Contains(cn, ".div1") || strings.HasSuffix(cn, ".mul64") || strings.HasSuffix(cn, ".mul1e38") {
				if sel, ok := call.Fun.(*ast.SelectorExpr); ok && p.exprKey(sel.X) == target {
					return true
				}
			}
		}
	}
	if (as.Tok == token.MUL_ASSIGN || as.Tok == token.QUO_ASSIGN) && len(as.Lhs) == 1 && p.exprKey(as.Lhs[0]) == target {
		return true
	}
	return false
}

// isZeroTestOf matches V == 0 / V[0]|V[1] == 0 for the variable.
func (p *Prog) isZeroTestOf(cond ast.Expr, target string) bool {
	// any spelling of "every limb of target is zero"
	if k, isZero, ok := p.wholeZeroTest(cond); ok && isZero && k == target {
		return true
	}
	be, ok := ast.Unparen(cond).(*ast.BinaryExpr)
	if !ok || be.Op != token.EQL {
		return false
	}
	if v, ok := p.constInt64(be.Y); !ok || v != 0 {
		return false
	}
	okAll := true
	var walk func(e ast.Expr)
	walk = func(e ast.Expr) {
		e = ast.Unparen(e)
		switch x := e.(type) {
		case *ast.BinaryExpr:
			if x.Op != token.OR {
				okAll = false
				return
			}
			walk(x.X)
			walk(x.Y)
		case *ast.IndexExpr:
			if p.exprKey(x.X) != target {
				okAll = false
			}
		default:
			if p.exprKey(e) != target {
				okAll = false
			}
		}
	}
	walk(be.X)
	return okAll
}

// scaleExempt: events that legitimately carry no exponent compensation.
func (p *Prog) scaleExempt(ev scaleEvent, list []ast.Stmt, idx int) (string, bool) {
	if ev.fn == "decomposed192.log" && ev.tname == "msd" {
		return "msd is the two-digit leading-digit probe (an int), not a significand: 1..9 is widened to 10..90 to index the ln table", true
	}
	// Horner: v = v·K; v = v + digit  (or v = v*K + d)
	if ev.up {
		if idx+1 < len(list) {
			if as, ok := list[idx+1].(*ast.AssignStmt); ok && as.Tok == token.ADD_ASSIGN && len(as.Lhs) == 1 && p.exprKey(as.Lhs[0]) == ev.target && p.constOf(as.Rhs[0]) == nil {
				return "Horner step v = v·10 + digit (digit accumulation)", true
			}
		}
		if as, ok := ev.stmt.(*ast.AssignStmt); ok && len(as.Rhs) == 1 {
			if be, ok := ast.Unparen(as.Rhs[0]).(*ast.BinaryExpr); ok && be.Op == token.ADD {
				return "Horner step v = v·10^k + digit: digits are appended, the exponent is counted elsewhere (nfrac) or not at all", true
			}
		}
		if idx+1 < len(list) {
			if as, ok := list[idx+1].(*ast.AssignStmt); ok && len(as.Lhs) == 1 && len(as.Rhs) == 1 && p.exprKey(as.Lhs[0]) == ev.target {
				if call, ok := as.Rhs[0].(*ast.CallExpr); ok && strings.HasSuffix(p.calleeName(call), ".add64") {
					// parse counts fraction digits in nfrac (checked below by the normal path when present)
					hasAdj := false
					for _, s := range list[idx+2:] {
						if ifs, ok := s.(*ast.IfStmt); ok {
							for _, t := range ifs.Body.List {
								if _, ok := p.asAdjustment(t); ok {
									hasAdj = true
								}
							}
						}
					}
					if !hasAdj {
						return "Horner step v = v·10 + digit (digit reversal / accumulation without an exponent of its own)", true
					}
					// magnitude of the conditional counter
					for _, s := range list[idx+2:] {
						if ifs, ok := s.(*ast.IfStmt); ok {
							for _, t := range ifs.Body.List {
								if a, ok := p.asAdjustment(t); ok {
									m := a.delta
									if m < 0 {
										m = -m
									}
									if int(m) != ev.k {
										return "", false
									}
								}
							}
						}
					}
					return fmt.Sprintf("Horner step v = v·10^%d + digits with the fraction-digit counter advanced by %d", ev.k, ev.k), true
				}
			}
		}
	}
	// peel-to-zero loops: for v != 0 { v, d = v.divK() ... } (digit extraction): the
	// condition must test the whole value (all limbs), not just the top word
	for i := len(ev.stack) - 2; i >= 0; i-- {
		if f, ok := ev.stack[i].(*ast.ForStmt); ok && f.Cond != nil {
			if be, ok := ast.Unparen(f.Cond).(*ast.BinaryExpr); ok && be.Op == token.NEQ && !ev.up {
				full := p.isZeroTestOf(&ast.BinaryExpr{X: be.X, Op: token.EQL, Y: be.Y}, ev.target)
				nl := 1
				if t := p.typeOf(ast.Unparen(f.Cond).(*ast.BinaryExpr).X); t != nil {
					_ = t
				}
				// count limbs mentioned
				limbs := map[int64]bool{}
				ast.Inspect(be.X, func(n ast.Node) bool {
					if ix, ok := n.(*ast.IndexExpr); ok && p.exprKey(ix.X) == ev.target {
						if i, ok := p.constInt64(ix.Index); ok {
							limbs[i] = true
						}
					}
					return true
				})
				var tt types.Type
				ast.Inspect(f.Body, func(n ast.Node) bool {
					if e, ok := n.(ast.Expr); ok && p.exprKey(e) == ev.target && tt == nil {
						tt = p.typeOf(e)
					}
					return true
				})
				if tt != nil {
					nl = limbsOf(tt)
				}
				if full && (nl <= 1 || len(limbs) == nl) {
					return "digit extraction: the variable is peeled to zero, each remainder is an output digit", true
				}
			}
			break
		}
	}
	if p.isDigitProbe(ev.fd) {
		return "digit probe: a function of one integer value returning one plain integer; no coefficient/exponent pair exists in it", true
	}
	if ev.fn == "Decimal.digits" && !ev.up {
		return "digit extraction in Decimal.digits: remainders are the output digit pairs; trailing zero pairs adjust digs.exp by the digits stripped", true
	}
	switch {
	case ev.fn == "Decimal.Float64" && !ev.up:
		return "binary conversion: each ÷10 is paired with the decimal counter `shift--` and renormalised in base 2 (checked as a pair by magnitude: shift--)", false
	}
	return "", false
}

// expectedSign returns the sign the adjustment must have, when the relation
// between the scaled variable and the adjusted exponent is known.
func (p *Prog) expectedSign(ev scaleEvent, a adjustment, el map[string]bool) (int, bool) {
	natural := func() int {
		if ev.up {
			return -1
		}
		return 1
	}
	// .sig / .exp of the same base
	if strings.HasSuffix(ev.target, ".sig") && a.key == strings.TrimSuffix(ev.target, ".sig")+".exp" {
		return natural(), true
	}
	// natural pairs by construction: (V, E) results of the same decompose/reduce call,
	// or the (sig, exp) arguments of a reduce/round/compose call
	pair := false
	ast.Inspect(ev.fd.Body, func(n ast.Node) bool {
		switch x := n.(type) {
		case *ast.AssignStmt:
			if len(x.Lhs) == 2 && len(x.Rhs) == 1 {
				if call, ok := x.Rhs[0].(*ast.CallExpr); ok {
					cn := p.calleeName(call)
					if cn == "Decimal.decompose" || strings.HasPrefix(cn, "RoundingMode.") {
						if p.exprKey(x.Lhs[0]) == ev.target && p.exprKey(x.Lhs[1]) == a.key {
							pair = true
						}
					}
				}
			}
		case *ast.CallExpr:
			cn := p.calleeName(x)
			si, ei := -1, -1
			switch {
			case strings.HasPrefix(cn, "RoundingMode.reduce") && len(x.Args) >= 3:
				si, ei = 1, 2
			case cn == "RoundingMode.round" && len(x.Args) >= 4:
				si, ei = 2, 3
			case cn == "compose" && len(x.Args) == 3:
				si, ei = 1, 2
			}
			if si >= 0 && p.exprKey(x.Args[si]) == ev.target && p.exprKey(x.Args[ei]) == a.key {
				pair = true
			}
		}
		return true
	})
	// parameters (sig, exp) of the rounding kernel itself
	if ev.fd.Recv != nil && recvTypeName(ev.fd.Recv.List[0].Type) == "RoundingMode" {
		var sigP, expP string
		for _, f := range ev.fd.Type.Params.List {
			for _, n := range f.Names {
				o := p.Info.Defs[n]
				if o == nil {
					continue
				}
				if limbsOf(o.Type()) > 1 || strings.HasPrefix(n.Name, "sig") {
					sigP = p.exprKey(n)
				}
				if b, ok := o.Type().Underlying().(*types.Basic); ok && b.Kind() == types.Int16 {
					expP = p.exprKey(n)
				}
			}
		}
		if a.key == expP && sigP != "" {
			// every significand variable of a reduce function (sig256, sig192, sig) is a view of the same value
			pair = true
		}
	}
	if pair {
		return natural(), true
	}
	// linear definitions: E := A - B, E := A + c, E := A, E := int(A)
	var form map[string]int
	ast.Inspect(ev.fd.Body, func(n ast.Node) bool {
		as, ok := n.(*ast.AssignStmt)
		if !ok || as.Tok != token.DEFINE || len(as.Lhs) != 1 || len(as.Rhs) != 1 || p.exprKey(as.Lhs[0]) != a.key {
			return true
		}
		f := map[string]int{}
		okForm := true
		var walk func(e ast.Expr, sign int)
		walk = func(e ast.Expr, sign int) {
			e = ast.Unparen(e)
			if p.constOf(e) != nil {
				return
			}
			switch x := e.(type) {
			case *ast.BinaryExpr:
				switch x.Op {
				case token.ADD:
					walk(x.X, sign)
					walk(x.Y, sign)
				case token.SUB:
					walk(x.X, sign)
					walk(x.Y, -sign)
				default:
					okForm = false
				}
			case *ast.CallExpr:
				if tv, ok := p.Info.Types[x.Fun]; ok && tv.IsType() && len(x.Args) == 1 {
					walk(x.Args[0], sign)
				} else {
					okForm = false
				}
			default:
				if k := p.exprKey(e); k != "" && el[k] {
					f[k] += sign
				} else {
					okForm = false
				}
			}
		}
		walk(as.Rhs[0], 1)
		if okForm && len(f) > 0 {
			form = f
		}
		return true
	})
	if form == nil {
		return 0, false
	}
	// which natural exponent belongs to the scaled variable?
	var natKey string
	ast.Inspect(ev.fd.Body, func(n ast.Node) bool {
		if as, ok := n.(*ast.AssignStmt); ok && len(as.Lhs) == 2 && len(as.Rhs) == 1 {
			if call, ok := as.Rhs[0].(*ast.CallExpr); ok && p.calleeName(call) == "Decimal.decompose" && p.exprKey(as.Lhs[0]) == ev.target {
				natKey = p.exprKey(as.Lhs[1])
			}
		}
		return true
	})
	if strings.HasSuffix(ev.target, ".sig") {
		natKey = strings.TrimSuffix(ev.target, ".sig") + ".exp"
	}
	if natKey == "" {
		return 0, false
	}
	coef, ok := form[natKey]
	if !ok || coef == 0 {
		return 0, false
	}
	return coef * natural(), true
}

// ruleZeroReset (S7): a dropping loop that leaves early because the
// coefficient became zero must reset the live exponent to its target.
func ruleZeroReset(c *Ctx) {
	p := c.P
	n := 0
	for _, name := range p.sortedFuncNames() {
		fd := p.Funcs[name]
		if fd.Body == nil {
			continue
		}
		if fd.Recv != nil && strings.HasPrefix(recvTypeName(fd.Recv.List[0].Type), "uint") {
			continue
		}
		el := p.exponentLike(fd)
		k := 0
		walkStack(fd.Body, func(nd ast.Node, stack []ast.Node) {
			loop, ok := nd.(*ast.ForStmt)
			if !ok || loop.Cond == nil {
				return
			}
			// condition: E < T / E > T on an exponent-like E that the body moves toward T
			var ekey, ename string
			for _, cj := range conjuncts(loop.Cond) {
				be, ok := cj.(*ast.BinaryExpr)
				if !ok || (be.Op != token.LSS && be.Op != token.GTR) {
					continue
				}
				if kx := p.exprKey(be.X); kx != "" && el[kx] {
					ekey, ename = kx, p.exprName(be.X)
				}
			}
			if ekey == "" {
				return
			}
			// body divides some V and adjusts E
			var vkey string
			adjusts := false
			for _, s := range loop.Body.List {
				if as, ok := s.(*ast.AssignStmt); ok && len(as.Lhs) == 2 && len(as.Rhs) == 1 {
					if call, ok := as.Rhs[0].(*ast.CallExpr); ok && strings.Contains(p.calleeName(call), ".div1") {
						vkey = p.exprKey(as.Lhs[0])
					}
				}
				// scalar form: v = v / 10^k, v /= 10^k (reduce64)
				if as, ok := s.(*ast.AssignStmt); ok && len(as.Lhs) == 1 && len(as.Rhs) == 1 {
					lk := p.exprKey(as.Lhs[0])
					if as.Tok == token.QUO_ASSIGN && lk != "" {
						if z, ok := p.constInt64(as.Rhs[0]); ok && z >= 10 && z%10 == 0 {
							vkey = lk
						}
					} else if be, ok := ast.Unparen(as.Rhs[0]).(*ast.BinaryExpr); ok && as.Tok == token.ASSIGN && be.Op == token.QUO && lk != "" && p.exprKey(be.X) == lk {
						if z, ok := p.constInt64(be.Y); ok && z >= 10 && z%10 == 0 {
							vkey = lk
						}
					}
				}
				if a, ok := p.asAdjustment(s); ok && a.key == ekey {
					adjusts = true
				}
				if ifs, ok := s.(*ast.IfStmt); ok && ifs.Else != nil {
					if eb, ok := ifs.Else.(*ast.BlockStmt); ok {
						for _, t := range eb.List {
							if a, ok := p.asAdjustment(t); ok && a.key == ekey {
								adjusts = true
							}
						}
					}
				}
			}
			if vkey == "" || !adjusts {
				return
			}
			// breaks under a zero test of V
			for _, s := range loop.Body.List {
				ifs, ok := s.(*ast.IfStmt)
				if !ok {
					continue
				}
				isZ := p.isZeroTestOf(ifs.Cond, vkey)
				if !isZ {
					// sig[0]|sig[1]|digit == 0
					if be, ok := ast.Unparen(ifs.Cond).(*ast.BinaryExpr); ok && be.Op == token.EQL {
						if z, ok := p.constInt64(be.Y); ok && z == 0 && strings.Contains(p.exprStr(be.X), "|") {
							uses := false
							ast.Inspect(be.X, func(m ast.Node) bool {
								if e, ok := m.(ast.Expr); ok && p.exprKey(e) == vkey {
									uses = true
								}
								return true
							})
							isZ = uses
						}
					}
				}
				if !isZ || len(ifs.Body.List) == 0 {
					continue
				}
				last := ifs.Body.List[len(ifs.Body.List)-1]
				br, ok := last.(*ast.BranchStmt)
				if !ok || br.Tok != token.BREAK {
					continue
				}
				// exponent-like variables adjusted by the loop body and read after the loop
				adjusted := map[string]string{}
				var scanAdj func(list []ast.Stmt)
				scanAdj = func(list []ast.Stmt) {
					for _, t := range list {
						if a, ok := p.asAdjustment(t); ok && el[a.key] {
							adjusted[a.key] = a.name
						}
						if i2, ok := t.(*ast.IfStmt); ok && i2.Else != nil {
							if eb, ok := i2.Else.(*ast.BlockStmt); ok {
								scanAdj(eb.List)
							}
						}
					}
				}
				scanAdj(loop.Body.List)
				chain := blockChain(append(append([]ast.Node{}, stack...), nd))
				var liveVars []string
				for ak := range adjusted {
					state := 0 // 0 unknown, 1 live, 2 dead
					for ci := len(chain) - 1; ci >= 0 && state == 0; ci-- {
						bp := chain[ci]
						state = p.liveAfter(bp.list[bp.idx+1:], ak)
					}
					if state == 1 {
						liveVars = append(liveVars, ak)
					}
				}
				if len(liveVars) == 0 {
					continue
				}
				k++
				n++
				reset := true
				ename = ""
				for _, ak := range liveVars {
					found := false
					for _, t := range ifs.Body.List {
						if as, ok := t.(*ast.AssignStmt); ok && as.Tok == token.ASSIGN && len(as.Lhs) == 1 && p.exprKey(as.Lhs[0]) == ak {
							found = true
						}
					}
					if !found {
						reset = false
						ename = adjusted[ak]
					}
				}
				if ename == "" {
					ename = adjusted[liveVars[0]]
				}
				c.check(reset, fmt.Sprintf("zeroreset:%s#%d", name, k), ifs, ename+" is reset to its target when the coefficient runs out",
					fmt.Sprintf("%s: the digit-dropping loop leaves early when the coefficient becomes zero but does not set %s to the value the loop was driving it to; the result keeps a stale exponent (wrong quantum)", name, ename), funcProps(name)...)
			}
		})
	}
	if n < 6 {
		c.undecided("zeroreset.count", nil, fmt.Sprintf("only %d early-exit dropping loops found", n))
	}
}

var _ = big.NewInt

// isDigitProbe: a function of one plain integer / limb value whose only
// result is one plain integer (leading digits, digit counts). No coefficient
// leaves it, so there is no sig·10^exp to conserve and no dropped digit can
// reach a result coefficient.
func (p *Prog) isDigitProbe(fd *ast.FuncDecl) bool {
	if fd == nil || fd.Type.Results == nil || len(fd.Type.Results.List) != 1 || len(fd.Type.Results.List[0].Names) > 1 {
		return false
	}
	rt := p.typeOf(fd.Type.Results.List[0].Type)
	if rt == nil || limbsOf(rt) != 1 {
		return false
	}
	var ins []types.Object
	if r := recvObj(p, fd); r != nil {
		ins = append(ins, r)
	}
	ins = append(ins, paramObjs(p, fd)...)
	if len(ins) != 1 || ins[0] == nil || limbsOf(ins[0].Type()) == 0 {
		return false
	}
	return len(p.exponentLike(fd)) == 0
}

// callersOf lists the package functions that call name.
func (p *Prog) callersOf(name string) []string {
	var out []string
	for _, fn := range p.sortedFuncNames() {
		fd := p.Funcs[fn]
		if fd.Body == nil {
			continue
		}
		found := false
		ast.Inspect(fd.Body, func(n ast.Node) bool {
			if call, ok := n.(*ast.CallExpr); ok && p.calleeName(call) == name {
				found = true
			}
			return !found
		})
		if found {
			out = append(out, fn)
		}
	}
	return out
}

// ruleRebuild (E4.rebuild): a coefficient that came out of decompose() together with an exponent is
// set to zero and rebuilt digit by digit (`X = X.mul64(10^k)` then `+ digit` in a loop: the digit
// reversal of Exp2/Exp10). Its old exponent no longer describes it: (a) the paired exponent must be
// assigned again before it is read on every path from the zeroing statement; (b) if it is reset to a
// constant in front of the loop it tracks the rebuilt coefficient, so the loop must step it by k per
// multiplication by 10^k.
func ruleRebuild(c *Ctx) {
	p := c.P
	n := 0
	for _, name := range p.sortedFuncNames() {
		fd := p.Funcs[name]
		if fd.Body == nil {
			continue
		}
		pair := map[string]string{} // coefficient key -> exponent key
		pairName := map[string]string{}
		ast.Inspect(fd.Body, func(nd ast.Node) bool {
			if as, ok := nd.(*ast.AssignStmt); ok && len(as.Lhs) == 2 && len(as.Rhs) == 1 {
				if call, ok := as.Rhs[0].(*ast.CallExpr); ok && p.calleeName(call) == "Decimal.decompose" {
					if a, b := p.exprKey(as.Lhs[0]), p.exprKey(as.Lhs[1]); a != "" && b != "" {
						pair[a] = b
						pairName[a] = p.exprStr(as.Lhs[1])
					}
				}
			}
			return true
		})
		if len(pair) == 0 {
			continue
		}
		k := 0
		walkStack(fd.Body, func(nd ast.Node, stack []ast.Node) {
			as, ok := nd.(*ast.AssignStmt)
			if !ok || as.Tok != token.ASSIGN || len(as.Lhs) != 1 || len(as.Rhs) != 1 {
				return
			}
			cl, ok := ast.Unparen(as.Rhs[0]).(*ast.CompositeLit)
			if !ok || len(cl.Elts) != 0 {
				return
			}
			xk := p.exprKey(as.Lhs[0])
			ek, ok := pair[xk]
			if !ok {
				return
			}
			full := append(append([]ast.Node{}, stack...), nd)
			list, idx := enclosingBlock(full)
			if list == nil {
				return
			}
			// the rebuilding loop: one of the next statements, multiplying X by a power of ten
			var loop *ast.ForStmt
			log10 := 0
			resetConst := false
			for _, s := range list[idx+1:] {
				if f, ok := s.(*ast.ForStmt); ok {
					ast.Inspect(f.Body, func(m ast.Node) bool {
						if a2, ok := m.(*ast.AssignStmt); ok && len(a2.Lhs) == 1 && len(a2.Rhs) == 1 && p.exprKey(a2.Lhs[0]) == xk {
							if call, ok := a2.Rhs[0].(*ast.CallExpr); ok && len(call.Args) == 1 && strings.HasSuffix(p.calleeName(call), ".mul64") {
								if sel, ok := call.Fun.(*ast.SelectorExpr); ok && p.exprKey(sel.X) == xk {
									if kv, ok := constBig(p.constOf(call.Args[0])); ok {
										for e := 1; e < 20; e++ {
											if kv.Cmp(pow10(e)) == 0 {
												log10 = e
											}
										}
									}
								}
							}
						}
						return true
					})
					if log10 > 0 {
						loop = f
					}
					break
				}
				if a2, ok := s.(*ast.AssignStmt); ok && a2.Tok == token.ASSIGN && len(a2.Lhs) == 1 && p.exprKey(a2.Lhs[0]) == ek && len(a2.Rhs) == 1 && p.constOf(a2.Rhs[0]) != nil {
					resetConst = true
					continue
				}
				if _, ok := s.(*ast.AssignStmt); !ok {
					break
				}
			}
			if loop == nil {
				return
			}
			k++
			n++
			key := fmt.Sprintf("rebuild:%s#%d", name, k)
			// (a) the exponent is assigned before it is read
			stale := false
			if !resetConst {
				stale = p.staleRead(full, ek)
			}
			c.check(!stale, key+":stale", as, pairName[xk]+" is assigned again before it is read once its coefficient has been rebuilt",
				fmt.Sprintf("%s: %s is set to zero and rebuilt digit by digit, but on some path %s, which described the old coefficient, is read before it is assigned again", name, p.exprStr(as.Lhs[0]), pairName[xk]), funcProps(name)...)
			// (b) a reset exponent is stepped inside the loop
			if resetConst {
				step := int64(0)
				for _, s := range loop.Body.List {
					if a, ok := p.asAdjustment(s); ok && a.key == ek {
						step += a.delta
					}
				}
				c.check(step == -int64(log10), key+":step", loop, fmt.Sprintf("%s moves by %d per multiplication by 10^%d", pairName[xk], -log10, log10),
					fmt.Sprintf("%s: %s is reset in front of the loop that rebuilds %s digit by digit, so it must decrease by %d for every multiplication by 10^%d in the loop; it moves by %d", name, pairName[xk], p.exprStr(as.Lhs[0]), log10, log10, step), funcProps(name)...)
			}
		})
	}
	if n < 2 {
		c.undecided("rebuild.count", nil, fmt.Sprintf("only %d rebuilt coefficients found", n))
	}
}

// staleRead: walking outward from the statement at the end of stack, is the variable read before it is
// assigned on some path? (the dual of remainderKilled: here an assignment settles a path, a read is the finding)
func (p *Prog) staleRead(stack []ast.Node, key string) bool {
	cur := stack[len(stack)-1]
	for i := len(stack) - 2; i >= 0; i-- {
		var list []ast.Stmt
		switch par := stack[i].(type) {
		case *ast.BlockStmt:
			list = par.List
		case *ast.CaseClause:
			list = par.Body
		case *ast.FuncDecl, *ast.FuncLit:
			return false
		}
		if list != nil {
			for j, s := range list {
				if ast.Node(s) == cur {
					for _, t := range list[j+1:] {
						if as, ok := t.(*ast.AssignStmt); ok && !p.readsVar(as, key) {
							for _, l := range as.Lhs {
								if p.exprKey(l) == key {
									return false // assigned before any read
								}
							}
						}
						if p.readsVar(t, key) {
							return true
						}
						if _, isRet := t.(*ast.ReturnStmt); isRet {
							return false
						}
					}
				}
			}
		}
		cur = stack[i]
	}
	return false
}

// ruleDropAfterScale (E7.dropafter): an operand may be dropped as "sticky only" (`X = T{}` under a test of
// the remaining exponent gap) only once the other operand's coefficient has been scaled up as far as it
// goes: the gap then measures the distance to the other operand's last digit. In the statement list that
// holds the guarded drop, every scale-up (`Y = Y.mul64(10^k)`) therefore comes before the drop and none
// after it.
func ruleDropAfterScale(c *Ctx) {
	p := c.P
	n := 0
	isScaleUp := func(s ast.Node) bool {
		found := false
		ast.Inspect(s, func(m ast.Node) bool {
			if a, ok := m.(*ast.AssignStmt); ok && len(a.Lhs) == 1 && len(a.Rhs) == 1 {
				if call, ok := a.Rhs[0].(*ast.CallExpr); ok && len(call.Args) == 1 && strings.HasSuffix(p.calleeName(call), ".mul64") {
					if sel, ok := call.Fun.(*ast.SelectorExpr); ok && p.exprKey(sel.X) != "" && p.exprKey(sel.X) == p.exprKey(a.Lhs[0]) {
						found = true
					}
				}
			}
			return !found
		})
		return found
	}
	for _, name := range []string{"Decimal.add", "decomposed192.add", "decomposed192.sub"} {
		fd := c.fn(name)
		if fd == nil || fd.Body == nil {
			continue
		}
		k := 0
		walkStack(fd.Body, func(nd ast.Node, stack []ast.Node) {
			as, ok := nd.(*ast.AssignStmt)
			if !ok || as.Tok != token.ASSIGN || len(as.Lhs) != 1 || len(as.Rhs) != 1 {
				return
			}
			cl, ok := ast.Unparen(as.Rhs[0]).(*ast.CompositeLit)
			if !ok || len(cl.Elts) != 0 || limbsOf(p.typeOf(as.Lhs[0])) < 2 {
				return
			}
			// the outermost if around the drop that compares an integer with a constant: the gap guard
			var guard *ast.IfStmt
			gi := -1
			for i := len(stack) - 1; i >= 0 && guard == nil; i-- {
				if ifs, ok := stack[i].(*ast.IfStmt); ok {
					if _, op, _, ok := p.normCmp(ifs.Cond); ok && (op == token.GTR || op == token.LEQ) {
						guard, gi = ifs, i
					}
				}
			}
			if guard == nil {
				return
			}
			list, idx := enclosingBlock(stack[:gi+1])
			if list == nil {
				return
			}
			k++
			n++
			before, after := 0, 0
			for j, s := range list {
				if j < idx && isScaleUp(s) {
					before++
				}
				if j > idx && isScaleUp(s) {
					after++
				}
			}
			c.check(before > 0 && after == 0, fmt.Sprintf("dropafter:%s#%d", name, k), guard, "the operand is dropped only after the other coefficient has been scaled up",
				fmt.Sprintf("%s: %s is dropped as sticky-only under `%s`, but %d scale-up step(s) of a coefficient come after that test and %d before it in the same branch; the gap only bounds the dropped operand against the other's last digit once that coefficient has been scaled up as far as it goes", name, p.exprStr(as.Lhs[0]), p.exprStr(guard.Cond), after, before), funcProps(name)...)
		})
	}
	if n < 4 {
		c.undecided("dropafter.count", nil, fmt.Sprintf("only %d guarded drops found", n))
	}
}
