package main

import (
	"flag"
	"fmt"
	"path/filepath"
	"sort"
	"strings"
)

type propMeta struct {
	ID          string
	Level       string // category claimed
	LevelText   string
	Technique   string
	Explanation string
	NotDecided  string
	Trusted     []string
	Assumptions []string
	DesignRef   string
	Ready       bool // claimed in MANIFEST.json
}

var commonTrusted = []string{
	"go/parser, go/types and go/constant (x/tools v0.29.0 loader) faithfully represent the source of /repo",
	"Go language semantics of integer arithmetic, shifts, conversions, array indexing and control flow",
	"the rule matchers and specification tables in /verif/tool (reviewed against IEEE 754-2008, the Go math special-case lists and the property statements)",
}

var commonAssume = []string{
	"only the non-test files of the single package in /repo are analysed; no build tags exist",
	"the structural clauses decided are necessary conditions of the property; numeric clauses listed under not_decided are out of reach of a sound static argument here",
	"E7.expfloor: the lower bound of the exponent inside RoundingMode.round is decided in mathematical integers for that variable, i.e. assuming the `exp++` on the carry path does not overflow int16 (it would need an exponent of 32767 there)",
}

var propMetas = []*propMeta{
	{ID: "C01", Ready: true, Level: "other", DesignRef: "DESIGN.md §4 C01, §3 E1/E4/E6/E7/E8/E9",
		Technique:   "static analysis: delegation equivalence, rounding decision-table extraction (288 cells), class-domain abstract interpretation of Add/Sub dispatch, scale/exponent pairing, sticky accounting, guard dominance",
		LevelText:   "Structural necessary conditions of correct rounding decided on every path: wrappers delegate with DefaultRoundingMode (fully decided), the rounding decision table of round() equals the IEEE definition in all 288 abstract cells, every special/zero/cancellation cell of Add/Sub returns the specified class and sign, every ×10^k/÷10^k of a significand is paired with ∓k on its exponent, every dropped remainder reaches the sticky flag, overflow reaches compose only through the Inf guard.",
		Explanation: "Each obligation is one construct (wrapper body, decision-table cell, dispatch cell, scaling event, remainder, guard) decided from the AST and type information of the current /repo; no repository code is executed.",
		NotDecided:  "that the aligned 128-bit add/subtract is arithmetically right, tightness of the 35-digit swallow thresholds, i.e. the numeric result itself"},
	{ID: "C02", Ready: true, Level: "other", DesignRef: "DESIGN.md §4 C02",
		Technique:   "static analysis: delegation equivalence, rounding decision table, class-domain dispatch interpretation of Mul/Quo, scale pairing in long-division loops, constant-table evaluation of divK/product grids",
		LevelText:   "Wrappers, the full special-operand table (0×Inf, x/0, 0/0, Inf/Inf, XOR sign), sign provenance, scale conservation in both division loops and reduce256, remainder→sticky flow, divK divisor constants, partial-product grids and the rounding decision table are decided on all paths.",
		Explanation: "One obligation per construct; see rules_applied.",
		NotDecided:  "quotient-estimate correction in uint128.div/uint192.div, product carries, that the digit loop yields enough digits — the arithmetic"},
	{ID: "C03", Ready: true, Level: "other", DesignRef: "DESIGN.md §4 C03",
		Technique:   "static analysis: class-domain dispatch interpretation of QuoRem (pairs of results), three-exponent scale pairing, guard dominance",
		LevelText:   "The special table for both results, remainder sign provenance, coupled exponent adjustments (exp/qexp/rexp) in all loops, the overflow guards of both results, strictness of the coefficient comparison that guards the (0, x) exit, and that no quotient of a general division is discarded are decided on all paths.",
		Explanation: "One obligation per construct; see rules_applied.",
		NotDecided:  "exactness of the remainder and truncation of the quotient for large exponent gaps (value level)"},
	{ID: "C04", Ready: true, Level: "other", DesignRef: "DESIGN.md §4 C04, §3 E5",
		Technique:   "static analysis: class-domain dispatch interpretation of the comparison family on all 49 class pairs, conditional constant propagation of the exponent gap (-40..40) through Cmp/CmpAbs/Equal, mask-test extraction",
		LevelText:   "All class-pair outcomes (NaN, infinities, zeros, opposite signs, Min/Max/Compare orientation through Cmp summaries) and, for every exponent gap, that both coefficients are brought to the same scale before the final comparison are decided.",
		Explanation: "Dispatch cells and one obligation per (function, gap, sink).",
		NotDecided:  "the magnitude comparison of two same-sign finite operands after alignment (early-return conditions on coefficient order, the trunc tie-break)"},
	{ID: "C05", Ready: true, Level: "other", DesignRef: "DESIGN.md §4 C05, §3 E10",
		Technique:   "static analysis: extraction of the lexer automaton from the flag assignments of parseNumber and language-equality check against the documented grammar; special-name matcher tables; error-type mapping; narrow-accumulator and early-out admissibility guards",
		LevelText:   "The accepted language equals the documented grammar for both separator modes, the special names are matched case-insensitively at lengths 3/8 only, error types map to ErrSyntax/ErrRange, MustParse panics iff parse errs, zero keeps its sign, counters cannot wrap and early-outs are admissible, and the final rounding goes through reduce128 with DefaultRoundingMode and the Inf guard.",
		Explanation: "Automaton states/transitions and one obligation per construct.",
		NotDecided:  "that the accumulated coefficient equals the digits read and that the result is the correct rounding (value level)"},
	{ID: "C06", Ready: true, Level: "other", DesignRef: "DESIGN.md §4 C06",
		Technique:   "static analysis: constant call-argument and layout-threshold extraction for the four default text paths, table evaluation (digitPairs, special texts), call-graph reachability (no rounding on default paths)",
		LevelText:   "Special texts, the -4/6 layout thresholds and two-digit exponent padding on all four default paths, the digit-pair table, absence of digits.round on default paths and privacy of the unsafe string buffer are decided.",
		Explanation: "One obligation per construct.",
		NotDecided:  "digit extraction correctness, absence of superfluous digits, round trip through Parse (value level)"},
	{ID: "C07", Ready: true, Level: "other", DesignRef: "DESIGN.md §4 C07",
		Technique:   "static analysis: decision-table extraction of digits.round (half-even), flag-character to field map agreement between parseFormat and Decimal.Format, round-before-emit dominance",
		LevelText:   "digits.round is half-to-even in every abstract cell, both flag parsers map the same characters to the same fields with fmt's '-'/'0' interaction, and every verb arm rounds before emitting.",
		Explanation: "One obligation per cell/construct.",
		NotDecided:  "padding arithmetic, carry propagation over runs of 9, %g precision bookkeeping, general agreement with package fmt"},
	{ID: "C08", Ready: true, Level: "other", DesignRef: "DESIGN.md §4 C08",
		Technique:   "static analysis: delegation equivalence, dispatch interpretation, Ceil/Floor increment-direction table, scale pairing, narrowing-conversion guards",
		LevelText:   "Package functions equal the method forms with the stated constants (fully decided), specials pass through, zero keeps sign, Round uses the shared decision table, Ceil/Floor increment iff sticky and sign match, digit dropping is exponent-paired, and every compose is range-guarded including the tiny-value branch and the negation of dp.",
		Explanation: "One obligation per construct.",
		NotDecided:  "never farther than one quantum, idempotence, the quantised value itself"},
	{ID: "C09", Ready: true, Level: "other", DesignRef: "DESIGN.md §4 C09",
		Technique:   "static analysis: delegation equivalence, binary64 field-constant evaluation, dispatch interpretation of float classes, decimal/binary scale pairing, sticky accounting",
		LevelText:   "NaN/Inf/zero mapping both ways, Float32/FromFloat32 delegation, IEEE binary64 field constants, scale pairing incl. mul1e38↔-38, shifted-out bits→sticky, rounding via reduce256 with the default mode behind the Inf guard, admissible Float64 early-outs, an exact power-of-ten factor in Decimal.Float (fresh big.Float, SetInt only), in-range narrowing conversions, and read-only use of the big.Float argument are decided.",
		Explanation: "One obligation per construct.",
		NotDecided:  "faithfulness of Float64, exactness of FromFloat64, the round-trip identity (value level)"},
	{ID: "C10", Ready: true, Level: "other", DesignRef: "DESIGN.md §4 C10",
		Technique:   "static analysis: body-shape verification of FromInt64/FromUint64, saturation-bound constant evaluation in IntN/UintN, who-may-panic, truncating-consumer list, input immutability",
		LevelText:   "Exact-by-construction small-integer constructors, saturated bounds and overflow comparison constants of IntN/UintN, panics only for NaN, blank remainders only in truncating consumers, FromInt copies before mutating and folds remainders into sticky, FromRat delegates to FromInt/Quo, the saturating exits are unreachable for a zero coefficient whatever its exponent (interval analysis with infeasible paths), narrowing conversions are in range, nil-able destinations are dereferenced only when non-nil; also analysed under GOARCH=386 in the thorough tier.",
		Explanation: "One obligation per construct.",
		NotDecided:  "the converted values themselves"},
	{ID: "C11", Ready: true, Level: "other", DesignRef: "DESIGN.md §4 C11, App. F",
		Technique:   "static analysis: dispatch interpretation, admissible-interval computation for early-out thresholds, narrowing-conversion guards, scale pairing",
		LevelText:   "Zero/NaN/Inf pass through with e=0, the early-out thresholds of New and Ldexp are admissible (computed from operand ranges), int16 conversions are in range, and rounding goes through reduce with the Inf guard.",
		Explanation: "One obligation per construct.",
		NotDecided:  "exactness, 0.1 <= |frac| < 1"},
	{ID: "C12", Ready: true, Level: "proof", DesignRef: "DESIGN.md §4 C12, §3 E3",
		Technique:   "static analysis: partial evaluation of MarshalBinary/UnmarshalBinary over 128 symbolic input bits (concrete control, bit-provenance data; no concrete input exists), byte tables shown to be inverse big-endian bijections, bit-field algebra of compose/decompose against the IEEE 754-2008 BID layout, decoding of every Decimal literal",
		LevelText:   "Proof by exhaustive structural decision: the writer and the reader are evaluated with every input bit symbolic (loops unrolled, helpers entered, anything not understood is undecided): each output bit is shown to be exactly one input bit, the two maps are inverse big-endian bijections of hi‖lo, hence bit-for-bit round trip for all 2^128 patterns; every length other than 16 (evaluated for the ranges [0,15] and [17,∞)) returns an error before any read or store; compose/decompose fields equal the BID layout for both forms and the form switch is at 2^113; every Decimal literal decodes to the value its constructor claims.",
		Explanation: "Every obligation must be discharged; obligations = table entries, body shapes, guards, field facts, literals.",
		NotDecided:  "nothing of the stated property beyond the trusted base (values produced by arithmetic are C01.. concerns)",
		Trusted:     []string{"Go semantics of shifts, byte() truncation and array indexing", "the body-shape matcher of rules_layout.go", "go/types constant evaluation"}},
	{ID: "C13", Ready: true, Level: "other", DesignRef: "DESIGN.md §4 C13",
		Technique:   "static analysis: constant call-argument extraction of MarshalJSON, commit-on-success path check of UnmarshalJSON, lexer automaton with separators disabled",
		LevelText:   "NaN/Inf give *json.UnsupportedValueError, MarshalJSON calls the emitters with all sign/pad flags false and width 0, UnmarshalJSON returns before any store on null, stores only on the success path, returns non-nil on every failure path, and the lexer rejects '_' everywhere when separators are disabled.",
		Explanation: "One obligation per construct.",
		NotDecided:  "RFC 8259 validity of every emitted token, value equality; direct calls accept some non-JSON numerals (+1, 01, .5) that encoding/json never forwards"},
	{ID: "C14", Ready: true, Level: "other", DesignRef: "DESIGN.md §4 C14",
		Technique:   "static analysis: byte-table extraction of Decompose, exact-or-error remainder flow in Compose, call-graph unreachability of rounding, commit on success",
		LevelText:   "Decompose writes the big-endian coefficient table and trims leading zeros, forms 1/2 for Inf/NaN; in Compose every division remainder is tested and the non-zero path returns an error, no rounding function is reachable, unknown forms are errors, the receiver is stored only on success, scaling is exponent-paired and range-guarded, digit-stripping loops strip only digits that cannot be kept, the coefficient handed to compose is within range (interval analysis), and a length copy is not used after the slice is re-sliced.",
		Explanation: "One obligation per construct.",
		NotDecided:  "arithmetic of the staged reduction"},
	{ID: "C15", Ready: true, Level: "other", DesignRef: "DESIGN.md §4 C15, §3 E9, App. A",
		Technique:   "static analysis: class-domain abstract interpretation of every operation's dispatch prologue against an IEEE 754 / Go math specification table; mask-test partition check of the class predicates; payload registry agreement",
		LevelText:   "For ~35 operations and every tuple of operand classes {NaN,±Inf,±0,±finite(,±1)} the outcome on every path equals the specification (class, sign, payload triple, or SAME operand); the class predicates partition all bit patterns; payload packing, names and arity agree; NaN is constructed only in dispatch cells.",
		Explanation: "One obligation per (operation, class tuple) cell plus layout/payload facts.",
		NotDecided:  "Pow cells that depend on |x| vs 1 or on the parity of y beyond the code's own opaque predicates (both outcomes are required to be individually admissible)"},
	{ID: "C16", Ready: true, Level: "other", DesignRef: "DESIGN.md §4 C16",
		Technique:   "static analysis: dispatch interpretation, constant evaluation of ln tables to 256 bits, scale pairing and sticky accounting in decomposed192 primitives, dropped-factor liveness",
		LevelText:   "Special/zero dispatch, the ln/ln10/ln2/invLn10/invLn2/10^57 constants, scale conservation in all 192-bit primitives and the integer/fraction split of Exp2/Exp10, liveness of every scaled value, and range exits are decided.",
		Explanation: "One obligation per construct.",
		NotDecided:  "one-ulp accuracy, exactness of exactly representable results, series convergence"},
	{ID: "C17", Ready: true, Level: "other", DesignRef: "DESIGN.md §4 C17",
		Technique:   "static analysis: dispatch interpretation of Sqrt/Cbrt, result-sign provenance, scale pairing in primitives",
		LevelText:   "Zeros/+Inf(/-Inf) returned, negative→NaN(Sqrt,…), result sign provenance, final rounding via reduce192 behind the Inf guard, and scale conservation in the primitives are decided.",
		Explanation: "One obligation per construct.",
		NotDecided:  "convergence of the Heron/Halley iterations, correct rounding, perfect squares/cubes"},
	{ID: "C18", Ready: true, Level: "other", DesignRef: "DESIGN.md §4 C18",
		Technique:   "static analysis: delegation equivalence, dispatch interpretation of the Pow shortcut ladder on 81 class pairs, p10 table evaluation, early-out admissibility, sign-consistency of round and compose",
		LevelText:   "The wrapper, the shortcut ladder (y=0, x=1, y=±1, NaN, ±0/±Inf bases, negative base with non-integer y), the p10 tables, the admissible power-of-ten early-out, 64-bit exponent arithmetic bounds and result-sign consistency are decided.",
		Explanation: "One obligation per cell/construct.",
		NotDecided:  "accuracy of log→mul→exp, overflow/underflow thresholds on the general path"},
	{ID: "C19", Ready: true, Level: "other", DesignRef: "DESIGN.md §4 C19",
		Technique:   "static analysis: raw-bits layering (who reads lo/hi), dispatch interpretation (verdicts hold for every encoding of a class), Canonical commit-idiom loops",
		LevelText:   "Raw words are read only by the encoding layer so every operation sees operands only as (class, sign, coefficient, exponent); Canonical returns bare encodings for specials/zeros and its loops move the exponent toward the bias in exponent-paired commit steps bounded by the coefficient limit.",
		Explanation: "One obligation per construct.",
		NotDecided:  "that different (coefficient, exponent) pairs of one value give equal results — the arithmetic again"},
	{ID: "C20", Ready: true, Level: "other", DesignRef: "DESIGN.md §4 C20, §3 E11",
		Technique:   "static analysis: who-may-panic set with dominating guards, shared-state write freedom, import/goroutine freedom, input immutability, loop-progress rule, compiler bounds-check-elimination cross-reference",
		LevelText:   "Explicit panics are exactly the documented ones and guarded; no package-level state is written and no concurrency primitive is used, hence data-race freedom for all interleavings that do not write DefaultRoundingMode; pointer/slice inputs are only read; every loop makes progress on a variable its condition reads; in the thorough tier the unproven bounds checks reported by the compiler are pinned to a reviewed list.",
		Explanation: "One obligation per construct.",
		NotDecided:  "non-zero divisors at the variable Div64 sites, data invariants behind some bounds checks, termination bounds (only progress), determinism of math/big and fmt (assumed)"},
}

var propMetaByID = map[string]*propMeta{}

func init() {
	for _, pm := range propMetas {
		if pm.Trusted == nil {
			pm.Trusted = commonTrusted
		}
		pm.Assumptions = append([]string{}, commonAssume...)
		if pm.NotDecided != "" {
			pm.Assumptions = append(pm.Assumptions, "NOT decided by this check: "+pm.NotDecided)
		}
		propMetaByID[pm.ID] = pm
	}
}

// claimed reports whether at least one rule serves the property.
func claimed(id string) bool {
	for i := range rules {
		if hasProp(rules[i].Props, id) {
			return true
		}
	}
	return false
}

func cmdManifest(args []string) int {
	fs := flag.NewFlagSet("manifest", flag.ExitOnError)
	verif := fs.String("verif", defaultVerifDir(), "verif directory")
	fs.Parse(args)
	type lvl struct {
		Category  string `json:"category"`
		Text      string `json:"text"`
		DesignRef string `json:"design_ref"`
	}
	type chk struct {
		PropertyID string `json:"property_id"`
		Quick      string `json:"quick_cmd"`
		Thorough   string `json:"thorough_cmd"`
		Evidence   string `json:"evidence_file"`
		Replay     string `json:"replay_cmd_template"`
		Engine     string `json:"engine"`
		Level      lvl    `json:"level_claimed"`
		Note       string `json:"level_note"`
		Technique  string `json:"technique"`
	}
	type na struct {
		PropertyID string `json:"property_id"`
		Reason     string `json:"reason"`
	}
	type eng struct {
		Name   string   `json:"name"`
		Path   string   `json:"path"`
		Serves []string `json:"serves_properties"`
		Kind   string   `json:"kind_free_text"`
	}
	var checks []chk
	var nas []na
	for _, pm := range propMetas {
		if !claimed(pm.ID) || !pm.Ready {
			nas = append(nas, na{pm.ID, "under construction: the rule engines serving this property (DESIGN.md §4) are not all built yet, so it is not claimed at this commit"})
			continue
		}
		var rs []string
		for i := range rules {
			if hasProp(rules[i].Props, pm.ID) {
				rs = append(rs, rules[i].ID)
			}
		}
		checks = append(checks, chk{
			PropertyID: pm.ID,
			Quick:      "./bin/dverif check -prop " + pm.ID + " -tier quick",
			Thorough:   "./bin/dverif check -prop " + pm.ID + " -tier thorough",
			Evidence:   "/verif/evidence/" + pm.ID + ".json",
			Replay:     "./bin/dverif replay {path}",
			Engine:     "dverif",
			Level:      lvl{pm.Level, pm.LevelText, pm.DesignRef},
			Note:       "Rules: " + strings.Join(rs, ", ") + ". Trusted: go/types + the rule matchers and specification tables in /verif/tool. NOT decided: " + pm.NotDecided + ".",
			Technique:  pm.Technique,
		})
	}
	engByFile := map[string]*eng{}
	for i := range rules {
		r := &rules[i]
		name := strings.SplitN(r.ID, ".", 2)[0]
		e := engByFile[name]
		if e == nil {
			e = &eng{Name: name, Path: "/verif/tool", Kind: "static analysis over go/ast + go/types (x/tools v0.29.0 loader)"}
			engByFile[name] = e
		}
		for _, p := range r.Props {
			if !hasProp(e.Serves, p) {
				e.Serves = append(e.Serves, p)
			}
		}
	}
	var engs []eng
	for _, e := range engByFile {
		sort.Strings(e.Serves)
		engs = append(engs, *e)
	}
	sort.Slice(engs, func(i, j int) bool { return engs[i].Name < engs[j].Name })
	if nas == nil {
		nas = []na{}
	}
	m := map[string]interface{}{
		"version":   1,
		"setup_cmd": "./setup.sh",
		"hooks": map[string]interface{}{
			"guard":            "verif",
			"enable":           "none needed: the checks read /repo's source as it is; no hook or instrumentation exists",
			"baseline_off_cmd": "cd /repo && go test -vet=off -count=1 -timeout 25m ./...",
			"source_commits":   []string{},
			"add_only":         true,
		},
		"engines":        engs,
		"checks":         checks,
		"not_applicable": nas,
		"notes":          "All checks are static analyses of /repo's current working tree (loaded and type-checked on every run; nothing from /repo is executed). Each property is claimed through structural necessary conditions and fully decided sub-clauses; the numeric clauses listed as NOT decided in each level_note and in DESIGN.md §4 are outside what a sound static argument reaches here. Genuine defects found are repaired by fix: commits in /repo or listed in /verif/known_findings.txt.",
	}
	if err := writeJSON(filepath.Join(*verif, "MANIFEST.json"), m); err != nil {
		fmt.Println(err)
		return 1
	}
	fmt.Printf("MANIFEST.json: %d checks, %d not_applicable\n", len(checks), len(nas))
	return 0
}
