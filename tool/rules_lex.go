package main

import (
	"fmt"
	"go/ast"
	"go/token"
	"go/types"
	"sort"
	"strings"
)

// E10 R-LEX (a): the automaton hidden in parseNumber's flags.

var lexClasses = []struct {
	name  string
	bytes []int64
	ex    string
}{
	{"D", []int64{'0', '1', '5', '9'}, "7"},
	{"P", []int64{'.'}, "."},
	{"E", []int64{'E', 'e'}, "e"},
	{"U", []int64{'_'}, "_"},
	{"+", []int64{'+'}, "+"},
	{"-", []int64{'-'}, "-"},
	{"X", []int64{0, ' ', ',', '/', ':', 'D', 'F', 'd', 'f', 'x', '^', '`', 0x7f, 0x80, 0xff}, "x"},
}

// grammar DFA (DESIGN.md Appendix C)
type gState int

const (
	gS0 gState = iota
	gI
	gIU
	gF0d
	gF0n
	gF
	gFU
	gE0
	gES
	gX
	gXU
	gDead
)

func gramStep(s gState, c string, sep bool) gState {
	switch s {
	case gS0:
		switch c {
		case "D":
			return gI
		case "P":
			return gF0n
		}
	case gI:
		switch c {
		case "D":
			return gI
		case "U":
			if sep {
				return gIU
			}
		case "P":
			return gF0d
		case "E":
			return gE0
		}
	case gIU:
		if c == "D" {
			return gI
		}
	case gF0d:
		switch c {
		case "D":
			return gF
		case "E":
			return gE0
		}
	case gF0n:
		if c == "D" {
			return gF
		}
	case gF:
		switch c {
		case "D":
			return gF
		case "U":
			if sep {
				return gFU
			}
		case "E":
			return gE0
		}
	case gFU:
		if c == "D" {
			return gF
		}
	case gE0:
		switch c {
		case "D":
			return gX
		case "+", "-":
			return gES
		}
	case gES:
		if c == "D" {
			return gX
		}
	case gX:
		switch c {
		case "D":
			return gX
		case "U":
			if sep {
				return gXU
			}
		}
	case gXU:
		if c == "D" {
			return gX
		}
	}
	return gDead
}

func gramAccept(s gState) bool { return s == gI || s == gF0d || s == gF || s == gX }

type lexState struct {
	phase int
	flags string // valuation of the flag variables, e.g. "101000"
}

func ruleLexer(c *Ctx) {
	p := c.P
	fd := c.fn("parseNumber")
	if fd == nil {
		return
	}
	props := []string{"C05", "C13", "C06"}
	// the two scanning loops and the acceptance test that follows
	var loops []*ast.ForStmt
	var accept *ast.IfStmt
	for i, s := range fd.Body.List {
		if f, ok := s.(*ast.ForStmt); ok && len(loops) < 2 {
			loops = append(loops, f)
			if len(loops) == 2 && i+1 < len(fd.Body.List) {
				accept, _ = fd.Body.List[i+1].(*ast.IfStmt)
			}
		}
	}
	if len(loops) != 2 || accept == nil {
		c.undecided("lex.shape", fd, "parseNumber must consist of two scanning loops followed by the acceptance test", props...)
		return
	}
	ps := paramObjs(p, fd) // d, neg, sepallowed
	if len(ps) != 3 {
		c.undecided("lex.shape", fd, "parseNumber(d, neg, sepallowed) expected", props...)
		return
	}
	// flag variables: bool locals that are read inside the loops or the acceptance test
	var flags []types.Object
	seenF := map[types.Object]bool{}
	note := func(n ast.Node) {
		ast.Inspect(n, func(m ast.Node) bool {
			id, ok := m.(*ast.Ident)
			if !ok {
				return true
			}
			o := p.Info.Uses[id]
			v, ok := o.(*types.Var)
			if !ok || v.Parent() == p.Pkg.Types.Scope() || seenF[o] {
				return true
			}
			if b, ok := v.Type().Underlying().(*types.Basic); ok && b.Kind() == types.Bool {
				isParam := false
				for _, q := range ps {
					if q == o {
						isParam = true
					}
				}
				if !isParam {
					seenF[o] = true
					flags = append(flags, o)
				}
			}
			return true
		})
	}
	// only reads in conditions matter
	for _, l := range loops {
		ast.Inspect(l, func(m ast.Node) bool {
			switch x := m.(type) {
			case *ast.IfStmt:
				note(x.Cond)
			case *ast.ForStmt:
				if x.Cond != nil {
					note(x.Cond)
				}
			case *ast.CaseClause:
				for _, e := range x.List {
					note(e)
				}
			}
			return true
		})
	}
	note(accept.Cond)
	sort.Slice(flags, func(i, j int) bool { return flags[i].Pos() < flags[j].Pos() })
	if len(flags) < 4 || len(flags) > 10 {
		c.undecided("lex.flags", fd, fmt.Sprintf("%d flag variables found", len(flags)), props...)
		return
	}
	var fnames []string
	for _, f := range flags {
		fnames = append(fnames, f.Name())
	}
	// the index variable
	var iObj types.Object
	if loops[0].Post != nil {
		if inc, ok := loops[0].Post.(*ast.IncDecStmt); ok {
			iObj = p.objOf(inc.X)
		}
	}
	if n := len(loops[0].Body.List); iObj == nil && n > 0 {
		// `for cond { ...; i++ }`
		if inc, ok := loops[0].Body.List[n-1].(*ast.IncDecStmt); ok && inc.Tok == token.INC {
			iObj = p.objOf(inc.X)
		}
	}
	if iObj == nil {
		c.undecided("lex.shape", fd, "index variable of the scanning loops not found", props...)
		return
	}
	for _, sep := range []bool{true, false} {
		tag := fmt.Sprintf("sepallowed=%v", sep)
		undecided := ""
		// step: run one loop body
		type stepOut struct {
			next     string
			consumed int
			reject   bool
		}
		memo := map[string][]stepOut{}
		step := func(phase int, fl string, a, b int) []stepOut {
			mk := fmt.Sprintf("%d|%s|%d|%d", phase, fl, a, b)
			if r, ok := memo[mk]; ok {
				return r
			}
			in := newInterp(p)
			in.evalLeaf = func(in *interp, st *state, e ast.Expr) (AV, bool) {
				ix, ok := e.(*ast.IndexExpr)
				if !ok || p.objOf(ix.X) != ps[0] {
					return nil, false
				}
				if p.objOf(ix.Index) == iObj {
					return normSet(append([]int64{}, lexClasses[a].bytes...)), true
				}
				if be, ok := ast.Unparen(ix.Index).(*ast.BinaryExpr); ok && be.Op == token.ADD && p.objOf(be.X) == iObj {
					if k, ok := p.constInt64(be.Y); ok && k == 1 {
						return normSet(append([]int64{}, lexClasses[b].bytes...)), true
					}
				}
				return top, true
			}
			st := newState()
			for i, f := range flags {
				st.vars[f] = avBool{fl[i] == '1'}
			}
			st.vars[ps[2]] = avBool{sep}
			st.vars[iObj] = avInt{0}
			in.curFn = append(in.curFn, fd)
			flows := in.execBlock(loops[phase-1].Body.List, st)
			var outs []stepOut
			seen := map[string]bool{}
			for _, f := range flows {
				var o stepOut
				switch f.kind {
				case flowNext, flowContinue:
					var sb strings.Builder
					okf := true
					for _, fv := range flags {
						b, ok := f.st.vars[fv].(avBool)
						if !ok {
							okf = false
							break
						}
						if b.b {
							sb.WriteByte('1')
						} else {
							sb.WriteByte('0')
						}
					}
					iv, ok := f.st.vars[iObj].(avInt)
					if !okf || !ok {
						undecided = "a flag or the index is not a constant after one step"
						continue
					}
					o = stepOut{next: sb.String(), consumed: 1 + int(iv.v)}
				case flowReturn:
					// must be the syntax error
					t, ok := f.ret.(*avTuple)
					if !ok || len(t.vs) != 2 || t.vs[1].avKey() != "err:parseNumberSyntaxError" {
						undecided = "a scanning loop returns something other than the syntax error: " + f.ret.avKey()
						continue
					}
					o = stepOut{reject: true}
				default:
					undecided = "unexpected control flow in a scanning loop"
					continue
				}
				k := fmt.Sprint(o)
				if !seen[k] {
					seen[k] = true
					outs = append(outs, o)
				}
			}
			if in.overflow {
				undecided = "interpretation budget exceeded"
			}
			memo[mk] = outs
			return outs
		}
		// loop-1 continuation condition: which flags force leaving loop 1?
		mayStay := func(fl string) (stay, leave bool) {
			in := newInterp(p)
			st := newState()
			for i, f := range flags {
				st.vars[f] = avBool{fl[i] == '1'}
			}
			in.curFn = append(in.curFn, fd)
			for _, br := range in.branch(loops[0].Cond, st) {
				if br.val {
					stay = true
				} else {
					leave = true
				}
			}
			return
		}
		accepts := func(fl string) bool {
			in := newInterp(p)
			st := newState()
			for i, f := range flags {
				st.vars[f] = avBool{fl[i] == '1'}
			}
			in.curFn = append(in.curFn, fd)
			rej := false
			for _, br := range in.branch(accept.Cond, st) {
				if br.val {
					rej = true
				}
			}
			return !rej
		}
		// single-symbol NFA transition on a set of lexStates
		init := lexState{1, strings.Repeat("0", len(flags))}
		closure := func(set map[lexState]bool) map[lexState]bool {
			out := map[lexState]bool{}
			for s := range set {
				out[s] = true
				if s.phase == 1 {
					out[lexState{2, s.flags}] = true // loop 1 may end at any time (accumulator full / end of input)
				}
			}
			// states of phase 1 that cannot stay are removed from phase 1
			for s := range out {
				if s.phase == 1 {
					if stay, _ := mayStay(s.flags); !stay {
						delete(out, s)
					}
				}
			}
			return out
		}
		move := func(set map[lexState]bool, a int) map[lexState]bool {
			out := map[lexState]bool{}
			for s := range set {
				for b := range lexClasses {
					for _, o := range step(s.phase, s.flags, a, b) {
						if o.reject {
							continue
						}
						if o.consumed == 1 {
							out[lexState{s.phase, o.next}] = true
						} else if o.consumed == 2 {
							// the fast path swallowed the look-ahead symbol: it must be a digit and
							// leave the flags as two single steps would
							if lexClasses[b].name != "D" {
								undecided = "the two-digit fast path consumes a non-digit look-ahead symbol"
							}
							okSame := false
							for _, o1 := range step(s.phase, s.flags, a, 6) { // single step (look-ahead: other)
								if o1.reject || o1.consumed != 1 {
									continue
								}
								for _, o2 := range step(s.phase, o1.next, b, 6) {
									if !o2.reject && o2.consumed == 1 && o2.next == o.next {
										okSame = true
									}
								}
							}
							if !okSame {
								undecided = "the two-digit fast path leaves the flags in a state that two single digits would not"
							}
						}
					}
				}
			}
			return closure(out)
		}
		keyOf := func(set map[lexState]bool) string {
			var ks []string
			for s := range set {
				ks = append(ks, fmt.Sprintf("%d%s", s.phase, s.flags))
			}
			sort.Strings(ks)
			return strings.Join(ks, ",")
		}
		type node struct {
			set  map[lexState]bool
			g    gState
			path []int
		}
		start := node{closure(map[lexState]bool{init: true}), gS0, nil}
		queue := []node{start}
		visited := map[string]bool{keyOf(start.set) + "|0": true}
		counter := ""
		nStates, nTrans := 0, 0
		nfaStates := map[lexState]bool{}
		for len(queue) > 0 && counter == "" && undecided == "" {
			nd := queue[0]
			queue = queue[1:]
			nStates++
			for s := range nd.set {
				nfaStates[s] = true
			}
			acc := false
			for s := range nd.set {
				if accepts(s.flags) {
					acc = true
				}
			}
			if acc != gramAccept(nd.g) {
				var ex, cl []string
				for _, a := range nd.path {
					ex = append(ex, lexClasses[a].ex)
					cl = append(cl, lexClasses[a].name)
				}
				if acc {
					counter = fmt.Sprintf("%q (classes %s) is accepted by parseNumber but is not a well-formed literal", strings.Join(ex, ""), strings.Join(cl, ""))
				} else {
					counter = fmt.Sprintf("%q (classes %s) is a well-formed literal but parseNumber rejects it", strings.Join(ex, ""), strings.Join(cl, ""))
				}
				break
			}
			for a := range lexClasses {
				ns := move(nd.set, a)
				ng := gramStep(nd.g, lexClasses[a].name, sep)
				if len(ns) == 0 && ng == gDead {
					continue
				}
				nTrans++
				k := keyOf(ns) + "|" + fmt.Sprint(int(ng))
				if !visited[k] {
					visited[k] = true
					queue = append(queue, node{ns, ng, append(append([]int{}, nd.path...), a)})
				}
			}
			if nStates > 5000 {
				undecided = "automaton exploration exceeded 5000 product states"
			}
		}
		key := "lex.language:" + tag
		switch {
		case undecided != "":
			c.undecided(key, fd, "parseNumber ("+tag+"): "+undecided, props...)
		case counter != "":
			c.bad(key, fd, "parseNumber ("+tag+"): the accepted language differs from the documented grammar: "+counter, props...)
		default:
			c.ok(key, fd, fmt.Sprintf("language equality with the documented grammar: flags %v, %d NFA states, %d product states, %d transitions explored", fnames, len(nfaStates), nStates, nTrans), props...)
		}
	}
}
