package main

import (
	"fmt"
	"go/ast"
	"go/token"
	"go/types"
	"math/big"
	"strings"
)

// walkStack visits every node with the stack of its ancestors (outermost first).
func walkStack(root ast.Node, f func(n ast.Node, stack []ast.Node)) {
	var stack []ast.Node
	ast.Inspect(root, func(n ast.Node) bool {
		if n == nil {
			stack = stack[:len(stack)-1]
			return true
		}
		f(n, stack)
		stack = append(stack, n)
		return true
	})
}

// limbs returns the number of 64-bit limbs of a uintN value type (1 for
// scalar integers), or 0.
func limbsOf(t types.Type) int {
	if t == nil {
		return 0
	}
	switch u := t.Underlying().(type) {
	case *types.Array:
		if b, ok := u.Elem().Underlying().(*types.Basic); ok && b.Kind() == types.Uint64 {
			return int(u.Len())
		}
	case *types.Basic:
		if u.Info()&types.IsInteger != 0 {
			return 1
		}
	}
	return 0
}

// scalarBits returns the width of a scalar integer type (uint is taken as 32
// bits under GOARCH=386 by the type checker's sizes).
func (p *Prog) scalarBits(t types.Type) int {
	if p.Pkg.TypesSizes != nil {
		return int(p.Pkg.TypesSizes.Sizeof(t)) * 8
	}
	return 64
}

// conjuncts splits a condition on &&.
func conjuncts(e ast.Expr) []ast.Expr {
	e = ast.Unparen(e)
	if be, ok := e.(*ast.BinaryExpr); ok && be.Op == token.LAND {
		return append(conjuncts(be.X), conjuncts(be.Y)...)
	}
	return []ast.Expr{e}
}

// mulSite describes one in-place multiplication of a significand by a constant.
type mulSite struct {
	fn     string
	stmt   ast.Stmt
	target string // canonical receiver expression ("dSig", "d.sig", "rem64")
	typ    types.Type
	K      *big.Int
	commit bool   // result goes to another variable (tmp := v.mul64(K))
	dest   string // destination of a commit-idiom product
	stack  []ast.Node
	node   ast.Node
}

// exprKey renders a variable/field expression by object identity.
func (p *Prog) exprKey(e ast.Expr) string {
	e = ast.Unparen(e)
	switch x := e.(type) {
	case *ast.Ident:
		if o := p.objOf(x); o != nil {
			return fmt.Sprintf("%s@%d", o.Name(), o.Pos())
		}
	case *ast.SelectorExpr:
		if k := p.exprKey(x.X); k != "" {
			return k + "." + x.Sel.Name
		}
	}
	return ""
}

func (p *Prog) exprName(e ast.Expr) string { return types.ExprString(ast.Unparen(e)) }

// collectMulSites finds v = v.mul64(K), v *= K, v = v*K (+ ...) outside the
// integer kernel.
func (p *Prog) collectMulSites() []mulSite {
	var out []mulSite
	for _, name := range p.sortedFuncNames() {
		fd := p.Funcs[name]
		if fd.Body == nil {
			continue
		}
		if fd.Recv != nil && strings.HasPrefix(recvTypeName(fd.Recv.List[0].Type), "uint") {
			continue // the L0 kernel itself
		}
		walkStack(fd.Body, func(n ast.Node, stack []ast.Node) {
			as, ok := n.(*ast.AssignStmt)
			if !ok {
				return
			}
			st := append(append([]ast.Node{}, stack...), n)
			// v *= K
			if as.Tok == token.MUL_ASSIGN && len(as.Lhs) == 1 {
				if k := p.constOf(as.Rhs[0]); k != nil {
					if kb, ok := constBig(k); ok && kb.Cmp(big.NewInt(1)) > 0 {
						if tv, ok := p.Info.Types[as.Lhs[0]]; ok && limbsOf(tv.Type) == 1 {
							out = append(out, mulSite{fn: name, stmt: as, target: p.exprKey(as.Lhs[0]), typ: tv.Type, K: kb, stack: st, node: as})
						}
					}
				}
				return
			}
			if (as.Tok != token.ASSIGN && as.Tok != token.DEFINE) || len(as.Lhs) != 1 || len(as.Rhs) != 1 {
				return
			}
			rhs := ast.Unparen(as.Rhs[0])
			// v = v.mul64(K)
			if call, ok := rhs.(*ast.CallExpr); ok {
				cn := p.calleeName(call)
				if strings.HasSuffix(cn, ".mul64") && len(call.Args) == 1 {
					kb, okk := constBig(p.constOf(call.Args[0]))
					sel := call.Fun.(*ast.SelectorExpr)
					tv := p.Info.Types[sel.X]
					if !okk {
						return // variable multiplier: not a power-of-ten scaling (uint128.div)
					}
					ms := mulSite{fn: name, stmt: as, target: p.exprKey(sel.X), typ: tv.Type, K: kb, stack: st, node: as}
					if p.exprKey(as.Lhs[0]) != ms.target {
						ms.commit = true
						ms.dest = p.exprKey(as.Lhs[0])
					}
					out = append(out, ms)
				}
				return
			}
			// v = v*K + d  (Horner step on a scalar)
			var findMul func(e ast.Expr) *ast.BinaryExpr
			findMul = func(e ast.Expr) *ast.BinaryExpr {
				e = ast.Unparen(e)
				if be, ok := e.(*ast.BinaryExpr); ok {
					if be.Op == token.MUL {
						return be
					}
					if be.Op == token.ADD {
						if m := findMul(be.X); m != nil {
							return m
						}
						return findMul(be.Y)
					}
				}
				return nil
			}
			if m := findMul(rhs); m != nil && p.constOf(rhs) == nil {
				if kb, ok := constBig(p.constOf(m.Y)); ok && kb.Cmp(big.NewInt(1)) > 0 && p.exprKey(m.X) != "" && p.exprKey(m.X) == p.exprKey(as.Lhs[0]) {
					if tv, ok := p.Info.Types[m.X]; ok && limbsOf(tv.Type) == 1 {
						out = append(out, mulSite{fn: name, stmt: as, target: p.exprKey(m.X), typ: tv.Type, K: kb, stack: st, node: as})
					}
				}
			}
		})
	}
	return out
}

// topWordFact interprets one known fact as an upper bound on the top word
// of `target` (or on the scalar itself).
func (p *Prog) topWordFact(f fact, target string, limbs int) (*big.Int, bool) {
	x, op, k, ok := p.normCmp(f.cond)
	if !ok {
		return nil, false
	}
	if !f.val {
		op = negOp(op)
	}
	if limbs > 1 {
		ix, ok := x.(*ast.IndexExpr)
		if !ok || p.exprKey(ix.X) != target {
			return nil, false
		}
		i, ok := p.constInt64(ix.Index)
		if !ok || int(i) != limbs-1 {
			return nil, false
		}
	} else if p.exprKey(x) != target {
		return nil, false
	}
	switch op {
	case token.LEQ, token.EQL:
		return k, true
	}
	return nil, false
}

// topWordBound is kept for callers that inspect a single condition.
func (p *Prog) topWordBound(cj ast.Expr, target string, limbs int) (*big.Int, bool) {
	return p.topWordFact(fact{cj, true}, target, limbs)
}

// assignsTo reports whether stmt (recursively) assigns target.
func (p *Prog) assignsTo(n ast.Node, target string) bool {
	found := false
	ast.Inspect(n, func(m ast.Node) bool {
		switch x := m.(type) {
		case *ast.AssignStmt:
			for _, l := range x.Lhs {
				if p.exprKey(l) == target {
					found = true
				}
				if ix, ok := ast.Unparen(l).(*ast.IndexExpr); ok && p.exprKey(ix.X) == target {
					found = true
				}
			}
		case *ast.IncDecStmt:
			if p.exprKey(x.X) == target {
				found = true
			}
		}
		return !found
	})
	return found
}

// guardFor finds the tightest dominating bound on target's top word at the
// statement ending the stack, from the facts known there (enclosing loop/if
// conditions, negated else branches, earlier early exits); an assignment to
// the target in between discards older facts.
func (p *Prog) guardFor(stack []ast.Node, target string, limbs int) (*big.Int, ast.Node) {
	site := stack[len(stack)-1]
	facts := p.factsAt(stack, func(s ast.Stmt) bool {
		if s == site || containsNode(s, site) {
			return false
		}
		return p.assignsTo(s, target) && !p.assignmentsExit(s, target)
	})
	var best *big.Int
	for _, f := range facts {
		if b, ok := p.topWordFact(f, target, limbs); ok {
			if best == nil || b.Cmp(best) < 0 {
				best = b
			}
		}
	}
	if best == nil {
		return nil, nil
	}
	return best, site
}

// assignmentsExit reports whether every assignment to target inside n sits in
// a block that ends with continue/break/return, so that control cannot flow
// from the assignment to the statements following n.
func (p *Prog) assignmentsExit(n ast.Node, target string) bool {
	ok := true
	walkStack(n, func(m ast.Node, stack []ast.Node) {
		as, isAs := m.(*ast.AssignStmt)
		if !isAs {
			return
		}
		hit := false
		for _, l := range as.Lhs {
			if p.exprKey(l) == target {
				hit = true
			}
		}
		if !hit {
			return
		}
		exits := false
		for i := len(stack) - 1; i >= 0; i-- {
			if b, isB := stack[i].(*ast.BlockStmt); isB {
				if k := len(b.List); k > 0 {
					switch x := b.List[k-1].(type) {
					case *ast.BranchStmt:
						exits = x.Tok == token.CONTINUE || x.Tok == token.BREAK
					case *ast.ReturnStmt:
						exits = true
					}
				}
				break
			}
		}
		if !exits {
			ok = false
		}
	})
	return ok
}

func containsNode(root, n ast.Node) bool {
	if root == nil {
		return false
	}
	return root.Pos() <= n.Pos() && n.End() <= root.End()
}

func (p *Prog) assignsToExcept(root ast.Node, target string, except ast.Node) bool {
	found := false
	ast.Inspect(root, func(m ast.Node) bool {
		if m == except {
			return false
		}
		switch x := m.(type) {
		case *ast.AssignStmt:
			for _, l := range x.Lhs {
				if p.exprKey(l) == target {
					found = true
				}
			}
		}
		return !found
	})
	return found
}

var two64 = new(big.Int).Lsh(big.NewInt(1), 64)

// G1: multiplication cannot wrap.
func ruleGuardMul(c *Ctx) {
	p := c.P
	sites := p.collectMulSites()
	lim := new(big.Int).SetUint64(coefLimitHi())
	perKey := map[string]int{}
	for _, s := range sites {
		limbs := limbsOf(s.typ)
		base := fmt.Sprintf("mul:%s:%s×%s", s.fn, strings.Split(s.target, "@")[0]+fieldSuffix(s.target), s.K)
		perKey[base]++
		key := fmt.Sprintf("%s#%d", base, perKey[base])
		fp := funcProps(s.fn)
		if limbs == 0 || s.target == "" {
			c.undecided(key, s.node, "multiplication target not understood", fp...)
			continue
		}
		if s.commit {
			p.checkCommit(c, key, s, limbs, lim)
			continue
		}
		bound, guard := p.guardFor(s.stack, s.target, limbs)
		if bound == nil {
			// the guard idioms did not match: ask the interval analysis for the top word at this statement
			if fd := p.Funcs[s.fn]; fd != nil && len(s.stack) > 0 {
				var site ast.Node
				for i := len(s.stack) - 1; i >= 0; i-- {
					if _, ok := s.stack[i].(ast.Stmt); ok {
						site = s.stack[i]
						break
					}
				}
				if site != nil {
					if env, reached := p.envWalk(fd.Body.List, p.paramEnv(fd), site); reached {
						k := s.target
						if limbs > 1 {
							k = s.target + "[" + itoa(limbs-1) + "]"
						}
						if iv, ok := env[k]; ok && iv.hi != nil && iv.hi.Sign() >= 0 {
							// used only when it settles the question; a useless bound falls through to the reviewed list
							t := new(big.Int).Add(iv.hi, big.NewInt(1))
							t.Mul(t, s.K)
							w := uint(64)
							if limbs == 1 {
								w = uint(p.scalarBits(s.typ))
								if b, ok := s.typ.Underlying().(*types.Basic); ok && b.Info()&types.IsUnsigned == 0 {
									w--
								}
							}
							if t.Cmp(new(big.Int).Lsh(big.NewInt(1), w)) <= 0 {
								bound = iv.hi
							}
						}
					}
				}
			}
		}
		if bound == nil {
			if why, ok := g1Reviewed(p, s); ok {
				c.exempt(key, s.node, why, fp...)
			} else {
				c.bad(key, s.node, fmt.Sprintf("%s: ×%s of %s is not dominated by a bound on its top word (a loop/if condition `%s[top] <= C`); the product may wrap", s.fn, s.K, nameOf(s.target), nameOf(s.target)), fp...)
			}
			continue
		}
		var okb bool
		var how string
		if limbs > 1 {
			// top <= bound  =>  v < (bound+1)·2^(64(n-1)); need (bound+1)·K <= 2^64
			t := new(big.Int).Add(bound, big.NewInt(1))
			t.Mul(t, s.K)
			okb = t.Cmp(two64) <= 0
			how = fmt.Sprintf("(%#x+1)·%s <= 2^64", bound, s.K)
		} else {
			w := p.scalarBits(s.typ)
			if b, ok := s.typ.Underlying().(*types.Basic); ok && b.Info()&types.IsUnsigned == 0 {
				w-- // signed
			}
			t := new(big.Int).Mul(bound, s.K)
			// Horner steps add a digit (< K) on top
			t.Add(t, new(big.Int).Sub(s.K, big.NewInt(1)))
			okb = t.Cmp(new(big.Int).Lsh(big.NewInt(1), uint(w))) < 0
			how = fmt.Sprintf("%#x·%s+%s < 2^%d", bound, s.K, new(big.Int).Sub(s.K, big.NewInt(1)), w)
		}
		_ = guard
		c.check(okb, key, s.node, "guarded: "+how,
			fmt.Sprintf("%s: %s is multiplied by %s under the guard top word <= %#x, which does not keep the product in range (%s fails): the multiplication can wrap", s.fn, nameOf(s.target), s.K, bound, how), fp...)
	}
}

func nameOf(target string) string {
	return strings.Split(target, "@")[0] + fieldSuffix(target)
}

func fieldSuffix(target string) string {
	if i := strings.Index(target, "."); i >= 0 {
		return target[i:]
	}
	return ""
}

// checkCommit handles tmp := v.mul64(K); if tmp[top] > LIMIT {break}; v = tmp.
func (p *Prog) checkCommit(c *Ctx, key string, s mulSite, limbs int, lim *big.Int) {
	fp := funcProps(s.fn)
	// the enclosing block
	var block []ast.Stmt
	for i := len(s.stack) - 2; i >= 0; i-- {
		if b, ok := s.stack[i].(*ast.BlockStmt); ok {
			block = b.List
			break
		}
	}
	idx := -1
	for i, st := range block {
		if st == s.stmt {
			idx = i
		}
	}
	if idx < 0 || idx+1 >= len(block) {
		c.undecided(key, s.node, "commit idiom: no check follows the product", fp...)
		return
	}
	ifs, ok := block[idx+1].(*ast.IfStmt)
	if !ok {
		c.undecided(key, s.node, "commit idiom: the product must be range-checked immediately", fp...)
		return
	}
	be, ok := ast.Unparen(ifs.Cond).(*ast.BinaryExpr)
	okc := false
	var cst *big.Int
	accept := false // condition true means "in range"
	if ok {
		if ix, ok := ast.Unparen(be.X).(*ast.IndexExpr); ok && p.exprKey(ix.X) == s.dest {
			if i, ok := p.constInt64(ix.Index); ok && int(i) == limbs-1 {
				cst, _ = constBig(p.constOf(be.Y))
				switch be.Op {
				case token.GTR:
					okc = cst != nil
				case token.LEQ:
					okc, accept = cst != nil, true
				}
			}
		}
	}
	if !okc {
		c.undecided(key, s.node, "commit idiom: the check after the product is not `tmp[top] > LIMIT` / `tmp[top] <= LIMIT`", fp...)
		return
	}
	// the commit v = tmp must happen only on the in-range side
	commitIn := func(n ast.Node) bool {
		f := false
		ast.Inspect(n, func(m ast.Node) bool {
			if as, ok := m.(*ast.AssignStmt); ok && len(as.Lhs) == 1 && len(as.Rhs) == 1 && p.exprKey(as.Lhs[0]) == s.target && p.exprKey(as.Rhs[0]) == s.dest {
				f = true
			}
			return !f
		})
		return f
	}
	sideOK := false
	if accept {
		sideOK = commitIn(ifs.Body)
	} else {
		// if tmp > LIMIT {break/return}; v = tmp afterwards
		exits := false
		if len(ifs.Body.List) > 0 {
			switch x := ifs.Body.List[len(ifs.Body.List)-1].(type) {
			case *ast.BranchStmt:
				exits = x.Tok == token.BREAK
			case *ast.ReturnStmt:
				exits = true
			}
		}
		after := false
		for _, st := range block[idx+2:] {
			if commitIn(st) {
				after = true
			}
		}
		sideOK = exits && after && !commitIn(ifs.Body)
	}
	// the operand is bounded: either a loop guard, or a coefficient (<= 2^50 in
	// the top word after decompose) kept below LIMIT by earlier commits
	bound, _ := p.guardFor(s.stack, s.target, limbs)
	if bound == nil {
		bound = new(big.Int).Lsh(big.NewInt(1), 50) // decompose: top word < 2^50
	}
	t := new(big.Int).Add(bound, big.NewInt(1))
	t.Mul(t, s.K)
	noWrap := t.Cmp(two64) <= 0
	c.check(cst.Cmp(lim) == 0 && sideOK && noWrap, key, s.node, fmt.Sprintf("commit idiom: product kept only while its top word <= %#x (the coefficient limit)", lim),
		fmt.Sprintf("%s: the scaled coefficient is committed under the test against %#x; it must be kept exactly while top word <= %#x (floor((5·2^111-1)/2^64)), committed only on the in-range side, and the operand bound must keep the product from wrapping", s.fn, cst, lim), fp...)
}

// g1Reviewed lists the multiplication sites without an explicit top-word
// guard, each with a structural mini-check and the arithmetic reason.
func g1Reviewed(p *Prog, s mulSite) (string, bool) {
	name := nameOf(s.target)
	switch {
	case s.fn == "FromFloat64" && name == "sig256" && s.K.Cmp(big.NewInt(10)) == 0:
		// for zeros >= 4 { sig256 = sig256.mul64(10); ...; zeros = bits.LeadingZeros64(sig256[3]) }
		for i := len(s.stack) - 2; i >= 0; i-- {
			if f, ok := s.stack[i].(*ast.ForStmt); ok && f.Cond != nil {
				if be, ok := f.Cond.(*ast.BinaryExpr); ok && be.Op == token.GEQ {
					if k, ok := p.constInt64(be.Y); ok && k >= 4 {
						// zeros must be recomputed from the top word at the end of the body
						if n := len(f.Body.List); n > 0 {
							if as, ok := f.Body.List[n-1].(*ast.AssignStmt); ok && len(as.Rhs) == 1 {
								if call, ok := as.Rhs[0].(*ast.CallExpr); ok && p.calleeName(call) == "math/bits.LeadingZeros64" && p.exprKey(as.Lhs[0]) == p.exprKey(be.X) {
									return "guard form `LeadingZeros64(top) >= 4`: top word < 2^60, ×10 < 2^64", true
								}
							}
						}
					}
				}
				break
			}
		}
	case (s.fn == "Exp10" || s.fn == "Exp2") && name == "dSig" && s.K.Cmp(big.NewInt(10)) == 0:
		return "digit-reversal Horner step: the reversed value has at most as many digits as the 128-bit source (<= 39 digits minus the integer part)", true
	case (s.fn == "Exp10" || s.fn == "Exp2") && name == "dSigInt":
		return "bounded by the earlier magnitude exit (dExp <= 4/5 - log10): the integer part is below 10^6", true
	case s.fn == "Decimal.Compose" && name == "sig128" && s.K.Cmp(big.NewInt(10)) == 0:
		// the very next statement must be `if sig128[1] > LIMIT { return <error> }`
		okNext := false
		for i := len(s.stack) - 2; i >= 0; i-- {
			if b, ok := s.stack[i].(*ast.BlockStmt); ok {
				for j, st := range b.List {
					if st == s.stmt && j+1 < len(b.List) {
						if ifs, ok := b.List[j+1].(*ast.IfStmt); ok {
							if bound, ok := p.topWordBound(&ast.BinaryExpr{X: ifs.Cond.(*ast.BinaryExpr).X, Op: token.LEQ, Y: ifs.Cond.(*ast.BinaryExpr).Y}, s.target, 2); ok {
								if be := ifs.Cond.(*ast.BinaryExpr); be.Op == token.GTR && bound.Cmp(new(big.Int).SetUint64(coefLimitHi())) == 0 && len(ifs.Body.List) == 1 {
									if r, ok := ifs.Body.List[0].(*ast.ReturnStmt); ok && len(r.Results) == 1 && p.exprStr(r.Results[0]) != "nil" {
										okNext = true
									}
								}
							}
						}
					}
				}
				break
			}
		}
		if !okNext {
			return "", false
		}
		return "operand <= coefficient limit (the preceding loop divides until sig128[1] <= limit) and the product is checked against the limit right after", true
	}
	return "", false
}

// G2: reduction thresholds keep 34 digits.
func ruleGuardReduce(c *Ctx) {
	p := c.P
	cmax := new(big.Int).Lsh(big.NewInt(5), 111)
	cmax.Sub(cmax, big.NewInt(1))
	divK, _ := p.divKTable()
	lim := coefLimitHi()
	for _, fn := range []string{"RoundingMode.reduce128", "RoundingMode.reduce192", "RoundingMode.reduce256"} {
		fd := c.fn(fn)
		if fd == nil {
			continue
		}
		nThr, nLim := 0, 0
		fp := funcProps(fn)
		walkStack(fd.Body, func(n ast.Node, stack []ast.Node) {
			ifs, ok := n.(*ast.IfStmt)
			if !ok {
				if f, ok := n.(*ast.ForStmt); ok && f.Cond != nil {
					// final loops: for sig[1] > LIMIT { ... div10 }
					for _, cj := range conjuncts(f.Cond) {
						nx, nop, kb, ok := p.normCmp(cj)
						if !ok || nop != token.GTR || !kb.IsUint64() {
							continue
						}
						ix, ok := nx.(*ast.IndexExpr)
						if !ok || limbsOf(p.typeOf(ix.X)) != 2 {
							continue
						}
						if i, ok := p.constInt64(ix.Index); !ok || i != 1 {
							continue
						}
						k := kb.Uint64()
						nLim++
						c.check(k == lim, fmt.Sprintf("reduce.limit:%s#%d", fn, nLim), f, "digits are dropped exactly while the coefficient exceeds 5·2^111-1",
							fmt.Sprintf("%s: the final reduction loop runs while sig[1] > %#x; the coefficient limit is %#x", fn, k, lim), fp...)
					}
				}
				return
			}
			nx, nop, cst, ok := p.normCmp(ifs.Cond)
			if !ok || nop != token.GTR {
				return
			}
			ix, ok := nx.(*ast.IndexExpr)
			if !ok {
				return
			}
			vt := p.Info.Types[ix.X].Type
			nl := limbsOf(vt)
			i, _ := p.constInt64(ix.Index)
			if int(i) != nl-1 {
				return
			}
			// the division in the body
			k := -1
			for _, s := range ifs.Body.List {
				if as, ok := s.(*ast.AssignStmt); ok && len(as.Rhs) == 1 {
					if call, ok := as.Rhs[0].(*ast.CallExpr); ok {
						if info, ok := divK[p.calleeName(call)]; ok {
							k = info.Log10
						}
					}
				}
			}
			if k < 0 {
				return
			}
			nThr++
			// value > cst·2^(64(nl-1)); after ÷10^k it must still exceed cmax/10 (34 digits kept)
			lower := new(big.Int).Add(cst, big.NewInt(1))
			lower.Lsh(lower, uint(64*(nl-1)))
			need := new(big.Int).Mul(cmax, pow10(k-1))
			c.check(lower.Cmp(need) > 0, fmt.Sprintf("reduce.thr:%s:%s>%#x/10^%d", fn, p.exprName(ix.X), cst, k), ifs,
				fmt.Sprintf("dividing by 10^%d above this threshold keeps at least 34 digits", k),
				fmt.Sprintf("%s: dividing %s by 10^%d when its top word exceeds %#x can drop below 34 significant digits (needs (C+1)·2^%d > (5·2^111-1)·10^%d)", fn, p.exprName(ix.X), k, cst, 64*(nl-1), k-1), fp...)
		})
		if nThr < 3 || nLim < 1 {
			c.undecided("reduce.shape:"+fn, fd, fmt.Sprintf("only %d threshold divisions and %d limit loops recognised", nThr, nLim), fp...)
		}
	}
}
