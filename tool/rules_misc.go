package main

import (
	"fmt"
	"go/ast"
	"go/token"
	"go/types"
	"math"
	"math/big"
	"strings"
)

// E6.lowword: the low word of a two-limb significand stands for the value
// only where the high word is known to be zero.
func ruleLowWord(c *Ctx) {
	p := c.P
	n := 0
	for _, name := range p.sortedFuncNames() {
		fd := p.Funcs[name]
		if fd.Body == nil {
			continue
		}
		if fd.Recv != nil && strings.HasPrefix(recvTypeName(fd.Recv.List[0].Type), "uint") {
			continue
		}
		k := 0
		walkStack(fd.Body, func(nd ast.Node, stack []ast.Node) {
			ix, ok := nd.(*ast.IndexExpr)
			if !ok {
				return
			}
			i, ok := p.constInt64(ix.Index)
			if !ok || i != 0 {
				return
			}
			t := p.typeOf(ix.X)
			if t == nil || limbsOf(t) != 2 {
				return
			}
			vkey := p.exprKey(ix.X)
			if vkey == "" {
				return
			}
			// the innermost statement (or condition) containing the use
			var stmt ast.Node
			for j := len(stack) - 1; j >= 0; j-- {
				switch stack[j].(type) {
				case ast.Stmt:
					stmt = stack[j]
				}
				if stmt != nil {
					break
				}
			}
			if stmt == nil {
				return
			}
			// scope in which the high word counts as "also consumed": the condition when the use sits in
			// a condition, otherwise the innermost enclosing statement list
			var scopes []ast.Node
			inCond := false
			switch s := stmt.(type) {
			case *ast.IfStmt:
				if containsNode(s.Cond, nd) {
					scopes, inCond = []ast.Node{s.Cond}, true
				}
			case *ast.ForStmt:
				if s.Cond != nil && containsNode(s.Cond, nd) {
					scopes, inCond = []ast.Node{s.Cond}, true
				}
			}
			if !inCond {
				full := append(append([]ast.Node{}, stack...), nd)
				// statement position inside its block
				for j := len(full) - 1; j >= 0; j-- {
					if st, ok := full[j].(ast.Stmt); ok {
						if list, _ := enclosingBlock(full[:j+1]); list != nil {
							for _, t := range list {
								scopes = append(scopes, t)
							}
							_ = st
							break
						}
					}
				}
				if len(scopes) == 0 {
					scopes = []ast.Node{stmt}
				}
			}
			mentionsHigh := false
			for _, scope := range scopes {
				ast.Inspect(scope, func(m ast.Node) bool {
					if jx, ok := m.(*ast.IndexExpr); ok && p.exprKey(jx.X) == vkey {
						if j, ok := p.constInt64(jx.Index); ok && j == 1 {
							mentionsHigh = true
						}
					}
					// the whole value used (v.cmp(..), v.div10(), v == w)
					if id, ok := m.(*ast.Ident); ok && p.exprKey(id) == vkey {
						par := false
						ast.Inspect(scope, func(q ast.Node) bool {
							if jx, ok := q.(*ast.IndexExpr); ok && jx.X == ast.Expr(id) {
								par = true
							}
							return true
						})
						if !par {
							mentionsHigh = true
						}
					}
					return true
				})
			}
			if mentionsHigh {
				return
			}
			// parity / low-bit tests read the low word by design
			for j := len(stack) - 1; j >= 0; j-- {
				if be, ok := stack[j].(*ast.BinaryExpr); ok && (be.Op == token.REM || be.Op == token.AND) {
					if kk, ok := p.constInt64(be.Y); ok && (kk == 2 || kk == 1) && ast.Unparen(be.X) == ast.Expr(ix) {
						return
					}
				}
			}
			k++
			n++
			key := fmt.Sprintf("lowword:%s:%s#%d", name, p.exprName(ix.X), k)
			ok2, why := p.highWordZero(fd, stack, nd, vkey)
			if !ok2 {
				if w, isRev := lowWordReviewed[name+":"+p.exprName(ix.X)]; isRev {
					c.exempt(key, ix, w, funcProps(name)...)
					return
				}
			}
			c.check(ok2, key, ix, "the high word is known to be zero here", fmt.Sprintf("%s: %s[0] is used as the whole value but no dominating test establishes %s[1] == 0 (%s): coefficients of 2^64 and above would be truncated", name, p.exprName(ix.X), p.exprName(ix.X), why), funcProps(name)...)
		})
	}
	if n < 20 {
		c.undecided("lowword.count", nil, fmt.Sprintf("only %d low-word projections found", n))
	}
}

var lowWordReviewed = map[string]string{
	"Exp10:sig": "after the integer/fraction split the integer part is below 10^5 (magnitude exit dExp <= 4 - log10)",
	"Exp2:sig":  "after the integer/fraction split the integer part is below 10^6 (magnitude exit dExp <= 5 - log10)",
}

// highWordZero looks for a dominating fact V[1] == 0 (also V[1]|W[1] == 0).
func (p *Prog) highWordZero(fd *ast.FuncDecl, stack []ast.Node, site ast.Node, vkey string) (bool, string) {
	full := append(append([]ast.Node{}, stack...), site)
	facts := p.factsAt(full, func(s ast.Stmt) bool { return p.assignsTo(s, vkey) })
	for _, f := range facts {
		x, op, k, ok := p.normCmp(f.cond)
		if !ok || k.Sign() != 0 {
			continue
		}
		if !f.val {
			op = negOp(op)
		}
		if op != token.EQL {
			continue
		}
		has := false
		var walk func(e ast.Expr)
		walk = func(e ast.Expr) {
			e = ast.Unparen(e)
			if jx, ok := e.(*ast.IndexExpr); ok && p.exprKey(jx.X) == vkey {
				if j, ok := p.constInt64(jx.Index); ok && j == 1 {
					has = true
				}
			}
			if b2, ok := e.(*ast.BinaryExpr); ok && b2.Op == token.OR {
				walk(b2.X)
				walk(b2.Y)
			}
		}
		walk(x)
		if has {
			return true, ""
		}
	}
	return false, "no enclosing condition or earlier early exit tests the high word"
}

// E2.series: series lengths are sufficient (numeric side conditions computed
// by the checker from extracted loop bounds and the argument range the
// scaling code establishes).
func ruleSeries(c *Ctx) {
	p := c.P
	// --- log: atanh series on t = (x-1)/(x+1), x in [1, 1.1)
	if fd := c.fn("decomposed192.log"); fd != nil {
		var last int64 = -1
		var loopNode ast.Node
		ast.Inspect(fd.Body, func(n ast.Node) bool {
			f, ok := n.(*ast.ForStmt)
			if !ok {
				return true
			}
			cl, ok := p.countingLoop(f)
			if !ok || cl.first != 3 || cl.step != 2 || cl.n < 1 {
				return true
			}
			last = cl.last
			loopNode = f
			return true
		})
		if loopNode == nil {
			c.undecided("series.log", fd, "atanh series loop `for i := 3; i <= N; i += 2` not found", "C16", "C18")
		} else {
			// relative remainder after the term t^n/n: t^(n+1)/((n+2)(1-t^2)) with t <= 1/21
			need := int64(-1)
			t := 1.0 / 21.0
			for n := int64(1); n < 200; n += 2 {
				rem := math.Pow(t, float64(n+1)) / (float64(n+2) * (1 - t*t))
				if rem <= 1e-35 {
					need = n
					break
				}
			}
			c.check(last >= need, "series.log", loopNode, fmt.Sprintf("atanh series runs to the term t^%d/%d; %d suffices for a relative remainder <= 1e-35 at |t| <= 1/21", last, last, need),
				fmt.Sprintf("decomposed192.log: the atanh series stops at t^%d/%d; with the reduced argument in [1, 1.1) (|t| <= 1/21) terms up to t^%d are needed for a relative remainder below 1e-35 (one tenth of a unit in the 34th digit)", last, last, need), "C16", "C18")
		}
		// argument reduction that justifies |t| <= 1/21: division by msd/10 when msd > 10
		env := p.newCanonEnv(fd)
		body := env.canonStmts(fd.Body.List)
		c.check(strings.Contains(body, "call(uint192.msd2;recv=") && strings.Contains(body, ">K(10))){") && strings.Contains(body, "exp:K(-1)}"),
			"series.log.reduce", fd, "argument divided by its two leading digits (msd·10^-1) when msd > 10", "decomposed192.log: the argument must be divided by its two leading digits before the atanh series (this bounds |t| by 1/21)", "C16", "C18")
	}
	// --- log1p: alternating series x - x^2/2 + x^3/3 ... evaluated on |x|; for negative x every term has the same sign
	if fd := c.fn("decomposed192.log1p"); fd != nil {
		ps := paramObjs(p, fd)
		var loop *ast.ForStmt
		var cl countLoop
		ast.Inspect(fd.Body, func(n ast.Node) bool {
			if f, ok := n.(*ast.ForStmt); ok && loop == nil {
				if l, ok := p.countingLoop(f); ok && l.step == 1 {
					loop, cl = f, l
				}
			}
			return true
		})
		if loop == nil || len(ps) != 1 {
			c.undecided("series.log1p", fd, "term loop `for i := 2; i <= N; i++` not found", "C16")
		} else {
			iObj := p.objOf(loop.Init.(*ast.AssignStmt).Lhs[0])
			bad := ""
			for _, neg := range []bool{false, true} {
				for i := cl.first; i <= cl.last && bad == ""; i++ {
					in := newInterp(p)
					var ops []string
					for _, m := range []string{"add", "sub", "mul", "quo"} {
						m := m
						n := 2
						if m == "sub" {
							n = 3
						}
						in.intrinsics["decomposed192."+m] = func(in *interp, st *state, call *ast.CallExpr, recv AV, args []AV) ([]AV, bool) {
							if m == "add" || m == "sub" {
								ops = append(ops, m)
							}
							vs := make([]AV, n)
							for k := range vs {
								vs[k] = top
							}
							return []AV{&avTuple{vs: vs}}, true
						}
					}
					st := newState()
					st.vars[iObj] = avInt{i}
					st.vars[ps[0]] = avBool{neg}
					in.curFn = append(in.curFn, fd)
					in.execBlock(loop.Body.List, st)
					want := "sub"
					if neg || i%2 == 1 {
						want = "add"
					}
					if in.overflow || len(ops) != 1 || ops[0] != want {
						bad = fmt.Sprintf("term %d for a %s argument is applied by %v, want [%s]: log(1+x) = x - x^2/2 + x^3/3 - ..., so on |x| the even terms are subtracted for positive x and every term is added for negative x", i, map[bool]string{false: "positive", true: "negative"}[neg], ops, want)
					}
				}
			}
			c.check(bad == "" && cl.first == 2 && cl.last >= 4, "series.log1p", loop, fmt.Sprintf("terms 2..%d carry the signs of the alternating series for both argument signs (|x| < 1e-10: term 5 is already below 1e-40 relative)", cl.last),
				"decomposed192.log1p: "+bad, "C16")
		}
	}
	// --- epow / epowm1: Taylor series of e^x, |x| < 1 after splitting off the integer part: 40 terms
	for _, fn := range []string{"decomposed192.epow", "decomposed192.epowm1"} {
		fd := c.fn(fn)
		if fd == nil {
			continue
		}
		var first int64 = -1
		var top int64 = -1
		// the series may live in a helper shared by epow and epowm1: look one call deep
		bodies := []*ast.BlockStmt{fd.Body}
		ast.Inspect(fd.Body, func(n ast.Node) bool {
			if call, ok := n.(*ast.CallExpr); ok {
				if cfd := p.Funcs[p.calleeName(call)]; cfd != nil && cfd != fd && cfd.Body != nil && strings.HasPrefix(p.calleeName(call), "decomposed192.") {
					hasLoop := false
					ast.Inspect(cfd.Body, func(m ast.Node) bool {
						if f, ok := m.(*ast.ForStmt); ok {
							if cl, ok := p.countingLoop(f); ok && cl.step == -1 {
								hasLoop = true
							}
						}
						return true
					})
					if hasLoop {
						bodies = append(bodies, cfd.Body)
					}
				}
			}
			return true
		})
		var lastK int64 = -1
		for _, b := range bodies {
			ast.Inspect(b, func(n ast.Node) bool {
				f, ok := n.(*ast.ForStmt)
				if !ok || first >= 0 {
					return true
				}
				// Horner: the divisor k runs down from N-1 to 2. k is the loop variable, or a local of the
				// body that is a linear function of it (i := 39 - j)
				cl, ok := p.countingLoop(f)
				if !ok || cl.n <= 0 {
					return true
				}
				if cl.step == -1 {
					first, lastK = cl.first, cl.last
					return true
				}
				loopVar := p.exprKey(f.Init.(*ast.AssignStmt).Lhs[0])
				var owner *ast.FuncDecl
				for _, cand := range p.Funcs {
					if cand.Body != nil && containsNode(cand.Body, f) {
						owner = cand
					}
				}
				ast.Inspect(f.Body, func(m ast.Node) bool {
					lit, ok := m.(*ast.CompositeLit)
					if !ok || len(lit.Elts) != 3 || first >= 0 || owner == nil {
						return true
					}
					if p.constOf(lit.Elts[0]) != nil {
						return true
					}
					arg := lit.Elts[0]
					if conv, ok := ast.Unparen(arg).(*ast.CallExpr); ok && len(conv.Args) == 1 {
						if tv, ok := p.Info.Types[conv.Fun]; ok && tv.IsType() {
							arg = conv.Args[0]
						}
					}
					terms, cst, ok := p.linForm(owner, arg, lit, 0)
					if !ok || len(terms) != 1 {
						return true
					}
					coef, has := terms[loopVar]
					if !has || !coef.IsInt64() || !cst.IsInt64() {
						return true
					}
					a, b := coef.Int64(), cst.Int64()
					if a*cl.step == -1 {
						first, lastK = a*cl.first+b, a*cl.last+b
					}
					return true
				})
				return true
			})
		}
		_ = lastK
		// the leading quotient d/N
		var seriesBody ast.Node = fd.Body
		if len(bodies) > 1 {
			seriesBody = bodies[1]
		}
		ast.Inspect(seriesBody, func(n ast.Node) bool {
			cl, ok := n.(*ast.CompositeLit)
			if !ok || top >= 0 {
				return true
			}
			if len(cl.Elts) == 3 {
				if v, ok := p.constInt64(cl.Elts[0]); ok && v > 2 {
					z1, _ := p.constInt64(cl.Elts[1])
					z2, _ := p.constInt64(cl.Elts[2])
					if z1 == 0 && z2 == 0 {
						top = v
					}
				}
			}
			return true
		})
		if first < 0 || top < 0 {
			c.undecided("series."+fn, fd, "Horner form of the exponential series not found", "C16", "C18")
			continue
		}
		// remainder of sum x^k/k! after k = top for |x| <= 1: <= 2/(top+1)!
		need := int64(0)
		f := new(big.Float).SetInt64(1)
		for k := int64(1); k < 200; k++ {
			f.Mul(f, new(big.Float).SetInt64(k+1)) // (k+1)!
			v, _ := f.Float64()
			if 2/v <= 1e-36 {
				need = k
				break
			}
		}
		c.check(top >= need && first == top-1, "series."+fn, fd, fmt.Sprintf("Horner evaluation of %d terms (%d suffice for remainder <= 1e-36 on |x| <= 1)", top, need),
			fmt.Sprintf("%s: the exponential series is evaluated to x^%d/%d! (loop starts at %d); %d terms are needed for a remainder below 1e-36 on |x| <= 1 and the loop must continue at N-1", fn, top, top, first, need), "C16", "C18")
	}
	// --- Cbrt: Halley iterations from the first guess d·10^-(e - e/3)
	if fd := c.fn("Cbrt"); fd != nil {
		var loop *ast.ForStmt
		var loopIdx int
		var iters int64 = -1
		for i, s := range fd.Body.List {
			if f, ok := s.(*ast.ForStmt); ok && loop == nil {
				if cl, ok := p.countingLoop(f); ok {
					loop, loopIdx, iters = f, i, cl.n
				}
			}
		}
		// decompose's exponent and the digit count
		var expObj, l10Obj types.Object
		start := -1
		for i, s := range fd.Body.List {
			as, ok := s.(*ast.AssignStmt)
			if !ok || len(as.Rhs) != 1 {
				continue
			}
			if call, ok := ast.Unparen(as.Rhs[0]).(*ast.CallExpr); ok && p.isPkgFunc(call, "Decimal.decompose") && len(as.Lhs) == 2 {
				expObj = p.objOf(as.Lhs[1])
			}
			if len(as.Lhs) == 1 && as.Tok == token.DEFINE && l10Obj == nil {
				found := false
				ast.Inspect(as.Rhs[0], func(n ast.Node) bool {
					if call, ok := n.(*ast.CallExpr); ok && strings.HasSuffix(p.calleeName(call), ".log10") {
						found = true
					}
					return true
				})
				if found {
					l10Obj = p.objOf(as.Lhs[0])
					start = i + 1
				}
			}
		}
		if loop == nil || expObj == nil || l10Obj == nil || start < 0 {
			c.undecided("series.cbrt", fd, "first guess (exponent split) and the iteration loop not found", "C17")
		} else {
			// offset(E) = change of the exponent applied to d to form the first guess, for d = m·10^E, 1 <= m < 10
			worstLo, worstHi := 1.0, 1.0
			bad := ""
			for E := int64(-60); E <= 60 && bad == ""; E++ {
				for _, L := range []int64{0, 33} {
					in := newInterp(p)
					st := newState()
					st.vars[expObj] = avInt{E - L}
					st.vars[l10Obj] = avInt{L}
					in.curFn = append(in.curFn, fd)
					flows := in.execBlock(fd.Body.List[start:loopIdx], st)
					if in.overflow || len(flows) != 1 {
						bad = "the exponent split could not be evaluated"
						break
					}
					got, ok := flows[0].st.vars[expObj].(avInt)
					if !ok {
						bad = "the exponent of the first guess is not determined by the operand's exponent and digit count"
						break
					}
					// guess = m·10^(got+L) (coefficient digits L), true root = m^(1/3)·10^(E/3): ratio = m^(2/3)·10^(got+L-E/3)
					rexp := float64(got.v+L) - float64(E)/3
					lo, hi := math.Pow(10, rexp), math.Pow(10, rexp+2.0/3)
					if lo < worstLo {
						worstLo = lo
					}
					if hi > worstHi {
						worstHi = hi
					}
				}
			}
			if bad != "" {
				c.undecided("series.cbrt", fd, bad, "C17")
			} else {
				// Halley on x^3 = 1: x -> x(x^3+2)/(2x^3+1), in 400-bit arithmetic, until |x-1| <= 1e-56
				need := int64(0)
				for _, r := range []float64{worstLo, worstHi} {
					x := new(big.Float).SetPrec(400).SetFloat64(r)
					one := new(big.Float).SetPrec(400).SetInt64(1)
					two := new(big.Float).SetPrec(400).SetInt64(2)
					tol := new(big.Float).SetPrec(400)
					tol.SetString("1e-56")
					n := int64(0)
					for ; n < 64; n++ {
						d := new(big.Float).Sub(x, one)
						if d.Abs(d).Cmp(tol) <= 0 {
							break
						}
						x3 := new(big.Float).Mul(x, x)
						x3.Mul(x3, x)
						num := new(big.Float).Add(x3, two)
						den := new(big.Float).Mul(two, x3)
						den.Add(den, one)
						x.Mul(x, num.Quo(num, den))
					}
					if n > need {
						need = n
					}
				}
				c.check(iters >= need, "series.cbrt", loop, fmt.Sprintf("%d Halley steps; the first guess is within a factor [%.3g, %.3g] of the root, so %d steps reach 1e-56 relative", iters, worstLo, worstHi, need),
					fmt.Sprintf("Cbrt: %d Halley steps from a first guess that can be off by a factor in [%.3g, %.3g] do not reach the 1e-56 relative accuracy that the 1e-20 ulp margin needs; %d steps are required (the exponent split must leave the guess within 10^(-2/3)..10^(2/3) of the root)", iters, worstLo, worstHi, need), "C17")
			}
		}
	}
	// --- Expm1 for small negative arguments: e^-a - 1 must be formed as -r/(1+r) with r = e^a - 1 (the series value);
	// taking the reciprocal of 1+r and subtracting 1 cancels every digit of r below the working precision
	if fd := c.fn("decomposed192.epowm1"); fd != nil {
		// the branch for |x| < 1: `if exp == 0 { if neg { ... } ... }`
		var small *ast.IfStmt
		ast.Inspect(fd.Body, func(n ast.Node) bool {
			ifs, ok := n.(*ast.IfStmt)
			if !ok || small != nil {
				return true
			}
			if x, op, k, ok := p.normCmp(ifs.Cond); ok && op == token.EQL && k.Sign() == 0 && p.exprKey(x) != "" && strings.HasPrefix(p.exprKey(x), "exp@") {
				small = ifs
			}
			return true
		})
		if small == nil {
			c.undecided("series.expm1.cancel", fd, "the branch of epowm1 for |x| < 1 (`exp == 0`) was not found", "C16")
		} else {
			cancels := ""
			ast.Inspect(small.Body, func(n ast.Node) bool {
				if call, ok := n.(*ast.CallExpr); ok && strings.HasSuffix(p.calleeName(call), ".sub1") {
					cancels = p.posStr(call)
				}
				return true
			})
			c.check(cancels == "", "series.expm1.cancel", small, "for |x| < 1 and negative x the result is formed without subtracting 1 from a value near 1",
				"decomposed192.epowm1: for |x| < 1 and negative x the result is computed as 1/(1+r) - 1 (sub1 at "+cancels+"), which cancels all digits of r = e^|x| - 1 below the 57-digit working precision: Expm1(-1e-26) = -9.999999999999999999999999950001e-27 (want ...9995e-27), Expm1(-1e-30) = -1e-30 (want -9.999999999999999999999999999995e-31)", "C16")
		}
	}
	// --- Sqrt: Heron iterations from a linear first guess
	if fd := c.fn("Sqrt"); fd != nil {
		type lin struct{ add, mul float64 }
		var lins []lin
		var iters int64 = -1
		var loopNode ast.Node
		dec := func(e ast.Expr) (float64, bool) {
			cl, ok := e.(*ast.CompositeLit)
			if !ok {
				return 0, false
			}
			var sig, exp int64
			okk := 0
			for _, el := range cl.Elts {
				kv, ok := el.(*ast.KeyValueExpr)
				if !ok {
					return 0, false
				}
				switch p.exprStr(kv.Key) {
				case "sig":
					if inner, ok := kv.Value.(*ast.CompositeLit); ok && len(inner.Elts) == 3 {
						if v, ok := p.constInt64(inner.Elts[0]); ok {
							sig = v
							okk++
						}
					}
				case "exp":
					if v, ok := p.constInt64(kv.Value); ok {
						exp = v
						okk++
					}
				}
			}
			return float64(sig) * math.Pow(10, float64(exp)), okk == 2
		}
		ast.Inspect(fd.Body, func(n ast.Node) bool {
			switch x := n.(type) {
			case *ast.IfStmt:
				for _, blk := range []*ast.BlockStmt{x.Body, func() *ast.BlockStmt { b, _ := x.Else.(*ast.BlockStmt); return b }()} {
					if blk == nil {
						continue
					}
					var l lin
					got := 0
					for _, s := range blk.List {
						as, ok := s.(*ast.AssignStmt)
						if !ok || len(as.Lhs) != 1 || len(as.Rhs) != 1 {
							continue
						}
						v, ok := dec(as.Rhs[0])
						if !ok {
							continue
						}
						switch p.exprStr(as.Lhs[0]) {
						case "add":
							l.add = v
							got++
						case "mul":
							l.mul = v
							got++
						}
					}
					if got == 2 {
						lins = append(lins, l)
					}
				}
			case *ast.ForStmt:
				if cl, ok := p.countingLoop(x); ok && iters < 0 {
					iters = cl.n
					loopNode = x
				}
			}
			return true
		})
		if len(lins) != 2 || iters < 0 {
			c.undecided("series.sqrt", fd, "linear first guess (two parity cases) and the iteration loop not found", "C17")
		} else {
			// case even: x in [1,10), case odd: x in [0.1,1) (x = normalised argument); relative error of
			// the guess g = add + mul·x against sqrt(x) is largest at an endpoint or at x = add/mul
			worst := 0.0
			for i, l := range lins {
				lo, hi := 1.0, 10.0
				if i == 1 {
					lo, hi = 0.1, 1.0
				}
				for _, x := range []float64{lo, hi, l.add / l.mul} {
					if x < lo || x > hi {
						continue
					}
					e := math.Abs((l.add+l.mul*x)/math.Sqrt(x) - 1)
					if e > worst {
						worst = e
					}
				}
			}
			// Heron: e' = e^2 / (2(1+e)) for the relative error of the iterate (exact arithmetic)
			need := int64(0)
			e := worst
			for e > 1e-55 && need < 64 {
				e = e * e / (2 * (1 + e))
				need++
			}
			c.check(iters >= need, "series.sqrt", loopNode, fmt.Sprintf("%d Heron steps; the first guess is off by at most %.3g relative, so %d steps reach 1e-55", iters, worst, need),
				fmt.Sprintf("Sqrt: %d Heron steps from a first guess that is off by up to %.3g (relative) do not reach the 1e-55 relative accuracy that the 1e-20 ulp margin needs; %d steps are required", iters, worst, need), "C17")
		}
	}
}

// countingLoop recognises `for i := a; i OP b; i STEP { body }` with constant
// a, b and step and a body that does not assign i, and returns the sequence
// of values i takes.
type countLoop struct {
	first, step, last, n int64
}

func (p *Prog) countingLoop(f *ast.ForStmt) (countLoop, bool) {
	var out countLoop
	if f.Init == nil || f.Cond == nil || f.Post == nil {
		return out, false
	}
	init, ok := f.Init.(*ast.AssignStmt)
	if !ok || len(init.Lhs) != 1 || len(init.Rhs) != 1 {
		return out, false
	}
	iv := p.objOf(init.Lhs[0])
	a, ok := p.constInt64(init.Rhs[0])
	if iv == nil || !ok {
		return out, false
	}
	x, op, kb, ok := p.normCmp(f.Cond)
	if !ok || p.objOf(x) != iv || !kb.IsInt64() {
		return out, false
	}
	k := kb.Int64()
	var step int64
	switch post := f.Post.(type) {
	case *ast.IncDecStmt:
		if p.objOf(post.X) != iv {
			return out, false
		}
		step = 1
		if post.Tok == token.DEC {
			step = -1
		}
	case *ast.AssignStmt:
		if len(post.Lhs) != 1 || len(post.Rhs) != 1 || p.objOf(post.Lhs[0]) != iv {
			return out, false
		}
		v, ok := p.constInt64(post.Rhs[0])
		if !ok || v == 0 {
			return out, false
		}
		switch post.Tok {
		case token.ADD_ASSIGN:
			step = v
		case token.SUB_ASSIGN:
			step = -v
		default:
			return out, false
		}
	default:
		return out, false
	}
	if p.assignsTo(f.Body, p.exprKey(init.Lhs[0])) {
		return out, false
	}
	// normCmp forms: i > k, i <= k, i == k, i != k
	cont := func(i int64) bool {
		switch op {
		case token.GTR:
			return i > k
		case token.LEQ:
			return i <= k
		case token.NEQ:
			return i != k
		case token.EQL:
			return i == k
		}
		return false
	}
	out.first, out.step = a, step
	i := a
	for n := int64(0); n < 100000; n++ {
		if !cont(i) {
			out.n = n
			out.last = i - step
			return out, true
		}
		i += step
	}
	return out, false
}
