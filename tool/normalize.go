package main

import (
	"go/ast"
	"go/token"
	"go/types"
)

// Syntax normalisation applied once after type-checking, so that rules see
// one spelling of interchangeable control-flow forms:
//
//	N1  switch { case c1: A; case c2: B; default: C }  ->  if c1 {A} else if c2 {B} else {C}
//	N2  if X == k1 {A} else if X == k2 {B} else if X == k3 {C} [else {D}]  ->  switch X { case k1: A ... }
//	    (three or more arms, X a side-effect-free variable/field, every k a constant)
//	N3  for ; cond; post { body }  ->  for cond { body; post }   (body without continue)
//
// Both rewrites reuse the original expression nodes, so all recorded type
// information stays valid. A form is left alone when an unlabelled break or a
// fallthrough would change its meaning.

func (p *Prog) normalizeAST() {
	for _, fd := range p.Funcs {
		if fd.Body == nil {
			continue
		}
		// N3 is applied to a function only when every `for ; cond; post` loop in it can be
		// rewritten, so that sibling loops keep the same shape
		p.normPost = true
		ast.Inspect(fd.Body, func(n ast.Node) bool {
			if f, ok := n.(*ast.ForStmt); ok && f.Init == nil && f.Post != nil && freeContinue(f.Body.List) {
				p.normPost = false
			}
			return true
		})
		p.normBlock(fd.Body)
	}
}

func (p *Prog) normList(list []ast.Stmt) {
	for i, s := range list {
		list[i] = p.normStmt(s)
	}
}

func (p *Prog) normBlock(b *ast.BlockStmt) {
	if b != nil {
		p.normList(b.List)
	}
}

func (p *Prog) normStmt(s ast.Stmt) ast.Stmt {
	switch x := s.(type) {
	case *ast.BlockStmt:
		p.normBlock(x)
	case *ast.IfStmt:
		p.normFuncLits(x.Cond)
		p.normBlock(x.Body)
		if x.Else != nil {
			x.Else = p.normStmt(x.Else)
		}
		if sw := p.ifChainToSwitch(x); sw != nil {
			return sw
		}
	case *ast.ForStmt:
		p.normBlock(x.Body)
		// N3: for ; cond; post { body }  ->  for cond { body; post }  (no continue that would skip to post)
		if x.Init == nil && x.Post != nil && p.normPost {
			x.Body.List = append(x.Body.List, x.Post)
			x.Post = nil
		}
	case *ast.RangeStmt:
		p.normBlock(x.Body)
	case *ast.LabeledStmt:
		x.Stmt = p.normStmt(x.Stmt)
	case *ast.SwitchStmt:
		for _, cc := range x.Body.List {
			p.normList(cc.(*ast.CaseClause).Body)
		}
		if x.Tag == nil && x.Init != nil {
			p.inlineSwitchInit(x)
		}
		if x.Tag == nil && x.Init == nil {
			if ifs := p.switchToIfChain(x); ifs != nil {
				return p.normStmt(ifs) // may become a tag switch again by N2
			}
		}
	case *ast.TypeSwitchStmt:
		for _, cc := range x.Body.List {
			p.normList(cc.(*ast.CaseClause).Body)
		}
	case *ast.SelectStmt:
		for _, cc := range x.Body.List {
			p.normList(cc.(*ast.CommClause).Body)
		}
	case *ast.AssignStmt:
		for _, r := range x.Rhs {
			p.normFuncLits(r)
		}
	case *ast.ExprStmt:
		p.normFuncLits(x.X)
	case *ast.ReturnStmt:
		for _, r := range x.Results {
			p.normFuncLits(r)
		}
	case *ast.DeferStmt:
		p.normFuncLits(x.Call)
	case *ast.GoStmt:
		p.normFuncLits(x.Call)
	}
	return s
}

func (p *Prog) normFuncLits(e ast.Expr) {
	if e == nil {
		return
	}
	ast.Inspect(e, func(n ast.Node) bool {
		if fl, ok := n.(*ast.FuncLit); ok {
			p.normBlock(fl.Body)
			return false
		}
		return true
	})
}

// freeBreak reports an unlabelled break (or any fallthrough) in list that
// would bind to an enclosing switch/loop placed directly around list.
func freeBreak(list []ast.Stmt) bool {
	found := false
	var visit func(n ast.Node) bool
	visit = func(n ast.Node) bool {
		switch x := n.(type) {
		case *ast.ForStmt, *ast.RangeStmt, *ast.SwitchStmt, *ast.TypeSwitchStmt, *ast.SelectStmt, *ast.FuncLit:
			// an inner breakable statement captures its own breaks; fallthrough inside is its own too
			return false
		case *ast.BranchStmt:
			if (x.Tok == token.BREAK && x.Label == nil) || x.Tok == token.FALLTHROUGH {
				found = true
			}
		}
		return !found
	}
	for _, s := range list {
		ast.Inspect(s, visit)
	}
	return found
}

func (p *Prog) switchToIfChain(sw *ast.SwitchStmt) ast.Stmt {
	var def *ast.CaseClause
	var arms []*ast.CaseClause
	for _, cc := range sw.Body.List {
		cl := cc.(*ast.CaseClause)
		if freeBreak(cl.Body) {
			return nil
		}
		if cl.List == nil {
			def = cl
			continue
		}
		arms = append(arms, cl)
	}
	if len(arms) == 0 {
		return nil
	}
	// the default arm may be written anywhere; as an else it goes last (cases are tried in order first anyway)
	var head, tail *ast.IfStmt
	for _, cl := range arms {
		var cond ast.Expr
		for _, e := range cl.List {
			if cond == nil {
				cond = e
			} else {
				be := &ast.BinaryExpr{X: cond, OpPos: e.Pos(), Op: token.LOR, Y: e}
				p.recordBool(be)
				cond = be
			}
		}
		ifs := &ast.IfStmt{If: cl.Pos(), Cond: cond, Body: &ast.BlockStmt{Lbrace: cl.Colon, List: cl.Body, Rbrace: cl.End()}}
		if head == nil {
			head = ifs
		} else {
			tail.Else = ifs
		}
		tail = ifs
	}
	if def != nil {
		tail.Else = &ast.BlockStmt{Lbrace: def.Colon, List: def.Body, Rbrace: def.End()}
	}
	return head
}

func (p *Prog) recordBool(e ast.Expr) {
	if tv, ok := p.Info.Types[ast.Unparen(e.(*ast.BinaryExpr).X)]; ok {
		tv.Value = nil
		p.Info.Types[e] = tv
	}
}

// ifChainToSwitch: see N2.
func (p *Prog) ifChainToSwitch(head *ast.IfStmt) ast.Stmt {
	type arm struct {
		ks   []ast.Expr
		body *ast.BlockStmt
		pos  token.Pos
	}
	var arms []arm
	var tag ast.Expr
	tagKey := ""
	var def *ast.BlockStmt
	cur := head
	for {
		if cur.Init != nil {
			return nil
		}
		var ks []ast.Expr
		var collect func(e ast.Expr) bool
		collect = func(e ast.Expr) bool {
			e = ast.Unparen(e)
			be, ok := e.(*ast.BinaryExpr)
			if !ok {
				return false
			}
			if be.Op == token.LOR {
				return collect(be.X) && collect(be.Y)
			}
			if be.Op != token.EQL {
				return false
			}
			x, k := be.X, be.Y
			if p.constOf(x) != nil && p.constOf(k) == nil {
				x, k = k, x
			}
			if p.constOf(k) == nil || p.constOf(x) != nil {
				return false
			}
			x = ast.Unparen(x)
			switch x.(type) {
			case *ast.Ident, *ast.SelectorExpr:
			default:
				return false
			}
			key := p.exprKey(x)
			if key == "" || (tagKey != "" && key != tagKey) {
				return false
			}
			if tag == nil {
				tag, tagKey = x, key
			}
			ks = append(ks, k)
			return true
		}
		if !collect(cur.Cond) || freeBreak(cur.Body.List) {
			return nil
		}
		arms = append(arms, arm{ks, cur.Body, cur.Pos()})
		switch e := cur.Else.(type) {
		case nil:
		case *ast.IfStmt:
			cur = e
			continue
		case *ast.BlockStmt:
			if freeBreak(e.List) {
				return nil
			}
			def = e
		case *ast.SwitchStmt:
			// an else-if chain tail that was already converted: merge when it switches on the same tag
			if e.Tag == nil || e.Init != nil || p.exprKey(e.Tag) != tagKey {
				return nil
			}
			for _, cc := range e.Body.List {
				cl := cc.(*ast.CaseClause)
				if cl.List == nil {
					def = &ast.BlockStmt{Lbrace: cl.Colon, List: cl.Body, Rbrace: cl.End()}
				} else {
					arms = append(arms, arm{cl.List, &ast.BlockStmt{Lbrace: cl.Colon, List: cl.Body, Rbrace: cl.End()}, cl.Pos()})
				}
			}
		default:
			return nil
		}
		break
	}
	if len(arms) < 3 {
		return nil
	}
	// the tag must not be assigned inside the chain's conditions (it is a plain variable: conditions are pure)
	// and a value listed twice would make the switch ill-formed
	seen := map[string]bool{}
	for _, a := range arms {
		for _, k := range a.ks {
			v := p.constOf(k).ExactString()
			if seen[v] {
				return nil
			}
			seen[v] = true
		}
	}
	sw := &ast.SwitchStmt{Switch: head.Pos(), Tag: tag, Body: &ast.BlockStmt{Lbrace: head.Body.Lbrace, Rbrace: head.End()}}
	for _, a := range arms {
		sw.Body.List = append(sw.Body.List, &ast.CaseClause{Case: a.pos, List: a.ks, Colon: a.body.Lbrace, Body: a.body.List})
	}
	if def != nil {
		sw.Body.List = append(sw.Body.List, &ast.CaseClause{Case: def.Pos(), Colon: def.Lbrace, Body: def.List})
	}
	return sw
}

// freeContinue reports a continue in list that targets the loop directly
// around list (labelled continues are treated as such too).
func freeContinue(list []ast.Stmt) bool {
	found := false
	var visit func(n ast.Node) bool
	visit = func(n ast.Node) bool {
		switch x := n.(type) {
		case *ast.ForStmt, *ast.RangeStmt, *ast.FuncLit:
			// an inner loop captures unlabelled continues; a labelled one may still target us
			ast.Inspect(n, func(m ast.Node) bool {
				if b, ok := m.(*ast.BranchStmt); ok && b.Tok == token.CONTINUE && b.Label != nil {
					found = true
				}
				return !found
			})
			return false
		case *ast.BranchStmt:
			if x.Tok == token.CONTINUE {
				found = true
			}
		}
		return !found
	}
	for _, s := range list {
		ast.Inspect(s, visit)
	}
	return found
}

// inlineSwitchInit: `switch v := X; { case f(v): ... }` where X is a side-effect-free operand (variable,
// field, constant-indexed element) and v is read only in the case conditions: the conditions are all
// evaluated before any body runs, so v can be replaced by X there and the init dropped.
func (p *Prog) inlineSwitchInit(sw *ast.SwitchStmt) {
	as, ok := sw.Init.(*ast.AssignStmt)
	if !ok || as.Tok != token.DEFINE || len(as.Lhs) != 1 || len(as.Rhs) != 1 {
		return
	}
	id, ok := as.Lhs[0].(*ast.Ident)
	if !ok {
		return
	}
	obj := p.Info.Defs[id]
	x := ast.Unparen(as.Rhs[0])
	pure := false
	switch y := x.(type) {
	case *ast.Ident:
		pure = true
	case *ast.SelectorExpr:
		_, pure = p.Info.Selections[y]
	case *ast.IndexExpr:
		if _, isConst := p.constInt64(y.Index); isConst {
			switch ast.Unparen(y.X).(type) {
			case *ast.Ident, *ast.SelectorExpr:
				pure = true
			}
		}
	}
	if !pure || obj == nil {
		return
	}
	// the declared type must be the operand's type (no implicit conversion through the definition)
	if tx := p.typeOf(x); tx == nil || !types.Identical(tx, obj.Type()) {
		return
	}
	usedInBody := false
	for _, cc := range sw.Body.List {
		for _, st := range cc.(*ast.CaseClause).Body {
			ast.Inspect(st, func(n ast.Node) bool {
				if i, ok := n.(*ast.Ident); ok && p.Info.Uses[i] == obj {
					usedInBody = true
				}
				return !usedInBody
			})
		}
	}
	if usedInBody {
		return
	}
	var subst func(e ast.Expr) (ast.Expr, bool)
	subst = func(e ast.Expr) (ast.Expr, bool) {
		switch y := e.(type) {
		case *ast.Ident:
			if p.Info.Uses[y] == obj {
				return x, true
			}
			return e, true
		case *ast.BasicLit:
			return e, true
		case *ast.ParenExpr:
			n, ok := subst(y.X)
			y.X = n
			return y, ok
		case *ast.UnaryExpr:
			n, ok := subst(y.X)
			y.X = n
			return y, ok
		case *ast.BinaryExpr:
			l, ok1 := subst(y.X)
			r, ok2 := subst(y.Y)
			y.X, y.Y = l, r
			return y, ok1 && ok2
		case *ast.SelectorExpr, *ast.IndexExpr, *ast.CallExpr:
			// allowed only when v does not occur inside
			uses := false
			ast.Inspect(y, func(n ast.Node) bool {
				if i, ok := n.(*ast.Ident); ok && p.Info.Uses[i] == obj {
					uses = true
				}
				return !uses
			})
			return e, !uses
		}
		return e, false
	}
	// dry run on copies is not possible without type info; check first, then substitute
	okAll := true
	for _, cc := range sw.Body.List {
		for _, e := range cc.(*ast.CaseClause).List {
			ast.Inspect(e, func(n ast.Node) bool {
				switch n.(type) {
				case nil, *ast.Ident, *ast.BasicLit, *ast.ParenExpr, *ast.UnaryExpr, *ast.BinaryExpr:
					return true
				case *ast.SelectorExpr, *ast.IndexExpr, *ast.CallExpr:
					ast.Inspect(n, func(m ast.Node) bool {
						if i, ok := m.(*ast.Ident); ok && p.Info.Uses[i] == obj {
							okAll = false
						}
						return okAll
					})
					return false
				}
				okAll = false
				return false
			})
		}
	}
	if !okAll {
		return
	}
	for _, cc := range sw.Body.List {
		cl := cc.(*ast.CaseClause)
		for i, e := range cl.List {
			n, _ := subst(e)
			cl.List[i] = n
		}
	}
	sw.Init = nil
}
