package main

import (
	"go/ast"
	"go/token"
	"go/types"
	"strings"
)

// Syntax normalisation applied once after type-checking, so that rules see
// one spelling of interchangeable control-flow forms:
//
//	N1  switch { case c1: A; case c2: B; default: C }  ->  if c1 {A} else if c2 {B} else {C}
//	N2  if X == k1 {A} else if X == k2 {B} else if X == k3 {C} [else {D}]  ->  switch X { case k1: A ... }
//	    (three or more arms, X a side-effect-free variable/field, every k a constant)
//	N3  for ; cond; post { body }  ->  for cond { body; post }   (body without continue)
//
// Both rewrites reuse the original expression nodes, so all recorded type
// information stays valid. A form is left alone when an unlabelled break or a
// fallthrough would change its meaning.

func (p *Prog) normalizeAST() {
	p.inlineKernelPredicates()
	for _, fd := range p.Funcs {
		if fd.Body == nil {
			continue
		}
		// N3 is applied to a function only when every `for ; cond; post` loop in it can be
		// rewritten, so that sibling loops keep the same shape
		p.normPost = true
		ast.Inspect(fd.Body, func(n ast.Node) bool {
			if f, ok := n.(*ast.ForStmt); ok && f.Init == nil && f.Post != nil && freeContinue(f.Body.List) {
				p.normPost = false
			}
			return true
		})
		p.normBlock(fd.Body)
		p.inlineExplainingVars(fd)
	}
}

func (p *Prog) normList(list []ast.Stmt) {
	for i, s := range list {
		list[i] = p.normStmt(s)
	}
}

func (p *Prog) normBlock(b *ast.BlockStmt) {
	if b != nil {
		p.normList(b.List)
	}
}

func (p *Prog) normStmt(s ast.Stmt) ast.Stmt {
	switch x := s.(type) {
	case *ast.BlockStmt:
		p.normBlock(x)
	case *ast.IfStmt:
		p.normFuncLits(x.Cond)
		p.normBlock(x.Body)
		if x.Else != nil {
			x.Else = p.normStmt(x.Else)
		}
		if sw := p.ifChainToSwitch(x); sw != nil {
			return sw
		}
	case *ast.ForStmt:
		p.normBlock(x.Body)
		// N3: for ; cond; post { body }  ->  for cond { body; post }  (no continue that would skip to post)
		if x.Init == nil && x.Post != nil && p.normPost {
			x.Body.List = append(x.Body.List, x.Post)
			x.Post = nil
		}
	case *ast.RangeStmt:
		p.normBlock(x.Body)
	case *ast.LabeledStmt:
		x.Stmt = p.normStmt(x.Stmt)
	case *ast.SwitchStmt:
		for _, cc := range x.Body.List {
			p.normList(cc.(*ast.CaseClause).Body)
		}
		if x.Tag == nil && x.Init != nil {
			p.inlineSwitchInit(x)
		}
		if x.Tag == nil && x.Init == nil {
			if ifs := p.switchToIfChain(x); ifs != nil {
				return p.normStmt(ifs) // may become a tag switch again by N2
			}
		}
	case *ast.TypeSwitchStmt:
		for _, cc := range x.Body.List {
			p.normList(cc.(*ast.CaseClause).Body)
		}
	case *ast.SelectStmt:
		for _, cc := range x.Body.List {
			p.normList(cc.(*ast.CommClause).Body)
		}
	case *ast.AssignStmt:
		for _, r := range x.Rhs {
			p.normFuncLits(r)
		}
	case *ast.ExprStmt:
		p.normFuncLits(x.X)
	case *ast.ReturnStmt:
		for _, r := range x.Results {
			p.normFuncLits(r)
		}
	case *ast.DeferStmt:
		p.normFuncLits(x.Call)
	case *ast.GoStmt:
		p.normFuncLits(x.Call)
	}
	return s
}

func (p *Prog) normFuncLits(e ast.Expr) {
	if e == nil {
		return
	}
	ast.Inspect(e, func(n ast.Node) bool {
		if fl, ok := n.(*ast.FuncLit); ok {
			p.normBlock(fl.Body)
			return false
		}
		return true
	})
}

// freeBreak reports an unlabelled break (or any fallthrough) in list that
// would bind to an enclosing switch/loop placed directly around list.
func freeBreak(list []ast.Stmt) bool {
	found := false
	var visit func(n ast.Node) bool
	visit = func(n ast.Node) bool {
		switch x := n.(type) {
		case *ast.ForStmt, *ast.RangeStmt, *ast.SwitchStmt, *ast.TypeSwitchStmt, *ast.SelectStmt, *ast.FuncLit:
			// an inner breakable statement captures its own breaks; fallthrough inside is its own too
			return false
		case *ast.BranchStmt:
			if (x.Tok == token.BREAK && x.Label == nil) || x.Tok == token.FALLTHROUGH {
				found = true
			}
		}
		return !found
	}
	for _, s := range list {
		ast.Inspect(s, visit)
	}
	return found
}

func (p *Prog) switchToIfChain(sw *ast.SwitchStmt) ast.Stmt {
	var def *ast.CaseClause
	var arms []*ast.CaseClause
	for _, cc := range sw.Body.List {
		cl := cc.(*ast.CaseClause)
		if freeBreak(cl.Body) {
			return nil
		}
		if cl.List == nil {
			def = cl
			continue
		}
		arms = append(arms, cl)
	}
	if len(arms) == 0 {
		return nil
	}
	// the default arm may be written anywhere; as an else it goes last (cases are tried in order first anyway)
	var head, tail *ast.IfStmt
	for _, cl := range arms {
		var cond ast.Expr
		for _, e := range cl.List {
			if cond == nil {
				cond = e
			} else {
				be := &ast.BinaryExpr{X: cond, OpPos: e.Pos(), Op: token.LOR, Y: e}
				p.recordBool(be)
				cond = be
			}
		}
		ifs := &ast.IfStmt{If: cl.Pos(), Cond: cond, Body: &ast.BlockStmt{Lbrace: cl.Colon, List: cl.Body, Rbrace: cl.End()}}
		if head == nil {
			head = ifs
		} else {
			tail.Else = ifs
		}
		tail = ifs
	}
	if def != nil {
		tail.Else = &ast.BlockStmt{Lbrace: def.Colon, List: def.Body, Rbrace: def.End()}
	}
	return head
}

func (p *Prog) recordBool(e ast.Expr) {
	if tv, ok := p.Info.Types[ast.Unparen(e.(*ast.BinaryExpr).X)]; ok {
		tv.Value = nil
		p.Info.Types[e] = tv
	}
}

// ifChainToSwitch: see N2.
func (p *Prog) ifChainToSwitch(head *ast.IfStmt) ast.Stmt {
	type arm struct {
		ks   []ast.Expr
		body *ast.BlockStmt
		pos  token.Pos
	}
	var arms []arm
	var tag ast.Expr
	tagKey := ""
	var def *ast.BlockStmt
	cur := head
	for {
		if cur.Init != nil {
			return nil
		}
		var ks []ast.Expr
		var collect func(e ast.Expr) bool
		collect = func(e ast.Expr) bool {
			e = ast.Unparen(e)
			be, ok := e.(*ast.BinaryExpr)
			if !ok {
				return false
			}
			if be.Op == token.LOR {
				return collect(be.X) && collect(be.Y)
			}
			if be.Op != token.EQL {
				return false
			}
			x, k := be.X, be.Y
			if p.constOf(x) != nil && p.constOf(k) == nil {
				x, k = k, x
			}
			if p.constOf(k) == nil || p.constOf(x) != nil {
				return false
			}
			x = ast.Unparen(x)
			switch x.(type) {
			case *ast.Ident, *ast.SelectorExpr:
			default:
				return false
			}
			key := p.exprKey(x)
			if key == "" || (tagKey != "" && key != tagKey) {
				return false
			}
			if tag == nil {
				tag, tagKey = x, key
			}
			ks = append(ks, k)
			return true
		}
		if !collect(cur.Cond) || freeBreak(cur.Body.List) {
			return nil
		}
		arms = append(arms, arm{ks, cur.Body, cur.Pos()})
		switch e := cur.Else.(type) {
		case nil:
		case *ast.IfStmt:
			cur = e
			continue
		case *ast.BlockStmt:
			if freeBreak(e.List) {
				return nil
			}
			def = e
		case *ast.SwitchStmt:
			// an else-if chain tail that was already converted: merge when it switches on the same tag
			if e.Tag == nil || e.Init != nil || p.exprKey(e.Tag) != tagKey {
				return nil
			}
			for _, cc := range e.Body.List {
				cl := cc.(*ast.CaseClause)
				if cl.List == nil {
					def = &ast.BlockStmt{Lbrace: cl.Colon, List: cl.Body, Rbrace: cl.End()}
				} else {
					arms = append(arms, arm{cl.List, &ast.BlockStmt{Lbrace: cl.Colon, List: cl.Body, Rbrace: cl.End()}, cl.Pos()})
				}
			}
		default:
			return nil
		}
		break
	}
	if len(arms) < 3 {
		return nil
	}
	// the tag must not be assigned inside the chain's conditions (it is a plain variable: conditions are pure)
	// and a value listed twice would make the switch ill-formed
	seen := map[string]bool{}
	for _, a := range arms {
		for _, k := range a.ks {
			v := p.constOf(k).ExactString()
			if seen[v] {
				return nil
			}
			seen[v] = true
		}
	}
	sw := &ast.SwitchStmt{Switch: head.Pos(), Tag: tag, Body: &ast.BlockStmt{Lbrace: head.Body.Lbrace, Rbrace: head.End()}}
	for _, a := range arms {
		sw.Body.List = append(sw.Body.List, &ast.CaseClause{Case: a.pos, List: a.ks, Colon: a.body.Lbrace, Body: a.body.List})
	}
	if def != nil {
		sw.Body.List = append(sw.Body.List, &ast.CaseClause{Case: def.Pos(), Colon: def.Lbrace, Body: def.List})
	}
	return sw
}

// freeContinue reports a continue in list that targets the loop directly
// around list (labelled continues are treated as such too).
func freeContinue(list []ast.Stmt) bool {
	found := false
	var visit func(n ast.Node) bool
	visit = func(n ast.Node) bool {
		switch x := n.(type) {
		case *ast.ForStmt, *ast.RangeStmt, *ast.FuncLit:
			// an inner loop captures unlabelled continues; a labelled one may still target us
			ast.Inspect(n, func(m ast.Node) bool {
				if b, ok := m.(*ast.BranchStmt); ok && b.Tok == token.CONTINUE && b.Label != nil {
					found = true
				}
				return !found
			})
			return false
		case *ast.BranchStmt:
			if x.Tok == token.CONTINUE {
				found = true
			}
		}
		return !found
	}
	for _, s := range list {
		ast.Inspect(s, visit)
	}
	return found
}

// inlineSwitchInit: `switch v := X; { case f(v): ... }` where X is a side-effect-free operand (variable,
// field, constant-indexed element) and v is read only in the case conditions: the conditions are all
// evaluated before any body runs, so v can be replaced by X there and the init dropped.
func (p *Prog) inlineSwitchInit(sw *ast.SwitchStmt) {
	as, ok := sw.Init.(*ast.AssignStmt)
	if !ok || as.Tok != token.DEFINE || len(as.Lhs) != 1 || len(as.Rhs) != 1 {
		return
	}
	id, ok := as.Lhs[0].(*ast.Ident)
	if !ok {
		return
	}
	obj := p.Info.Defs[id]
	x := ast.Unparen(as.Rhs[0])
	pure := false
	switch y := x.(type) {
	case *ast.Ident:
		pure = true
	case *ast.SelectorExpr:
		_, pure = p.Info.Selections[y]
	case *ast.IndexExpr:
		if _, isConst := p.constInt64(y.Index); isConst {
			switch ast.Unparen(y.X).(type) {
			case *ast.Ident, *ast.SelectorExpr:
				pure = true
			}
		}
	}
	if !pure || obj == nil {
		return
	}
	// the declared type must be the operand's type (no implicit conversion through the definition)
	if tx := p.typeOf(x); tx == nil || !types.Identical(tx, obj.Type()) {
		return
	}
	usedInBody := false
	for _, cc := range sw.Body.List {
		for _, st := range cc.(*ast.CaseClause).Body {
			ast.Inspect(st, func(n ast.Node) bool {
				if i, ok := n.(*ast.Ident); ok && p.Info.Uses[i] == obj {
					usedInBody = true
				}
				return !usedInBody
			})
		}
	}
	if usedInBody {
		return
	}
	var subst func(e ast.Expr) (ast.Expr, bool)
	subst = func(e ast.Expr) (ast.Expr, bool) {
		switch y := e.(type) {
		case *ast.Ident:
			if p.Info.Uses[y] == obj {
				return x, true
			}
			return e, true
		case *ast.BasicLit:
			return e, true
		case *ast.ParenExpr:
			n, ok := subst(y.X)
			y.X = n
			return y, ok
		case *ast.UnaryExpr:
			n, ok := subst(y.X)
			y.X = n
			return y, ok
		case *ast.BinaryExpr:
			l, ok1 := subst(y.X)
			r, ok2 := subst(y.Y)
			y.X, y.Y = l, r
			return y, ok1 && ok2
		case *ast.SelectorExpr, *ast.IndexExpr, *ast.CallExpr:
			// allowed only when v does not occur inside
			uses := false
			ast.Inspect(y, func(n ast.Node) bool {
				if i, ok := n.(*ast.Ident); ok && p.Info.Uses[i] == obj {
					uses = true
				}
				return !uses
			})
			return e, !uses
		}
		return e, false
	}
	// dry run on copies is not possible without type info; check first, then substitute
	okAll := true
	for _, cc := range sw.Body.List {
		for _, e := range cc.(*ast.CaseClause).List {
			ast.Inspect(e, func(n ast.Node) bool {
				switch n.(type) {
				case nil, *ast.Ident, *ast.BasicLit, *ast.ParenExpr, *ast.UnaryExpr, *ast.BinaryExpr:
					return true
				case *ast.SelectorExpr, *ast.IndexExpr, *ast.CallExpr:
					ast.Inspect(n, func(m ast.Node) bool {
						if i, ok := m.(*ast.Ident); ok && p.Info.Uses[i] == obj {
							okAll = false
						}
						return okAll
					})
					return false
				}
				okAll = false
				return false
			})
		}
	}
	if !okAll {
		return
	}
	for _, cc := range sw.Body.List {
		cl := cc.(*ast.CaseClause)
		for i, e := range cl.List {
			n, _ := subst(e)
			cl.List[i] = n
		}
	}
	sw.Init = nil
}

// N4: a call of a bool-valued helper of the integer kernel types (uint128.isZero and the like) whose body
// is a single `return <expr over the receiver>` is replaced by that expression with the receiver
// substituted. The copy carries the type information of the original nodes.
func (p *Prog) inlineKernelPredicates() {
	type pred struct {
		fd   *ast.FuncDecl
		recv types.Object
		expr ast.Expr
	}
	preds := map[*ast.FuncDecl]pred{}
	for _, fd := range p.Funcs {
		if fd.Body == nil || fd.Recv == nil || len(fd.Recv.List) != 1 || len(fd.Recv.List[0].Names) != 1 || fd.Name.IsExported() {
			continue
		}
		if !strings.HasPrefix(recvTypeName(fd.Recv.List[0].Type), "uint") {
			continue
		}
		if fd.Type.Params != nil && fd.Type.Params.NumFields() != 0 {
			continue
		}
		if len(fd.Body.List) != 1 {
			continue
		}
		r, ok := fd.Body.List[0].(*ast.ReturnStmt)
		if !ok || len(r.Results) != 1 {
			continue
		}
		if t := p.typeOf(r.Results[0]); t == nil || t.Underlying() != types.Typ[types.Bool].Underlying() {
			if b, ok := t.Underlying().(*types.Basic); !ok || b.Info()&types.IsBoolean == 0 {
				continue
			}
		}
		pure := true
		ast.Inspect(r.Results[0], func(n ast.Node) bool {
			switch n.(type) {
			case *ast.CallExpr, *ast.FuncLit:
				pure = false
			}
			return pure
		})
		if !pure {
			continue
		}
		preds[fd] = pred{fd, p.Info.Defs[fd.Recv.List[0].Names[0]], r.Results[0]}
	}
	if len(preds) == 0 {
		return
	}
	var clone func(e ast.Expr, recv types.Object, arg ast.Expr) ast.Expr
	clone = func(e ast.Expr, recv types.Object, arg ast.Expr) ast.Expr {
		var out ast.Expr
		switch x := e.(type) {
		case *ast.Ident:
			if p.Info.Uses[x] == recv {
				return arg
			}
			return x
		case *ast.BasicLit:
			return x
		case *ast.ParenExpr:
			out = &ast.ParenExpr{Lparen: x.Lparen, X: clone(x.X, recv, arg), Rparen: x.Rparen}
		case *ast.UnaryExpr:
			out = &ast.UnaryExpr{OpPos: x.OpPos, Op: x.Op, X: clone(x.X, recv, arg)}
		case *ast.BinaryExpr:
			out = &ast.BinaryExpr{X: clone(x.X, recv, arg), OpPos: x.OpPos, Op: x.Op, Y: clone(x.Y, recv, arg)}
		case *ast.IndexExpr:
			out = &ast.IndexExpr{X: clone(x.X, recv, arg), Lbrack: x.Lbrack, Index: clone(x.Index, recv, arg), Rbrack: x.Rbrack}
		case *ast.SelectorExpr:
			n := &ast.SelectorExpr{X: clone(x.X, recv, arg), Sel: x.Sel}
			if s, ok := p.Info.Selections[x]; ok {
				p.Info.Selections[n] = s
			}
			out = n
		case *ast.CompositeLit:
			n := &ast.CompositeLit{Type: x.Type, Lbrace: x.Lbrace, Rbrace: x.Rbrace}
			for _, el := range x.Elts {
				n.Elts = append(n.Elts, clone(el, recv, arg))
			}
			out = n
		default:
			return e
		}
		if tv, ok := p.Info.Types[e]; ok {
			p.Info.Types[out] = tv
		}
		return out
	}
	pureArg := func(e ast.Expr) bool {
		switch y := ast.Unparen(e).(type) {
		case *ast.Ident:
			return true
		case *ast.SelectorExpr:
			_, ok := p.Info.Selections[y]
			return ok
		}
		return false
	}
	var rewrite func(e ast.Expr) ast.Expr
	rewrite = func(e ast.Expr) ast.Expr {
		switch x := e.(type) {
		case *ast.CallExpr:
			for i, a := range x.Args {
				x.Args[i] = rewrite(a)
			}
			if sel, ok := x.Fun.(*ast.SelectorExpr); ok && len(x.Args) == 0 {
				if f, ok := p.Info.Uses[sel.Sel].(*types.Func); ok {
					if fd := p.FuncObj[f]; fd != nil {
						if pr, ok := preds[fd]; ok && pureArg(sel.X) {
							n := clone(pr.expr, pr.recv, sel.X)
							par := &ast.ParenExpr{Lparen: x.Pos(), X: n, Rparen: x.End()}
							if tv, ok := p.Info.Types[x]; ok {
								p.Info.Types[par] = tv
							}
							return par
						}
					}
				}
			}
			return x
		case *ast.ParenExpr:
			x.X = rewrite(x.X)
		case *ast.UnaryExpr:
			x.X = rewrite(x.X)
		case *ast.BinaryExpr:
			x.X = rewrite(x.X)
			x.Y = rewrite(x.Y)
		}
		return e
	}
	for _, fd := range p.Funcs {
		if fd.Body == nil {
			continue
		}
		if _, isPred := preds[fd]; isPred {
			continue
		}
		ast.Inspect(fd.Body, func(n ast.Node) bool {
			switch x := n.(type) {
			case *ast.IfStmt:
				x.Cond = rewrite(x.Cond)
			case *ast.ForStmt:
				if x.Cond != nil {
					x.Cond = rewrite(x.Cond)
				}
			case *ast.ReturnStmt:
				for i, r := range x.Results {
					x.Results[i] = rewrite(r)
				}
			case *ast.AssignStmt:
				for i, r := range x.Rhs {
					x.Rhs[i] = rewrite(r)
				}
			case *ast.CaseClause:
				for i, r := range x.List {
					x.List[i] = rewrite(r)
				}
			case *ast.ValueSpec:
				for i, r := range x.Values {
					x.Values[i] = rewrite(r)
				}
			}
			return true
		})
	}
}

// N5: explaining variables. A local defined exactly once as `v := E` (or in a tuple `a, b := E1, E2`),
// where E reads a limb, a field or a masked/shifted word of other variables without calling anything,
// is replaced by E at every use, provided that on every path from the definition to a use none of the
// variables E mentions has been assigned (checked on the structured syntax, branch by branch). The
// definition itself stays; it is then unused.
func (p *Prog) inlineExplainingVars(fd *ast.FuncDecl) {
	type cand struct {
		obj  types.Object
		expr ast.Expr
		def  *ast.AssignStmt
		deps map[types.Object]bool
	}
	// count definitions/assignments per object
	assigns := map[types.Object]int{}
	ast.Inspect(fd.Body, func(n ast.Node) bool {
		switch x := n.(type) {
		case *ast.AssignStmt:
			for _, l := range x.Lhs {
				if id, ok := ast.Unparen(l).(*ast.Ident); ok {
					if o := p.objOf(id); o != nil {
						assigns[o]++
					}
				}
			}
		case *ast.IncDecStmt:
			if id, ok := ast.Unparen(x.X).(*ast.Ident); ok {
				if o := p.objOf(id); o != nil {
					assigns[o] += 2
				}
			}
		case *ast.RangeStmt:
			for _, l := range []ast.Expr{x.Key, x.Value} {
				if id, ok := l.(*ast.Ident); ok {
					if o := p.objOf(id); o != nil {
						assigns[o] += 2
					}
				}
			}
		case *ast.UnaryExpr:
			if x.Op == token.AND {
				if id, ok := ast.Unparen(x.X).(*ast.Ident); ok {
					if o := p.objOf(id); o != nil {
						assigns[o] += 2 // address taken
					}
				}
			}
		}
		return true
	})
	var explains func(e ast.Expr, deps map[types.Object]bool, top bool) bool
	explains = func(e ast.Expr, deps map[types.Object]bool, top bool) bool {
		switch x := ast.Unparen(e).(type) {
		case *ast.Ident:
			if o := p.objOf(x); o != nil {
				if _, isVar := o.(*types.Var); isVar {
					deps[o] = true
					return !top // a bare copy `v := w` is not an explaining variable
				}
			}
			return p.constOf(x) != nil
		case *ast.BasicLit:
			return true
		case *ast.IndexExpr:
			if _, ok := p.constInt64(x.Index); !ok {
				return false
			}
			if t := p.typeOf(x.X); t != nil {
				if _, isArr := t.Underlying().(*types.Array); !isArr {
					return false
				}
			}
			return explains(x.X, deps, false)
		case *ast.SelectorExpr:
			if _, ok := p.Info.Selections[x]; !ok {
				return p.constOf(x) != nil
			}
			return explains(x.X, deps, false)
		case *ast.BinaryExpr:
			switch x.Op {
			case token.AND, token.OR, token.SHL, token.SHR, token.AND_NOT:
				return explains(x.X, deps, false) && explains(x.Y, deps, false)
			}
			return false
		case *ast.CallExpr:
			if tv, ok := p.Info.Types[x.Fun]; ok && tv.IsType() && len(x.Args) == 1 {
				return explains(x.Args[0], deps, false)
			}
			return false
		}
		return false
	}
	var cands []*cand
	ast.Inspect(fd.Body, func(n ast.Node) bool {
		as, ok := n.(*ast.AssignStmt)
		if !ok || as.Tok != token.DEFINE || len(as.Lhs) != len(as.Rhs) {
			return true
		}
		for i, l := range as.Lhs {
			id, ok := l.(*ast.Ident)
			if !ok || id.Name == "_" {
				continue
			}
			o := p.Info.Defs[id]
			if o == nil || assigns[o] != 1 {
				continue
			}
			if p.constOf(as.Rhs[i]) != nil {
				continue
			}
			deps := map[types.Object]bool{}
			if !explains(as.Rhs[i], deps, true) || len(deps) == 0 {
				continue
			}
			// the declared type must be the expression's own type
			if t := p.typeOf(as.Rhs[i]); t == nil || !types.Identical(t, o.Type()) {
				continue
			}
			cands = append(cands, &cand{o, as.Rhs[i], as, deps})
		}
		return true
	})
	inlined := map[types.Object]bool{}
	defer func() {
		// a definition all of whose variables were inlined is dead: remove it
		dead := func(s ast.Stmt) bool {
			as, ok := s.(*ast.AssignStmt)
			if !ok || as.Tok != token.DEFINE {
				return false
			}
			for _, l := range as.Lhs {
				id, ok := l.(*ast.Ident)
				if !ok {
					return false
				}
				if id.Name == "_" {
					continue
				}
				if !inlined[p.Info.Defs[id]] {
					return false
				}
			}
			return len(as.Lhs) > 0
		}
		filter := func(list []ast.Stmt) []ast.Stmt {
			out := list[:0]
			for _, s := range list {
				if !dead(s) {
					out = append(out, s)
				}
			}
			return out
		}
		ast.Inspect(fd.Body, func(n ast.Node) bool {
			switch x := n.(type) {
			case *ast.BlockStmt:
				x.List = filter(x.List)
			case *ast.CaseClause:
				x.Body = filter(x.Body)
			}
			return true
		})
	}()
	for _, cd := range cands {
		valid := true
		started := false
		touches := func(n ast.Node) bool { // n assigns one of the deps
			hit := false
			ast.Inspect(n, func(m ast.Node) bool {
				switch x := m.(type) {
				case *ast.AssignStmt:
					for _, l := range x.Lhs {
						var base ast.Expr = l
						for {
							switch b := ast.Unparen(base).(type) {
							case *ast.IndexExpr:
								base = b.X
								continue
							case *ast.SelectorExpr:
								base = b.X
								continue
							case *ast.StarExpr:
								base = b.X
								continue
							}
							break
						}
						if id, ok := ast.Unparen(base).(*ast.Ident); ok && cd.deps[p.objOf(id)] {
							hit = true
						}
					}
				case *ast.IncDecStmt:
					if id, ok := ast.Unparen(x.X).(*ast.Ident); ok && cd.deps[p.objOf(id)] {
						hit = true
					}
				case *ast.RangeStmt:
					for _, l := range []ast.Expr{x.Key, x.Value} {
						if id, ok := l.(*ast.Ident); ok && cd.deps[p.objOf(id)] {
							hit = true
						}
					}
				case *ast.CallExpr:
					// a pointer-receiver method on a dep may modify it
					if sel, ok := x.Fun.(*ast.SelectorExpr); ok {
						if s := p.Info.Selections[sel]; s != nil {
							if f, ok := s.Obj().(*types.Func); ok {
								if sig, ok := f.Type().(*types.Signature); ok && sig.Recv() != nil {
									if _, isPtr := sig.Recv().Type().(*types.Pointer); isPtr {
										if id, ok := ast.Unparen(sel.X).(*ast.Ident); ok && cd.deps[p.objOf(id)] {
											hit = true
										}
									}
								}
							}
						}
					}
				}
				return !hit
			})
			return hit
		}
		usesIn := func(n ast.Node) bool {
			u := false
			if n == nil {
				return false
			}
			ast.Inspect(n, func(m ast.Node) bool {
				if id, ok := m.(*ast.Ident); ok && p.Info.Uses[id] == cd.obj {
					u = true
				}
				return !u
			})
			return u
		}
		ok := true
		// walk returns the validity after the list (false if invalidated on some continuing path)
		var walk func(list []ast.Stmt, v bool) bool
		var stmt func(s ast.Stmt, v bool) bool
		stmt = func(s ast.Stmt, v bool) bool {
			if !started {
				if s == ast.Stmt(cd.def) {
					started = true
					return true
				}
				// descend to find the definition
				switch x := s.(type) {
				case *ast.BlockStmt:
					return walk(x.List, v)
				case *ast.IfStmt:
					a := walk(x.Body.List, v)
					b := v
					if x.Else != nil {
						b = stmt(x.Else, v)
					}
					return a && b
				case *ast.ForStmt:
					r := walk(x.Body.List, v)
					if started && touches(x) && usesIn(x) {
						ok = false // defined inside a loop that changes its sources: keep it simple, give up
					}
					return r
				case *ast.SwitchStmt:
					r := v
					for _, cc := range x.Body.List {
						r = walk(cc.(*ast.CaseClause).Body, v) && r
					}
					return r
				case *ast.LabeledStmt:
					return stmt(x.Stmt, v)
				}
				return v
			}
			switch x := s.(type) {
			case *ast.BlockStmt:
				return walk(x.List, v)
			case *ast.IfStmt:
				if x.Init != nil {
					v = stmt(x.Init, v)
				}
				if usesIn(x.Cond) && !v {
					ok = false
				}
				a := walk(x.Body.List, v)
				if exitsBlock(x.Body.List) {
					a = true
				}
				b := v
				if x.Else != nil {
					b = stmt(x.Else, v)
					if eb, isBlk := x.Else.(*ast.BlockStmt); isBlk && exitsBlock(eb.List) {
						b = true
					}
				}
				return a && b
			case *ast.ForStmt:
				if x.Init != nil {
					v = stmt(x.Init, v)
				}
				if touches(x) {
					if usesIn(x) {
						ok = false
					}
					return false
				}
				if usesIn(x) && !v {
					ok = false
				}
				return v
			case *ast.RangeStmt:
				if touches(x) {
					if usesIn(x) {
						ok = false
					}
					return false
				}
				if usesIn(x) && !v {
					ok = false
				}
				return v
			case *ast.SwitchStmt:
				if x.Init != nil {
					v = stmt(x.Init, v)
				}
				if usesIn(x.Tag) && !v {
					ok = false
				}
				// case expressions are evaluated before any body
				for _, cc := range x.Body.List {
					for _, e := range cc.(*ast.CaseClause).List {
						if usesIn(e) && !v {
							ok = false
						}
					}
				}
				r := true
				for _, cc := range x.Body.List {
					cl := cc.(*ast.CaseClause)
					o := walk(cl.Body, v)
					if exitsBlock(cl.Body) && !endsWithBreak(cl.Body) {
						o = true
					}
					r = r && o
				}
				return r && v
			case *ast.LabeledStmt:
				return stmt(x.Stmt, v)
			default:
				// uses are evaluated before the statement's own assignments take effect
				if usesIn(s) && !v {
					ok = false
				}
				if touches(s) {
					return false
				}
				return v
			}
		}
		walk = func(list []ast.Stmt, v bool) bool {
			for _, s := range list {
				v = stmt(s, v)
			}
			return v
		}
		walk(fd.Body.List, valid)
		if !ok || !started {
			continue
		}
		// substitute
		inlined[cd.obj] = true
		var sub func(e ast.Expr) ast.Expr
		sub = func(e ast.Expr) ast.Expr {
			switch x := e.(type) {
			case *ast.Ident:
				if p.Info.Uses[x] == cd.obj {
					par := &ast.ParenExpr{Lparen: x.Pos(), X: cd.expr, Rparen: x.End()}
					if tv, ok := p.Info.Types[x]; ok {
						p.Info.Types[par] = tv
					}
					return par
				}
			case *ast.ParenExpr:
				x.X = sub(x.X)
			case *ast.UnaryExpr:
				x.X = sub(x.X)
			case *ast.BinaryExpr:
				x.X, x.Y = sub(x.X), sub(x.Y)
			case *ast.CallExpr:
				for i, a := range x.Args {
					x.Args[i] = sub(a)
				}
				if sel, ok := x.Fun.(*ast.SelectorExpr); ok {
					sel.X = sub(sel.X)
				}
			case *ast.IndexExpr:
				x.X, x.Index = sub(x.X), sub(x.Index)
			case *ast.SelectorExpr:
				x.X = sub(x.X)
			case *ast.SliceExpr:
				x.X = sub(x.X)
				if x.Low != nil {
					x.Low = sub(x.Low)
				}
				if x.High != nil {
					x.High = sub(x.High)
				}
			case *ast.CompositeLit:
				for i, el := range x.Elts {
					x.Elts[i] = sub(el)
				}
			case *ast.KeyValueExpr:
				x.Value = sub(x.Value)
			case *ast.StarExpr:
				x.X = sub(x.X)
			}
			return e
		}
		ast.Inspect(fd.Body, func(n ast.Node) bool {
			switch x := n.(type) {
			case *ast.IfStmt:
				x.Cond = sub(x.Cond)
			case *ast.ForStmt:
				if x.Cond != nil {
					x.Cond = sub(x.Cond)
				}
			case *ast.SwitchStmt:
				if x.Tag != nil {
					x.Tag = sub(x.Tag)
				}
			case *ast.CaseClause:
				for i, e := range x.List {
					x.List[i] = sub(e)
				}
			case *ast.ReturnStmt:
				for i, r := range x.Results {
					x.Results[i] = sub(r)
				}
			case *ast.AssignStmt:
				if x != cd.def {
					for i, r := range x.Rhs {
						x.Rhs[i] = sub(r)
					}
					for i, l := range x.Lhs {
						if _, isId := l.(*ast.Ident); !isId {
							x.Lhs[i] = sub(l)
						}
					}
				}
			case *ast.ExprStmt:
				x.X = sub(x.X)
			case *ast.IncDecStmt:
				x.X = sub(x.X)
			case *ast.ValueSpec:
				for i, v := range x.Values {
					x.Values[i] = sub(v)
				}
			}
			return true
		})
	}
}
