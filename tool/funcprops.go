package main

import (
	"go/ast"
	"sort"
	"strings"
)

// reachTags[f] = the numeric properties (C01..C19 except the pure layout/dispatch ones) anchored in some
// function that reaches f through static calls. Computed once per load from the typed syntax.
var reachTags = map[string][]string{}

func (p *Prog) computeReachTags() {
	for k := range reachTags {
		delete(reachTags, k)
	}
	callees := map[string]map[string]bool{}
	for name, fd := range p.Funcs {
		if fd.Body == nil {
			continue
		}
		set := map[string]bool{}
		ast.Inspect(fd.Body, func(n ast.Node) bool {
			if call, ok := n.(*ast.CallExpr); ok {
				if cn := p.calleeName(call); cn != "" && p.Funcs[cn] != nil && cn != name {
					set[cn] = true
				}
			}
			return true
		})
		callees[name] = set
	}
	propagates := map[string]bool{"C01": true, "C02": true, "C03": true, "C05": true, "C06": true, "C07": true, "C08": true, "C09": true,
		"C10": true, "C11": true, "C13": true, "C14": true, "C16": true, "C17": true, "C18": true}
	acc := map[string]map[string]bool{}
	for name := range p.Funcs {
		base := funcPropsBase(name)
		if len(base) == 1 && base[0] == "C20" {
			continue
		}
		if strings.HasPrefix(name, "uint") || strings.HasPrefix(name, "decomposed192.") || strings.HasPrefix(name, "RoundingMode.") {
			continue // kernels do not originate tags, they receive them
		}
		// depth-first from this anchor
		seen := map[string]bool{name: true}
		stack := []string{name}
		for len(stack) > 0 {
			cur := stack[len(stack)-1]
			stack = stack[:len(stack)-1]
			for c := range callees[cur] {
				if seen[c] {
					continue
				}
				seen[c] = true
				stack = append(stack, c)
				if acc[c] == nil {
					acc[c] = map[string]bool{}
				}
				for _, b := range base {
					if propagates[b] {
						acc[c][b] = true
					}
				}
			}
		}
	}
	for name, set := range acc {
		var l []string
		for k := range set {
			l = append(l, k)
		}
		sort.Strings(l)
		reachTags[name] = l
	}
}

// funcProps maps a function of the repository to the properties whose
// behaviour it implements (anchors of properties.jsonl). Generic per-construct
// rules tag their obligations with it so that a violation is reported for the
// properties that the broken construct actually serves.
func funcProps(name string) []string {
	ps := funcPropsBase(name)
	// a function also serves every numeric property whose operations reach it through the call graph
	// (reduce128 is behind Parse and UnmarshalJSON, QuoWithMode behind FromRat and Pow(x, -1), ...)
	if extra := reachTags[name]; len(extra) > 0 {
		ps = append([]string{}, ps...)
		if len(ps) == 1 && ps[0] == "C20" {
			ps = ps[:0]
		}
		for _, e := range extra {
			if !hasProp(ps, e) {
				ps = append(ps, e)
			}
		}
	}
	// C19 (results depend on values, not encodings) is anchored in every function that aligns,
	// scales or inspects a coefficient/exponent pair: a defect there shows up for some cohort
	// members and not for others.
	switch {
	case strings.HasPrefix(name, "uint"), strings.HasPrefix(name, "Payload."), name == "parse", name == "parseNumber", name == "parseFormat",
		strings.HasPrefix(name, "digits."), strings.HasPrefix(name, "formatArgs."), name == "Decimal.Compose", name == "Decimal.UnmarshalJSON", name == "Decimal.Scan":
		return ps
	}
	if !hasProp(ps, "C19") && !(len(ps) == 1 && ps[0] == "C20") {
		ps = append(append([]string{}, ps...), "C19")
	}
	return ps
}

func funcPropsBase(name string) []string {
	if r, ok := roleAlias[name]; ok {
		name = r
	}
	kernel := []string{"C01", "C02", "C03", "C05", "C08", "C09", "C10", "C11", "C16", "C17", "C18"}
	switch name {
	case "Decimal.add", "Decimal.AddWithMode", "Decimal.SubWithMode", "Decimal.Add", "Decimal.Sub":
		return []string{"C01"}
	case "Decimal.MulWithMode", "Decimal.QuoWithMode", "Decimal.Mul", "Decimal.Quo":
		return []string{"C02"}
	case "Decimal.QuoRemWithMode", "Decimal.QuoRem":
		return []string{"C03"}
	case "Decimal.PowWithMode", "Decimal.Pow":
		return []string{"C18"}
	case "Decimal.Cmp", "Decimal.CmpAbs", "Decimal.Equal", "Compare", "Min", "Max", "Decimal.IsZero", "Decimal.Sign":
		return []string{"C04"}
	case "Decimal.isOne", "isOne":
		return []string{"C18", "C04"}
	case "parse", "Decimal.Scan", "Parse", "MustParse", "Decimal.UnmarshalText":
		return []string{"C05"}
	case "parseNumber":
		return []string{"C05", "C13", "C06"}
	case "Decimal.digits", "digits.fmtE", "digits.fmtF":
		return []string{"C06", "C07", "C13"}
	case "Decimal.String", "Decimal.MarshalText", "Decimal.appendSpecial", "Decimal.writeSpecial":
		return []string{"C06"}
	case "Append", "Format":
		return []string{"C06", "C07"}
	case "Decimal.format", "Decimal.Append", "Decimal.Format", "digits.round", "digits.pad", "parseFormat", "formatArgs.precision", "formatArgs.width":
		return []string{"C07"}
	case "Decimal.Round", "Decimal.Ceil", "Decimal.Floor", "Round", "Ceil", "Floor", "Trunc":
		return []string{"C08"}
	case "RoundingMode.reduce64":
		return []string{"C11", "C08"}
	case "RoundingMode.reduce128", "RoundingMode.round":
		return kernel
	case "RoundingMode.reduce192":
		return []string{"C01", "C16", "C17", "C18"}
	case "RoundingMode.reduce256":
		return []string{"C02", "C09"}
	case "FromFloat64", "FromFloat32", "Decimal.Float64", "Decimal.Float32", "Decimal.Float", "FromFloat":
		return []string{"C09"}
	case "FromInt", "FromInt32", "FromInt64", "FromUint32", "FromUint64", "FromRat", "Decimal.Int", "Decimal.Int32", "Decimal.Int64", "Decimal.Uint32", "Decimal.Uint64", "Decimal.Rat":
		return []string{"C10"}
	case "New", "Ldexp", "Frexp":
		return []string{"C11"}
	case "Decimal.MarshalBinary", "Decimal.UnmarshalBinary", "compose", "Decimal.decompose":
		return []string{"C12"}
	case "Decimal.MarshalJSON", "Decimal.UnmarshalJSON":
		return []string{"C13"}
	case "Decimal.Compose", "Decimal.Decompose":
		return []string{"C14"}
	case "Exp", "Exp2", "Exp10", "Expm1", "Log", "Log2", "Log10", "Log1p":
		return []string{"C16"}
	case "Sqrt", "Cbrt":
		return []string{"C17"}
	case "Decimal.Canonical":
		return []string{"C19"}
	}
	if strings.HasPrefix(name, "decomposed192.") {
		switch strings.TrimPrefix(name, "decomposed192.") {
		case "log", "log1p", "epowm1", "add1neg":
			return []string{"C16", "C18"}
		case "epow", "powexp10", "rcp":
			return []string{"C16", "C18"}
		}
		return []string{"C16", "C17", "C18"}
	}
	if strings.HasPrefix(name, "uint") {
		return []string{"C01", "C02", "C03", "C04", "C16", "C17"}
	}
	return []string{"C20"}
}

// allArithProps is the union used for rule registration.
var allArithProps = []string{"C01", "C02", "C03", "C04", "C05", "C06", "C07", "C08", "C09", "C10", "C11", "C12", "C13", "C14", "C16", "C17", "C18", "C19", "C20"}
