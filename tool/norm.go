package main

import (
	"go/ast"
	"go/token"
	"go/types"
	"math/big"
)

// normCmp normalises a comparison of an expression with an integer constant
// to one of  x > k,  x <= k,  x == k,  x != k  (GEQ/LSS are rewritten with
// k∓1, a constant on the left is swapped, !(…) is pushed inside). For
// unsigned x, `x > 0` is reported as `x != 0` and `x <= 0` as `x == 0`.
func (p *Prog) normCmp(e ast.Expr) (x ast.Expr, op token.Token, k *big.Int, ok bool) {
	neg := false
	for {
		e = ast.Unparen(e)
		if ue, isU := e.(*ast.UnaryExpr); isU && ue.Op == token.NOT {
			neg = !neg
			e = ue.X
			continue
		}
		break
	}
	be, isB := e.(*ast.BinaryExpr)
	if !isB {
		return nil, 0, nil, false
	}
	op = be.Op
	l, r := be.X, be.Y
	kv := p.constOf(r)
	if kv == nil {
		if lv := p.constOf(l); lv != nil {
			// constant on the left: swap
			l, r, kv = r, l, lv
			switch op {
			case token.LSS:
				op = token.GTR
			case token.LEQ:
				op = token.GEQ
			case token.GTR:
				op = token.LSS
			case token.GEQ:
				op = token.LEQ
			}
		} else {
			return nil, 0, nil, false
		}
	}
	kb, okc := constBig(kv)
	if !okc {
		return nil, 0, nil, false
	}
	if neg {
		switch op {
		case token.LSS:
			op = token.GEQ
		case token.LEQ:
			op = token.GTR
		case token.GTR:
			op = token.LEQ
		case token.GEQ:
			op = token.LSS
		case token.EQL:
			op = token.NEQ
		case token.NEQ:
			op = token.EQL
		default:
			return nil, 0, nil, false
		}
	}
	k = new(big.Int).Set(kb)
	switch op {
	case token.GEQ:
		op = token.GTR
		k.Sub(k, big.NewInt(1))
	case token.LSS:
		op = token.LEQ
		k.Sub(k, big.NewInt(1))
	case token.GTR, token.LEQ, token.EQL, token.NEQ:
	default:
		return nil, 0, nil, false
	}
	// unsigned: x > 0  <=>  x != 0 ;  x <= 0  <=>  x == 0
	if k.Sign() == 0 && (op == token.GTR || op == token.LEQ) {
		if t := p.typeOf(l); t != nil {
			if b, isBasic := t.Underlying().(*types.Basic); isBasic && b.Info()&types.IsUnsigned != 0 {
				if op == token.GTR {
					op = token.NEQ
				} else {
					op = token.EQL
				}
			}
		}
	}
	return ast.Unparen(l), op, k, true
}

// negOp returns the negation of a normalised operator.
func negOp(op token.Token) token.Token {
	switch op {
	case token.GTR:
		return token.LEQ
	case token.LEQ:
		return token.GTR
	case token.EQL:
		return token.NEQ
	case token.NEQ:
		return token.EQL
	case token.LSS:
		return token.GEQ
	case token.GEQ:
		return token.LSS
	}
	return token.ILLEGAL
}

// exitsBlock reports whether a statement list always leaves the enclosing
// loop iteration or function (break / continue / return at its end).
func exitsBlock(list []ast.Stmt) bool {
	if len(list) == 0 {
		return false
	}
	switch x := list[len(list)-1].(type) {
	case *ast.ReturnStmt:
		return true
	case *ast.BranchStmt:
		return x.Tok == token.BREAK || x.Tok == token.CONTINUE
	case *ast.IfStmt:
		if x.Else == nil {
			return false
		}
		eb, ok := x.Else.(*ast.BlockStmt)
		return ok && exitsBlock(x.Body.List) && exitsBlock(eb.List)
	}
	return false
}

// disjuncts splits a condition on ||.
func disjuncts(e ast.Expr) []ast.Expr {
	e = ast.Unparen(e)
	if be, ok := e.(*ast.BinaryExpr); ok && be.Op == token.LOR {
		return append(disjuncts(be.X), disjuncts(be.Y)...)
	}
	return []ast.Expr{e}
}

// factsAt collects the comparisons known to hold at the last node of stack:
// conjuncts of enclosing if/for conditions (negated disjuncts on else
// branches), and the negated disjuncts of earlier `if c { return/break/continue }`
// statements in the enclosing blocks. `reset` is called for a statement that
// may invalidate earlier facts; when it returns true the facts gathered so
// far are dropped.
type fact struct {
	cond ast.Expr
	val  bool // the condition is known to have this value
}

func (p *Prog) factsAt(stack []ast.Node, invalidates func(s ast.Stmt) bool) []fact {
	var facts []fact
	var addCond func(cond ast.Expr, val bool)
	addCond = func(cond ast.Expr, val bool) {
		cond = ast.Unparen(cond)
		if ue, ok := cond.(*ast.UnaryExpr); ok && ue.Op == token.NOT {
			addCond(ue.X, !val)
			return
		}
		if be, ok := cond.(*ast.BinaryExpr); ok {
			if be.Op == token.LAND && val {
				addCond(be.X, true)
				addCond(be.Y, true)
				return
			}
			if be.Op == token.LOR && !val {
				addCond(be.X, false)
				addCond(be.Y, false)
				return
			}
			if be.Op == token.LAND || be.Op == token.LOR {
				return // a disjunction of facts: nothing definite
			}
		}
		facts = append(facts, fact{cond, val})
	}
	site := stack[len(stack)-1]
	// walk from the function body inwards
	for i := 0; i < len(stack)-1; i++ {
		switch s := stack[i].(type) {
		case *ast.BlockStmt, *ast.CaseClause:
			var list []ast.Stmt
			if b, ok := s.(*ast.BlockStmt); ok {
				list = b.List
			} else {
				list = s.(*ast.CaseClause).Body
			}
			// inside `switch X { case k: ... }` the tag equals k; in the default arm it differs from every listed constant
			if cl, ok := s.(*ast.CaseClause); ok && i >= 2 {
				if sw, ok := stack[i-2].(*ast.SwitchStmt); ok && sw.Tag != nil {
					if len(cl.List) == 1 {
						addCond(&ast.BinaryExpr{X: sw.Tag, Op: token.EQL, Y: cl.List[0]}, true)
					} else if cl.List == nil {
						for _, cc := range sw.Body.List {
							for _, e := range cc.(*ast.CaseClause).List {
								addCond(&ast.BinaryExpr{X: sw.Tag, Op: token.EQL, Y: e}, false)
							}
						}
					}
				}
			}
			for _, st := range list {
				if st == stack[i+1] || containsNode(st, site) {
					break
				}
				if invalidates != nil && invalidates(st) {
					facts = nil
				}
				if ifs, ok := st.(*ast.IfStmt); ok && ifs.Else == nil && ifs.Init == nil && exitsBlock(ifs.Body.List) {
					addCond(ifs.Cond, false)
				}
				// a loop without break ends with its condition false
				if f, ok := st.(*ast.ForStmt); ok && f.Cond != nil {
					brk := false
					ast.Inspect(f.Body, func(m ast.Node) bool {
						if b, ok := m.(*ast.BranchStmt); ok && b.Tok == token.BREAK {
							brk = true
						}
						return true
					})
					if !brk {
						addCond(f.Cond, false)
					}
				}
			}
		case *ast.IfStmt:
			if i+1 < len(stack) {
				if stack[i+1] == ast.Node(s.Body) {
					addCond(s.Cond, true)
				} else if s.Else != nil && stack[i+1] == s.Else {
					addCond(s.Cond, false)
				}
			}
		case *ast.BinaryExpr:
			// to the right of `a ||` the left operand is false; to the right of `a &&` it is true
			if (s.Op == token.LOR || s.Op == token.LAND) && i+1 < len(stack) && stack[i+1] == ast.Node(s.Y) {
				addCond(s.X, s.Op == token.LAND)
			}
		case *ast.ForStmt:
			if s.Cond != nil && i+1 < len(stack) && stack[i+1] == ast.Node(s.Body) {
				// facts established before the loop may be invalidated by the loop body itself
				if invalidates != nil {
					for _, st := range s.Body.List {
						if !containsNode(st, site) && invalidates(st) {
							facts = nil
						}
					}
				}
				addCond(s.Cond, true)
			}
		}
	}
	return facts
}
