package main

import (
	"go/ast"
	"go/token"
	"math/big"
)

// A small interval analysis for one integer variable along a statement list:
// enough for "two clamping loops bring the exponent into range" arguments.

type ival struct {
	lo, hi *big.Int // nil = unbounded
}

func minB(a, b *big.Int) *big.Int {
	if a == nil || b == nil {
		return nil // min with -inf/unknown upper bound: for upper bounds nil means +inf, handled by callers
	}
	if a.Cmp(b) < 0 {
		return a
	}
	return b
}

func joinIval(a, b ival) ival {
	var r ival
	if a.lo != nil && b.lo != nil {
		r.lo = a.lo
		if b.lo.Cmp(a.lo) < 0 {
			r.lo = b.lo
		}
	}
	if a.hi != nil && b.hi != nil {
		r.hi = a.hi
		if b.hi.Cmp(a.hi) > 0 {
			r.hi = b.hi
		}
	}
	return r
}

// refine applies the knowledge `cond == val` to the interval of key.
func (p *Prog) refineIval(in ival, cond ast.Expr, val bool, key string) ival {
	cond = ast.Unparen(cond)
	if ue, ok := cond.(*ast.UnaryExpr); ok && ue.Op == token.NOT {
		return p.refineIval(in, ue.X, !val, key)
	}
	if be, ok := cond.(*ast.BinaryExpr); ok {
		if (be.Op == token.LAND && val) || (be.Op == token.LOR && !val) {
			return p.refineIval(p.refineIval(in, be.X, val, key), be.Y, val, key)
		}
		if be.Op == token.LAND || be.Op == token.LOR {
			return in
		}
	}
	x, op, k, ok := p.normCmp(cond)
	if !ok || p.exprKey(x) != key {
		return in
	}
	if !val {
		op = negOp(op)
	}
	out := in
	switch op {
	case token.GTR: // X > k
		lo := new(big.Int).Add(k, big.NewInt(1))
		if out.lo == nil || lo.Cmp(out.lo) > 0 {
			out.lo = lo
		}
	case token.LEQ:
		if out.hi == nil || k.Cmp(out.hi) < 0 {
			out.hi = new(big.Int).Set(k)
		}
	case token.EQL:
		out.lo, out.hi = new(big.Int).Set(k), new(big.Int).Set(k)
	}
	return out
}

// ivalWalk propagates the interval of key through list; it stops at the
// statement containing `stop` (exclusive) and reports whether it got there.
func (p *Prog) ivalWalk(list []ast.Stmt, in ival, key string, stop ast.Node) (ival, bool) {
	cur := in
	for _, s := range list {
		if stop != nil && (s == stop || containsNode(s, stop)) {
			// descend to refine by enclosing conditions
			switch x := s.(type) {
			case *ast.IfStmt:
				if containsNode(x.Body, stop) {
					return p.ivalWalk(x.Body.List, p.refineIval(cur, x.Cond, true, key), key, stop)
				}
				if x.Else != nil && containsNode(x.Else, stop) {
					if eb, ok := x.Else.(*ast.BlockStmt); ok {
						return p.ivalWalk(eb.List, p.refineIval(cur, x.Cond, false, key), key, stop)
					}
				}
			case *ast.BlockStmt:
				return p.ivalWalk(x.List, cur, key, stop)
			case *ast.ForStmt:
				// inside a loop body: only the loop condition is known
				body := cur
				if p.assignsTo(x.Body, key) {
					body = ival{}
				}
				if x.Cond != nil {
					body = p.refineIval(body, x.Cond, true, key)
				}
				return p.ivalWalk(x.Body.List, body, key, stop)
			case *ast.SwitchStmt:
				for _, cc := range x.Body.List {
					if cl := cc.(*ast.CaseClause); containsNode(cl, stop) {
						return p.ivalWalk(cl.Body, cur, key, stop)
					}
				}
			}
			return cur, true
		}
		cur = p.ivalStep(s, cur, key)
	}
	return cur, stop == nil
}

func (p *Prog) ivalStep(s ast.Stmt, cur ival, key string) ival {
	switch x := s.(type) {
	case *ast.IfStmt:
		if x.Init != nil && p.assignsTo(x.Init, key) {
			return ival{}
		}
		if exitsBlock(x.Body.List) && x.Else == nil {
			// the body may still need the refinement internally, but control continues only on !cond
			return p.refineIval(cur, x.Cond, false, key)
		}
		thenOut, _ := p.ivalWalk(x.Body.List, p.refineIval(cur, x.Cond, true, key), key, nil)
		elseOut := p.refineIval(cur, x.Cond, false, key)
		if x.Else != nil {
			switch e := x.Else.(type) {
			case *ast.BlockStmt:
				elseOut, _ = p.ivalWalk(e.List, elseOut, key, nil)
			case *ast.IfStmt:
				elseOut = p.ivalStep(e, elseOut, key)
			}
		}
		if exitsBlock(x.Body.List) {
			return elseOut
		}
		if x.Else != nil {
			if eb, ok := x.Else.(*ast.BlockStmt); ok && exitsBlock(eb.List) {
				return thenOut
			}
		}
		return joinIval(thenOut, elseOut)
	case *ast.ForStmt:
		return p.ivalLoop(x, cur, key)
	case *ast.BlockStmt:
		out, _ := p.ivalWalk(x.List, cur, key, nil)
		return out
	case *ast.AssignStmt, *ast.IncDecStmt:
		if a, ok := p.asAdjustment(s); ok && a.key == key {
			d := big.NewInt(a.delta)
			out := ival{}
			if cur.lo != nil {
				out.lo = new(big.Int).Add(cur.lo, d)
			}
			if cur.hi != nil {
				out.hi = new(big.Int).Add(cur.hi, d)
			}
			return out
		}
		if as, ok := s.(*ast.AssignStmt); ok && as.Tok == token.ASSIGN && len(as.Lhs) == 1 && len(as.Rhs) == 1 && p.exprKey(as.Lhs[0]) == key {
			if k, ok := constBig(p.constOf(as.Rhs[0])); ok {
				return ival{lo: k, hi: new(big.Int).Set(k)}
			}
		}
		if p.assignsTo(s, key) {
			return ival{}
		}
	default:
		if p.assignsTo(s, key) {
			return ival{}
		}
	}
	return cur
}

// ivalLoop handles the clamping idioms.
func (p *Prog) ivalLoop(f *ast.ForStmt, cur ival, key string) ival {
	cond := f.Cond
	body := f.Body.List
	// for { if C { break }; ... }  is  for !C { ... }
	negate := false
	if cond == nil && len(body) > 0 {
		if ifs, ok := body[0].(*ast.IfStmt); ok && ifs.Else == nil && len(ifs.Body.List) == 1 {
			if br, ok := ifs.Body.List[0].(*ast.BranchStmt); ok && br.Tok == token.BREAK {
				cond, negate, body = ifs.Cond, true, body[1:]
			}
		}
	}
	if !p.assignsTo(f.Body, key) && (f.Post == nil || !p.assignsTo(f.Post, key)) {
		return cur
	}
	// total signed step of the key per iteration: only +1 / -1 steps (or +c with an in-loop upper guard) are understood
	var steps []int64
	other := false
	breaks := false
	var visit func(list []ast.Stmt)
	visit = func(list []ast.Stmt) {
		for _, s := range list {
			if a, ok := p.asAdjustment(s); ok && a.key == key {
				steps = append(steps, a.delta)
				continue
			}
			switch y := s.(type) {
			case *ast.IfStmt:
				visit(y.Body.List)
				if eb, ok := y.Else.(*ast.BlockStmt); ok {
					visit(eb.List)
				}
			case *ast.BranchStmt:
				if y.Tok == token.BREAK {
					breaks = true
				}
			default:
				if p.assignsTo(s, key) {
					other = true
				}
			}
		}
	}
	visit(body)
	if f.Post != nil {
		visit([]ast.Stmt{f.Post})
	}
	if other || len(steps) == 0 {
		return ival{}
	}
	allPos, allNeg := true, true
	for _, d := range steps {
		if d <= 0 {
			allPos = false
		}
		if d >= 0 {
			allNeg = false
		}
	}
	unit := len(steps) == 1 && (steps[0] == 1 || steps[0] == -1)
	// loop condition on the key itself
	if cond != nil {
		x, op, k, ok := p.normCmp(cond)
		if ok && p.exprKey(x) == key {
			if negate {
				op = negOp(op)
			}
			switch {
			case op == token.LEQ && allPos && unit && !breaks: // for X <= k { X++ }: ends with X == k+1 if entered
				t := new(big.Int).Add(k, big.NewInt(1))
				out := ival{lo: t, hi: cur.hi}
				if cur.lo != nil && cur.lo.Cmp(t) > 0 {
					out.lo = cur.lo
				}
				if out.hi != nil && out.hi.Cmp(t) < 0 {
					out.hi = t
				}
				return out
			case op == token.GTR && allNeg && unit && !breaks: // for X > k { X-- }: ends with X == k if entered
				out := ival{lo: cur.lo, hi: new(big.Int).Set(k)}
				if cur.hi != nil && cur.hi.Cmp(k) < 0 {
					out.hi = cur.hi
				}
				if out.lo != nil && out.lo.Cmp(k) > 0 {
					out.lo = new(big.Int).Set(k)
				}
				return out
			}
		}
	}
	// increments guarded inside the loop by `if X > k { return }` right after the step: X <= k whenever the loop continues
	if allPos {
		var guard *big.Int
		for i, s := range body {
			if a, ok := p.asAdjustment(s); ok && a.key == key && i+1 < len(body) {
				if ifs, ok := body[i+1].(*ast.IfStmt); ok && ifs.Else == nil && blockLeaves(ifs.Body.List) {
					if x, op, k, ok := p.normCmp(ifs.Cond); ok && p.exprKey(x) == key && op == token.GTR {
						guard = k
					}
				}
			}
		}
		out := ival{lo: cur.lo}
		if guard != nil && cur.hi != nil {
			out.hi = cur.hi
			if guard.Cmp(out.hi) > 0 {
				out.hi = guard
			}
		}
		return out
	}
	if allNeg {
		return ival{hi: cur.hi}
	}
	return ival{}
}
