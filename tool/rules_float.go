package main

import (
	"fmt"
	"go/ast"
	"go/token"
	"go/types"
	"strings"
)

// E3.float: FromFloat64 unpacks its argument as IEEE 754 binary64. The
// definitions are evaluated by bit provenance, so renaming, reordering of
// independent definitions, named constants and equivalent masks are accepted.
func ruleLayoutFloat(c *Ctx) {
	p := c.P
	fd := c.fn("FromFloat64")
	if fd == nil {
		return
	}
	const frac, ebits, bias = 52, 11, 1023
	// the raw bits
	var bitsObj types.Object
	for _, s := range fd.Body.List {
		if as, ok := s.(*ast.AssignStmt); ok && as.Tok == token.DEFINE && len(as.Lhs) == 1 && len(as.Rhs) == 1 {
			if call, ok := as.Rhs[0].(*ast.CallExpr); ok && p.calleeName(call) == "math.Float64bits" {
				bitsObj = p.objOf(as.Lhs[0])
			}
		}
	}
	if bitsObj == nil {
		c.undecided("float.fields", fd, "math.Float64bits(f) not found", "C09")
		return
	}
	env := &bvEnv{p: p, vars: map[types.Object]bitvec{}}
	env.inputs = p.leafInputs(map[types.Object]string{bitsObj: "f"}, nil, nil)
	wantMant := expectVec([]run{{frac - 1, 0, "f", 0}}, nil)
	wantExp := expectVec([]run{{ebits - 1, 0, "f", frac}}, nil)
	var mantObj, expObj, negObj, shiftObj types.Object
	var expIf *ast.IfStmt
	for _, s := range fd.Body.List {
		switch x := s.(type) {
		case *ast.AssignStmt:
			if x.Tok != token.DEFINE || len(x.Lhs) != 1 || len(x.Rhs) != 1 {
				continue
			}
			o := p.objOf(x.Lhs[0])
			rhs := ast.Unparen(x.Rhs[0])
			v := env.eval(rhs)
			switch {
			case v == wantMant && mantObj == nil:
				mantObj = o
			case v == wantExp && expObj == nil:
				expObj = o
			default:
				// sign: (bits & 1<<63) != 0  or  bits>>63 != 0 / == 1
				if nx, op, k, ok := p.normCmp(rhs); ok && negObj == nil {
					bv := env.eval(nx)
					single := -1
					cnt := 0
					for i := 0; i < 64; i++ {
						if bv[i].k != '0' {
							cnt++
							single = i
						}
					}
					if cnt == 1 && bv[single].k == 'i' && bv[single].idx == 63 {
						if (op == token.NEQ && k.Sign() == 0) || (op == token.EQL && k.IsUint64() && k.Uint64() == 1<<uint(single)) {
							negObj = o
						}
					}
				}
				// shift := int(52 - exp)
				if expObj != nil && shiftObj == nil {
					cenv := p.newCanonEnv(fd)
					cs := cenv.canon(rhs)
					if strings.Contains(cs, fmt.Sprintf("(K(%d)-", frac)) && mentions(p, rhs, expObj) {
						shiftObj = o
					}
				}
			}
		case *ast.IfStmt:
			if expObj != nil && expIf == nil {
				if nx, _, k, ok := p.normCmp(x.Cond); ok && p.objOf(nx) == expObj && k.Sign() == 0 {
					expIf = x
				}
			}
		}
	}
	missing := []string{}
	if mantObj == nil {
		missing = append(missing, "mantissa = bits[51..0]")
	}
	if expObj == nil {
		missing = append(missing, "exponent field = bits[62..52]")
	}
	if negObj == nil {
		missing = append(missing, "sign = bit 63")
	}
	if shiftObj == nil {
		missing = append(missing, "shift = 52 - exponent")
	}
	if expIf == nil {
		missing = append(missing, "the subnormal/normal branch on the exponent field")
	}
	if len(missing) > 0 {
		c.bad("float.fields", fd, "FromFloat64 does not unpack the float64 as IEEE 754 binary64 requires; not found: "+strings.Join(missing, "; "), "C09")
		return
	}
	c.ok("float.fields", fd, "mantissa bits[51..0], exponent bits[62..52], sign bit 63, shift = 52 - exponent", "C09")
	// the branch: zero field -> exponent 1-bias (no hidden bit); otherwise hidden bit 2^52 and exponent - bias
	_, op, _, _ := p.normCmp(expIf.Cond)
	zeroArm, normArm := expIf.Body.List, []ast.Stmt(nil)
	if eb, ok := expIf.Else.(*ast.BlockStmt); ok {
		normArm = eb.List
	}
	if op == token.NEQ {
		zeroArm, normArm = normArm, zeroArm
	}
	okZero := len(zeroArm) == 1
	if okZero {
		as, ok := zeroArm[0].(*ast.AssignStmt)
		okZero = ok && as.Tok == token.ASSIGN && len(as.Lhs) == 1 && p.objOf(as.Lhs[0]) == expObj
		if okZero {
			k, isC := p.constInt64(as.Rhs[0])
			okZero = isC && k == 1-bias
		}
	}
	okHidden, okBias := false, false
	for _, s := range normArm {
		as, ok := s.(*ast.AssignStmt)
		if !ok || len(as.Lhs) != 1 || len(as.Rhs) != 1 {
			continue
		}
		switch p.objOf(as.Lhs[0]) {
		case mantObj:
			var v bitvec
			switch as.Tok {
			case token.OR_ASSIGN:
				v = env.eval(as.Rhs[0])
			case token.ASSIGN:
				if be, ok := ast.Unparen(as.Rhs[0]).(*ast.BinaryExpr); ok && be.Op == token.OR {
					if p.objOf(be.X) == mantObj {
						v = env.eval(be.Y)
					} else if p.objOf(be.Y) == mantObj {
						v = env.eval(be.X)
					}
				}
			}
			okHidden = v == constVec(1<<frac)
		case expObj:
			switch as.Tok {
			case token.SUB_ASSIGN:
				k, isC := p.constInt64(as.Rhs[0])
				okBias = isC && k == bias
			case token.ADD_ASSIGN:
				k, isC := p.constInt64(as.Rhs[0])
				okBias = isC && k == -bias
			case token.ASSIGN:
				if be, ok := ast.Unparen(as.Rhs[0]).(*ast.BinaryExpr); ok && be.Op == token.SUB && p.objOf(be.X) == expObj {
					k, isC := p.constInt64(be.Y)
					okBias = isC && k == bias
				}
			}
		}
	}
	c.check(okZero && okHidden && okBias && len(normArm) == 2, "float.branch", expIf, "zero exponent field: exponent -1022 without hidden bit; otherwise hidden bit 2^52 and bias 1023",
		fmt.Sprintf("FromFloat64: subnormals must use exponent %d without the hidden bit (ok=%v); normal numbers must set the hidden bit 2^52 (ok=%v) and subtract the bias 1023 (ok=%v)", 1-bias, okZero, okHidden, okBias), "C09")
	// the exact-integer shortcut: shift == 0 -> compose(neg, {mant,0}, bias)
	okExact := false
	for _, s := range fd.Body.List {
		ifs, ok := s.(*ast.IfStmt)
		if !ok {
			continue
		}
		nx, nop, k, ok := p.normCmp(ifs.Cond)
		if !ok || p.objOf(nx) != shiftObj || nop != token.EQL || k.Sign() != 0 || len(ifs.Body.List) != 1 {
			continue
		}
		if r, ok := ifs.Body.List[0].(*ast.ReturnStmt); ok && len(r.Results) == 1 {
			if call, ok := r.Results[0].(*ast.CallExpr); ok && p.isPkgFunc(call, "compose") && len(call.Args) == 3 {
				cl, isCl := ast.Unparen(call.Args[1]).(*ast.CompositeLit)
				kb, isK := p.constInt64(call.Args[2])
				if p.objOf(call.Args[0]) == negObj && isCl && len(cl.Elts) == 2 && p.objOf(cl.Elts[0]) == mantObj && isK && kb == specBias {
					if z, ok := p.constInt64(cl.Elts[1]); ok && z == 0 {
						okExact = true
					}
				}
			}
		}
	}
	c.check(okExact, "float.exact", fd, "shift 0: compose(sign, {mantissa, 0}, bias)", "FromFloat64: with a zero shift the result must be compose(sign, {mantissa, 0}, exponentBias)", "C09")
}

func mentions(p *Prog, e ast.Expr, o types.Object) bool {
	found := false
	ast.Inspect(e, func(n ast.Node) bool {
		if id, ok := n.(*ast.Ident); ok && p.objOf(id) == o {
			found = true
		}
		return !found
	})
	return found
}
