package main

import (
	"fmt"
	"go/ast"
	"go/constant"
	"go/token"
	"go/types"
	"sort"
	"strings"
)

// E0: a finite-domain abstract interpreter over Go syntax (go/ast +
// types.Info). It never executes repository code: values are abstract
// (constants, booleans, symbolic sign formulas, operand classes) and anything
// it cannot model is Top. States fork at unknown conditions and are merged
// when equal (disjunctive domain with deduplication).

// ---------------------------------------------------------------------------
// abstract values

type AV interface{ avKey() string }

type avTop struct{}

func (avTop) avKey() string { return "T" }

var top AV = avTop{}

type avBool struct{ b bool }

func (v avBool) avKey() string {
	if v.b {
		return "true"
	}
	return "false"
}

// avInt is a known integer constant.
type avInt struct{ v int64 }

func (v avInt) avKey() string { return fmt.Sprintf("i%d", v.v) }

// avSet is a small set of possible integers (e.g. digit in 1..4).
type avSet struct{ vals []int64 }

func (v avSet) avKey() string { return fmt.Sprintf("s%v", v.vals) }

// avStr is a constant string.
type avStr struct{ s string }

func (v avStr) avKey() string { return "str:" + v.s }

// avSym is a symbolic boolean formula over named atoms.
type avSym struct {
	op   string // "atom", "not", "and", "or", "xor"
	name string
	a, b *avSym
}

func (v *avSym) avKey() string {
	switch v.op {
	case "atom":
		return "@" + v.name
	case "not":
		return "!(" + v.a.avKey() + ")"
	}
	return "(" + v.a.avKey() + " " + v.op + " " + v.b.avKey() + ")"
}

func atom(name string) *avSym { return &avSym{op: "atom", name: name} }

func (v *avSym) atoms(m map[string]bool) {
	if v.op == "atom" {
		m[v.name] = true
		return
	}
	if v.a != nil {
		v.a.atoms(m)
	}
	if v.b != nil {
		v.b.atoms(m)
	}
}

func (v *avSym) eval(env map[string]bool) bool {
	switch v.op {
	case "atom":
		return env[v.name]
	case "not":
		return !v.a.eval(env)
	case "and":
		return v.a.eval(env) && v.b.eval(env)
	case "or":
		return v.a.eval(env) || v.b.eval(env)
	case "xor":
		return v.a.eval(env) != v.b.eval(env)
	}
	return false
}

// boolAV is an abstract boolean: avBool, *avSym or Top.
func symOf(v AV) (*avSym, bool) {
	switch x := v.(type) {
	case *avSym:
		return x, true
	}
	return nil, false
}

func avNot(v AV) AV {
	switch x := v.(type) {
	case avBool:
		return avBool{!x.b}
	case *avSym:
		if x.op == "not" {
			return x.a
		}
		return &avSym{op: "not", a: x}
	}
	return top
}

func avAnd(a, b AV) AV {
	if x, ok := a.(avBool); ok {
		if !x.b {
			return avBool{false}
		}
		return b
	}
	if y, ok := b.(avBool); ok {
		if !y.b {
			return avBool{false}
		}
		return a
	}
	sa, ok1 := symOf(a)
	sb, ok2 := symOf(b)
	if ok1 && ok2 {
		return &avSym{op: "and", a: sa, b: sb}
	}
	return top
}

func avOr(a, b AV) AV {
	if x, ok := a.(avBool); ok {
		if x.b {
			return avBool{true}
		}
		return b
	}
	if y, ok := b.(avBool); ok {
		if y.b {
			return avBool{true}
		}
		return a
	}
	sa, ok1 := symOf(a)
	sb, ok2 := symOf(b)
	if ok1 && ok2 {
		return &avSym{op: "or", a: sa, b: sb}
	}
	return top
}

func avXor(a, b AV) AV {
	x, ok1 := a.(avBool)
	y, ok2 := b.(avBool)
	if ok1 && ok2 {
		return avBool{x.b != y.b}
	}
	if ok1 {
		if x.b {
			return avNot(b)
		}
		return b
	}
	if ok2 {
		if y.b {
			return avNot(a)
		}
		return a
	}
	sa, oka := symOf(a)
	sb, okb := symOf(b)
	if oka && okb {
		if sa.avKey() == sb.avKey() {
			return avBool{false}
		}
		return &avSym{op: "xor", a: sa, b: sb}
	}
	return top
}

// avDec is an abstract Decimal value.
type avDec struct {
	kind  string // "opnd" operand (possibly sign-changed), "nan", "inf", "zero", "one", "computed", "fields", "any"
	opnd  int    // operand index for kind opnd/fields
	class string // "nan", "inf", "zero", "fin", "one" ("" unknown)
	sign  AV     // abstract sign (avBool / *avSym / Top)
	pay   [3]AV  // nan payload (op, lhs, rhs)
	same  bool   // opnd: bit-identical to the operand
}

func (v *avDec) avKey() string {
	s := "?"
	if v.sign != nil {
		s = v.sign.avKey()
	}
	switch v.kind {
	case "opnd":
		if v.same {
			return fmt.Sprintf("SAME(%d)", v.opnd)
		}
		return fmt.Sprintf("OPND(%d,sign=%s)", v.opnd, s)
	case "fields":
		return fmt.Sprintf("FIELDS(%d,sign=%s)", v.opnd, s)
	case "nan":
		return fmt.Sprintf("NaN(%s,%s,%s)", v.pay[0].avKey(), v.pay[1].avKey(), v.pay[2].avKey())
	case "inf":
		return "Inf(" + s + ")"
	case "zero":
		return "Zero(" + s + ")"
	case "one":
		return "One(" + s + ")"
	case "computed":
		return "COMPUTED(" + s + ")"
	}
	return "DEC?"
}

// avCoef / avExp: the unmodified coefficient / exponent of an abstract decimal.
type avCoef struct{ of *avDec }

func (v *avCoef) avKey() string { return "coef(" + v.of.avKey() + ")" }

type avExp struct{ of *avDec }

func (v *avExp) avKey() string { return "exp(" + v.of.avKey() + ")" }

// avRounded marks the results of reduceN/round: sig (idx 0) or exp (idx 1),
// with the sign passed to the rounding call.
type avRounded struct {
	idx  int
	sign AV
	id   int
}

func (v *avRounded) avKey() string { return fmt.Sprintf("rounded%d(%s)", v.idx, v.sign.avKey()) }

// avFloat is an abstract float64 operand.
type avFloat struct{ class string } // "nan", "+inf", "-inf", "+0", "-0", "+fin", "-fin"

func (v avFloat) avKey() string { return "float:" + v.class }

// avTuple is a multi-value result.
type avTuple struct{ vs []AV }

func (v *avTuple) avKey() string {
	var ks []string
	for _, x := range v.vs {
		ks = append(ks, x.avKey())
	}
	return "(" + strings.Join(ks, ", ") + ")"
}

// avNil / avNonNil for error values and pointers.
type avNil struct{}

func (avNil) avKey() string { return "nil" }

type avErr struct{ typ string }

func (v avErr) avKey() string { return "err:" + v.typ }

// avRef is a pointer to a struct whose fields are tracked in state.flds under the reference id.
type avRef struct{ id string }

func (v avRef) avKey() string { return "&" + v.id }

type avPanic struct{}

func (avPanic) avKey() string { return "PANIC" }

// ---------------------------------------------------------------------------
// states

type state struct {
	vars map[types.Object]AV
	// fields of struct-typed locals (x.f), keyed by "obj.f"
	flds map[string]AV
}

func newState() *state { return &state{vars: map[types.Object]AV{}, flds: map[string]AV{}} }

func (s *state) clone() *state {
	n := newState()
	for k, v := range s.vars {
		n.vars[k] = v
	}
	for k, v := range s.flds {
		n.flds[k] = v
	}
	return n
}

func (s *state) key() string {
	var ks []string
	for o, v := range s.vars {
		if _, isTop := v.(avTop); isTop {
			continue
		}
		ks = append(ks, fmt.Sprintf("%s@%d=%s", o.Name(), o.Pos(), v.avKey()))
	}
	for f, v := range s.flds {
		if _, isTop := v.(avTop); isTop {
			continue
		}
		ks = append(ks, f+"="+v.avKey())
	}
	sort.Strings(ks)
	return strings.Join(ks, ";")
}

type flowKind int

const (
	flowNext flowKind = iota
	flowBreak
	flowContinue
	flowReturn
	flowFallthrough
	flowPanic
)

type flow struct {
	st    *state
	kind  flowKind
	label string
	ret   AV // for flowReturn
	at    ast.Node
}

// ---------------------------------------------------------------------------
// interpreter

type intrinsicFn func(in *interp, st *state, call *ast.CallExpr, recv AV, args []AV) ([]AV, bool)

type interp struct {
	p          *Prog
	intrinsics map[string]intrinsicFn
	// inline lists package functions that are interpreted when called.
	inline   map[string]bool
	depth    int
	maxDepth int
	// hooks
	onCall   func(in *interp, st *state, call *ast.CallExpr, name string, recv AV, args []AV)
	onAssign func(in *interp, st *state, lhs ast.Expr, v AV)
	// exact: loops are iterated on their concrete state (no forgetting of counters); for engines that run
	// a function on fully concrete control values
	exact bool
	// evalLeaf lets an engine give meaning to expressions the core does not model.
	evalLeaf func(in *interp, st *state, e ast.Expr) (AV, bool)
	// condHook may decide an otherwise unknown condition.
	steps      int
	maxSteps   int
	overflow   bool
	memo       map[string][]AV
	curFn      []*ast.FuncDecl
	notes      []string
	roundIDs   int
	curAssign  *ast.AssignStmt
	trace      func(s ast.Stmt, st *state)
	binopHook  func(op token.Token, l, r AV, at ast.Node) (AV, bool)
	callerFlds map[string]AV // fields reachable through references, visible to an inlined callee
	lastFlds   map[string]AV // ref fields as left by the last inlined call (single-outcome calls only)
	// inlineAll interprets every package function that is neither an intrinsic nor denied.
	inlineAll bool
	noInline  []string // name prefixes never inlined
}

func newInterp(p *Prog) *interp {
	return &interp{p: p, intrinsics: map[string]intrinsicFn{}, inline: map[string]bool{}, maxDepth: 6, maxSteps: 400000, memo: map[string][]AV{}}
}

// runFunc interprets fd with the given receiver and arguments and returns the
// set of abstract results (return values or PANIC), deduplicated.
func (in *interp) runFunc(fd *ast.FuncDecl, recv AV, args []AV) []AV {
	st := newState()
	if in.callerFlds != nil {
		for k, v := range in.callerFlds {
			if strings.HasPrefix(k, "ref:") {
				st.flds[k] = v
			}
		}
	}
	if fd.Recv != nil && len(fd.Recv.List) == 1 && len(fd.Recv.List[0].Names) == 1 {
		st.vars[in.p.Info.Defs[fd.Recv.List[0].Names[0]]] = recv
	}
	i := 0
	if fd.Type.Params != nil {
		for _, f := range fd.Type.Params.List {
			for _, n := range f.Names {
				var v AV = top
				if i < len(args) && args[i] != nil {
					v = args[i]
				}
				if o := in.p.Info.Defs[n]; o != nil {
					st.vars[o] = v
				}
				i++
			}
		}
	}
	in.curFn = append(in.curFn, fd)
	flows := in.execBlock(fd.Body.List, st)
	in.curFn = in.curFn[:len(in.curFn)-1]
	// referenced fields as left by the callee: agreed values, Top where paths disagree
	last := map[string]AV{}
	first := true
	for _, f := range flows {
		if f.kind != flowReturn && f.kind != flowNext {
			continue
		}
		cur := map[string]AV{}
		for k, v := range f.st.flds {
			if strings.HasPrefix(k, "ref:") {
				cur[k] = v
			}
		}
		if first {
			last, first = cur, false
			continue
		}
		for k, v := range cur {
			if w, ok := last[k]; !ok || w.avKey() != v.avKey() {
				last[k] = top
			}
		}
		for k := range last {
			if _, ok := cur[k]; !ok {
				last[k] = top
			}
		}
	}
	in.lastFlds = last
	seen := map[string]bool{}
	var out []AV
	for _, f := range flows {
		var r AV
		switch f.kind {
		case flowReturn:
			r = f.ret
			if r == nil {
				r = &avTuple{}
			}
		case flowPanic:
			r = avPanic{}
		case flowNext:
			r = &avTuple{} // fell off the end (no results)
		default:
			continue
		}
		if k := r.avKey(); !seen[k] {
			seen[k] = true
			out = append(out, r)
		}
	}
	return out
}

func (in *interp) tick() bool {
	in.steps++
	if in.steps > in.maxSteps {
		in.overflow = true
		return false
	}
	return true
}

// execBlock runs a statement list; returned flows with kind flowNext have
// completed the list.
func (in *interp) execBlock(list []ast.Stmt, st *state) []flow {
	cur := []*state{st}
	var out []flow
	for _, s := range list {
		if len(cur) == 0 {
			break
		}
		var next []*state
		seen := map[string]bool{}
		for _, c := range cur {
			for _, f := range in.execStmt(s, c) {
				if f.kind == flowNext {
					k := f.st.key()
					if !seen[k] {
						seen[k] = true
						next = append(next, f.st)
					}
				} else {
					out = append(out, f)
				}
			}
		}
		cur = next
		if len(cur) > 3000 {
			in.overflow = true
			cur = cur[:3000]
		}
	}
	for _, c := range cur {
		out = append(out, flow{st: c, kind: flowNext})
	}
	return out
}

func (in *interp) execStmt(s ast.Stmt, st *state) []flow {
	if !in.tick() {
		return nil
	}
	if in.trace != nil {
		in.trace(s, st)
	}
	switch x := s.(type) {
	case *ast.BlockStmt:
		return in.execBlock(x.List, st)
	case *ast.EmptyStmt:
		return []flow{{st: st, kind: flowNext}}
	case *ast.ExprStmt:
		// calls for effect (f.Write, panic, ...)
		if call, ok := ast.Unparen(x.X).(*ast.CallExpr); ok {
			if in.p.calleeName(call) == "builtin.panic" {
				return []flow{{st: st, kind: flowPanic, at: x}}
			}
			in.evalMulti(call, st)
		}
		return []flow{{st: st, kind: flowNext}}
	case *ast.DeclStmt:
		gd, ok := x.Decl.(*ast.GenDecl)
		if ok && gd.Tok == token.VAR {
			st = st.clone()
			for _, sp := range gd.Specs {
				vs := sp.(*ast.ValueSpec)
				for i, n := range vs.Names {
					o := in.p.Info.Defs[n]
					if o == nil {
						continue
					}
					if i < len(vs.Values) {
						st.vars[o] = in.eval1(vs.Values[i], st)
					} else {
						st.vars[o] = in.zeroValue(o.Type())
					}
				}
			}
		}
		return []flow{{st: st, kind: flowNext}}
	case *ast.AssignStmt:
		return in.execAssign(x, st)
	case *ast.IncDecStmt:
		st = st.clone()
		v := in.eval1(x.X, st)
		var nv AV = top
		if iv, ok := v.(avInt); ok {
			if x.Tok == token.INC {
				nv = avInt{iv.v + 1}
			} else {
				nv = avInt{iv.v - 1}
			}
		}
		in.store(x.X, nv, st)
		return []flow{{st: st, kind: flowNext}}
	case *ast.ReturnStmt:
		var outs []flow
		if len(x.Results) == 0 {
			return []flow{{st: st, kind: flowReturn, ret: in.namedResults(st), at: x}}
		}
		if len(x.Results) == 1 {
			for _, v := range in.evalMulti(x.Results[0], st) {
				outs = append(outs, flow{st: st, kind: flowReturn, ret: v, at: x})
			}
			return outs
		}
		// several results: cartesian product of forks (bounded)
		combos := [][]AV{{}}
		for _, r := range x.Results {
			vs := in.evalMulti(r, st)
			var nc [][]AV
			for _, c := range combos {
				for _, v := range vs {
					nc = append(nc, append(append([]AV{}, c...), v))
				}
			}
			combos = nc
			if len(combos) > 256 {
				in.overflow = true
				break
			}
		}
		for _, c := range combos {
			outs = append(outs, flow{st: st, kind: flowReturn, ret: &avTuple{vs: c}, at: x})
		}
		return outs
	case *ast.IfStmt:
		return in.execIf(x, st)
	case *ast.ForStmt:
		return in.execFor(x, st, "")
	case *ast.LabeledStmt:
		if f, ok := x.Stmt.(*ast.ForStmt); ok {
			return in.execFor(f, st, x.Label.Name)
		}
		return in.execStmt(x.Stmt, st)
	case *ast.SwitchStmt:
		return in.execSwitch(x, st)
	case *ast.TypeSwitchStmt:
		return in.execTypeSwitch(x, st)
	case *ast.BranchStmt:
		lbl := ""
		if x.Label != nil {
			lbl = x.Label.Name
		}
		switch x.Tok {
		case token.BREAK:
			return []flow{{st: st, kind: flowBreak, label: lbl}}
		case token.CONTINUE:
			return []flow{{st: st, kind: flowContinue, label: lbl}}
		case token.FALLTHROUGH:
			return []flow{{st: st, kind: flowFallthrough}}
		}
	case *ast.RangeStmt, *ast.GoStmt, *ast.SelectStmt, *ast.DeferStmt, *ast.SendStmt:
		in.notes = append(in.notes, "unsupported statement at "+in.p.posStr(s))
		in.overflow = true
		return nil
	}
	return []flow{{st: st, kind: flowNext}}
}

func (in *interp) namedResults(st *state) AV {
	fd := in.curFn[len(in.curFn)-1]
	if fd.Type.Results == nil {
		return &avTuple{}
	}
	var vs []AV
	for _, f := range fd.Type.Results.List {
		for _, n := range f.Names {
			if o := in.p.Info.Defs[n]; o != nil {
				if v, ok := st.vars[o]; ok {
					vs = append(vs, v)
					continue
				}
			}
			vs = append(vs, top)
		}
	}
	if len(vs) == 1 {
		return vs[0]
	}
	return &avTuple{vs: vs}
}

func (in *interp) zeroValue(t types.Type) AV {
	switch u := t.Underlying().(type) {
	case *types.Basic:
		switch {
		case u.Info()&types.IsBoolean != 0:
			return avBool{false}
		case u.Info()&types.IsInteger != 0:
			return avInt{0}
		case u.Info()&types.IsString != 0:
			return avStr{""}
		}
	case *types.Pointer, *types.Slice, *types.Interface, *types.Map:
		return avNil{}
	case *types.Struct:
		if nt, ok := t.(*types.Named); ok && nt.Obj().Name() == "Decimal" && nt.Obj().Pkg() == in.p.Pkg.Types {
			return &avDec{kind: "zero", class: "zero", sign: avBool{false}}
		}
	}
	return top
}

func (in *interp) execAssign(x *ast.AssignStmt, st *state) []flow {
	prev := in.curAssign
	in.curAssign = x
	defer func() { in.curAssign = prev }()
	// op-assign
	if x.Tok != token.ASSIGN && x.Tok != token.DEFINE {
		st = st.clone()
		l := in.eval1(x.Lhs[0], st)
		r := in.eval1(x.Rhs[0], st)
		var op token.Token
		switch x.Tok {
		case token.ADD_ASSIGN:
			op = token.ADD
		case token.SUB_ASSIGN:
			op = token.SUB
		case token.MUL_ASSIGN:
			op = token.MUL
		case token.QUO_ASSIGN:
			op = token.QUO
		case token.REM_ASSIGN:
			op = token.REM
		case token.OR_ASSIGN:
			op = token.OR
		case token.AND_ASSIGN:
			op = token.AND
		case token.SHL_ASSIGN:
			op = token.SHL
		case token.SHR_ASSIGN:
			op = token.SHR
		default:
			op = token.ILLEGAL
		}
		v := in.binop(op, l, r, x.Lhs[0])
		in.store(x.Lhs[0], v, st)
		return []flow{{st: st, kind: flowNext}}
	}
	// tuple assignment from one multi-valued expression
	if len(x.Lhs) > 1 && len(x.Rhs) == 1 {
		var outs []flow
		for _, v := range in.evalMulti(x.Rhs[0], st) {
			ns := st.clone()
			tup, ok := v.(*avTuple)
			for i, l := range x.Lhs {
				var vi AV = top
				if ok && i < len(tup.vs) {
					vi = tup.vs[i]
				}
				in.store(l, vi, ns)
			}
			outs = append(outs, flow{st: ns, kind: flowNext})
		}
		return outs
	}
	// parallel assignment: evaluate all rhs first
	states := []*state{st.clone()}
	vals := [][]AV{{}}
	for _, r := range x.Rhs {
		var nstates []*state
		var nvals [][]AV
		for si, s := range states {
			for _, v := range in.evalMulti(r, s) {
				nstates = append(nstates, s)
				nvals = append(nvals, append(append([]AV{}, vals[si]...), v))
			}
		}
		states, vals = nstates, nvals
		if len(states) > 256 {
			in.overflow = true
			break
		}
	}
	var outs []flow
	for si := range states {
		ns := states[si].clone()
		for i, l := range x.Lhs {
			if i < len(vals[si]) {
				in.store(l, vals[si][i], ns)
			}
		}
		outs = append(outs, flow{st: ns, kind: flowNext})
	}
	return outs
}

// fieldKey returns the state key of x.f: by reference id when x holds an avRef, else by object.
func (in *interp) fieldKey(x ast.Expr, field string, st *state) (string, bool) {
	if o := in.p.objOf(x); o != nil {
		if r, ok := st.vars[o].(avRef); ok {
			return "ref:" + r.id + "." + field, true
		}
		return fmt.Sprintf("%p.%s", o, field), true
	}
	return "", false
}

// store writes v to the lvalue l in st (st must be owned by the caller).
func (in *interp) store(l ast.Expr, v AV, st *state) {
	l = ast.Unparen(l)
	if in.onAssign != nil {
		in.onAssign(in, st, l, v)
	}
	switch x := l.(type) {
	case *ast.Ident:
		if x.Name == "_" {
			return
		}
		if o := in.p.objOf(x); o != nil {
			st.vars[o] = v
			// a whole-struct assignment invalidates tracked fields
			pre := fmt.Sprintf("%p.", o)
			for k := range st.flds {
				if strings.HasPrefix(k, pre) {
					delete(st.flds, k)
				}
			}
		}
	case *ast.SelectorExpr:
		if k, ok := in.fieldKey(x.X, x.Sel.Name, st); ok {
			st.flds[k] = v
			return
		}
		// deeper selectors (args.padZero via pointer) - o.f.g not tracked
	case *ast.IndexExpr:
		// exact mode: a byte stored into a concrete byte string at a concrete index
		if in.exact {
			if iv, ok := in.eval1(x.Index, st).(avInt); ok {
				if cv, ok := v.(avInt); ok && cv.v >= 0 && cv.v <= 255 {
					set := func(old AV) (AV, bool) {
						s, ok := old.(avStr)
						if !ok || iv.v < 0 || int(iv.v) >= len(s.s) {
							return nil, false
						}
						b := []byte(s.s)
						b[iv.v] = byte(cv.v)
						return avStr{string(b)}, true
					}
					if o := in.p.objOf(x.X); o != nil {
						if nv, ok := set(st.vars[o]); ok {
							st.vars[o] = nv
							return
						}
					} else if sel, ok := ast.Unparen(x.X).(*ast.SelectorExpr); ok {
						if k, ok := in.fieldKey(sel.X, sel.Sel.Name, st); ok {
							if nv, ok := set(st.flds[k]); ok {
								st.flds[k] = nv
								return
							}
						}
					}
				}
			}
		}
		// element store: the aggregate becomes unknown
		if o := in.p.objOf(x.X); o != nil {
			st.vars[o] = top
		} else if sel, ok := ast.Unparen(x.X).(*ast.SelectorExpr); ok {
			if o := in.p.objOf(sel.X); o != nil {
				st.flds[fmt.Sprintf("%p.%s", o, sel.Sel.Name)] = top
			}
		}
	case *ast.StarExpr:
		if o := in.p.objOf(x.X); o != nil {
			st.flds[fmt.Sprintf("%p.*", o)] = v
		}
	}
}

func (in *interp) execIf(x *ast.IfStmt, st *state) []flow {
	var outs []flow
	starts := []*state{st}
	if x.Init != nil {
		starts = nil
		for _, f := range in.execStmt(x.Init, st) {
			if f.kind == flowNext {
				starts = append(starts, f.st)
			} else {
				outs = append(outs, f)
			}
		}
	}
	for _, s0 := range starts {
		for _, br := range in.branch(x.Cond, s0) {
			if br.val {
				outs = append(outs, in.execBlock(x.Body.List, br.st)...)
			} else if x.Else != nil {
				outs = append(outs, in.execStmt(x.Else, br.st)...)
			} else {
				outs = append(outs, flow{st: br.st, kind: flowNext})
			}
		}
	}
	return outs
}

type branchOut struct {
	st  *state
	val bool
}

// branch evaluates a condition and returns the feasible outcomes. Unknown
// conditions yield both. Short-circuit operators are split so that each
// operand can prune.
func (in *interp) branch(cond ast.Expr, st *state) []branchOut {
	cond = ast.Unparen(cond)
	if be, ok := cond.(*ast.BinaryExpr); ok {
		if be.Op == token.LAND || be.Op == token.LOR {
			// a whole-coefficient zero test written limb by limb
			if vs := in.evalMulti(be, st); len(vs) == 1 {
				if b, ok := vs[0].(avBool); ok {
					if _, _, isWhole := in.p.wholeZeroTest(be); isWhole {
						return []branchOut{{st, b.b}}
					}
				}
			}
		}
		switch be.Op {
		case token.LAND:
			var outs []branchOut
			for _, l := range in.branch(be.X, st) {
				if !l.val {
					outs = append(outs, branchOut{l.st, false})
					continue
				}
				outs = append(outs, in.branch(be.Y, l.st)...)
			}
			return outs
		case token.LOR:
			var outs []branchOut
			for _, l := range in.branch(be.X, st) {
				if l.val {
					outs = append(outs, branchOut{l.st, true})
					continue
				}
				outs = append(outs, in.branch(be.Y, l.st)...)
			}
			return outs
		}
	}
	if ue, ok := cond.(*ast.UnaryExpr); ok && ue.Op == token.NOT {
		var outs []branchOut
		for _, l := range in.branch(ue.X, st) {
			outs = append(outs, branchOut{l.st, !l.val})
		}
		return outs
	}
	var outs []branchOut
	seen := map[string]bool{}
	for _, v := range in.evalMulti(cond, st) {
		switch b := v.(type) {
		case avBool:
			k := fmt.Sprint(b.b)
			if !seen[k] {
				seen[k] = true
				outs = append(outs, branchOut{st, b.b})
			}
		default:
			for _, bv := range []bool{true, false} {
				k := fmt.Sprint(bv)
				if !seen[k] {
					seen[k] = true
					ns := st.clone()
					in.refine(cond, bv, ns)
					outs = append(outs, branchOut{ns, bv})
				}
			}
		}
	}
	return outs
}

// refine records what a taken branch implies for simple conditions
// (x == c, x != c, boolean variable).
func (in *interp) refine(cond ast.Expr, val bool, st *state) {
	cond = ast.Unparen(cond)
	switch x := cond.(type) {
	case *ast.Ident:
		if o := in.p.objOf(x); o != nil {
			if _, isSym := st.vars[o].(*avSym); isSym {
				return // keep symbolic signs symbolic
			}
			if _, isTop := st.vars[o].(avTop); isTop || st.vars[o] == nil {
				if b, ok := o.Type().Underlying().(*types.Basic); ok && b.Info()&types.IsBoolean != 0 {
					st.vars[o] = avBool{val}
				}
			}
		}
	case *ast.BinaryExpr:
		// a comparison of a small-set variable with a constant filters the set
		if o := in.p.objOf(x.X); o != nil {
			if sv, ok := st.vars[o].(avSet); ok {
				if cv, ok := in.constAV(x.Y).(avInt); ok {
					var nv []int64
					for _, e := range sv.vals {
						var r bool
						switch x.Op {
						case token.EQL:
							r = e == cv.v
						case token.NEQ:
							r = e != cv.v
						case token.LSS:
							r = e < cv.v
						case token.LEQ:
							r = e <= cv.v
						case token.GTR:
							r = e > cv.v
						case token.GEQ:
							r = e >= cv.v
						default:
							return
						}
						if r == val {
							nv = append(nv, e)
						}
					}
					if len(nv) > 0 {
						st.vars[o] = normSet(nv)
					}
					return
				}
			}
		}
		if x.Op != token.EQL && x.Op != token.NEQ {
			return
		}
		eq := (x.Op == token.EQL) == val
		if !eq {
			// x != c on a small set removes c
			if o := in.p.objOf(x.X); o != nil {
				if sv, ok := st.vars[o].(avSet); ok {
					if c, ok := in.constAV(x.Y).(avInt); ok {
						var nv []int64
						for _, e := range sv.vals {
							if e != c.v {
								nv = append(nv, e)
							}
						}
						st.vars[o] = normSet(nv)
					}
				}
			}
			return
		}
		if o := in.p.objOf(x.X); o != nil {
			if c := in.constAV(x.Y); c != nil {
				if _, isSym := st.vars[o].(*avSym); !isSym {
					st.vars[o] = c
				}
			}
		}
	}
}

func normSet(vals []int64) AV {
	if len(vals) == 1 {
		return avInt{vals[0]}
	}
	sort.Slice(vals, func(i, j int) bool { return vals[i] < vals[j] })
	return avSet{vals}
}

func (in *interp) constAV(e ast.Expr) AV {
	v := in.p.constOf(e)
	if v == nil {
		return nil
	}
	switch v.Kind() {
	case constant.Bool:
		return avBool{constant.BoolVal(v)}
	case constant.String:
		return avStr{constant.StringVal(v)}
	case constant.Int:
		if i, ok := constant.Int64Val(v); ok {
			return avInt{i}
		}
		if u, ok := constant.Uint64Val(v); ok {
			return avInt{int64(u)} // wraps; only used for identity comparisons of masks
		}
	case constant.Float:
		if i, ok := constant.Int64Val(constant.ToInt(v)); ok {
			return avInt{i}
		}
	}
	return top
}

func (in *interp) execFor(x *ast.ForStmt, st *state, label string) []flow {
	var outs []flow
	starts := []*state{st}
	if x.Init != nil {
		starts = nil
		for _, f := range in.execStmt(x.Init, st) {
			if f.kind == flowNext {
				starts = append(starts, f.st)
			}
		}
	}
	assigned := in.assignedIn(x)
	widened := false
	seen := map[string]bool{}
	work := append([]*state{}, starts...)
	headCount := 0
	for len(work) > 0 {
		s := work[len(work)-1]
		work = work[:len(work)-1]
		if widened {
			s = in.havoc(s, assigned, true)
		}
		k := s.key()
		if seen[k] {
			continue
		}
		seen[k] = true
		headCount++
		if in.exact {
			if headCount > 4096 {
				in.overflow = true
				break
			}
		} else if headCount > 48 && !widened {
			widened = true
			work = append(work, s)
			continue
		}
		if headCount > 600 {
			in.overflow = true
			break
		}
		var enter []*state
		if x.Cond == nil {
			enter = []*state{s}
		} else {
			for _, br := range in.branch(x.Cond, s) {
				if br.val {
					enter = append(enter, br.st)
				} else {
					outs = append(outs, flow{st: br.st, kind: flowNext})
				}
			}
		}
		for _, e := range enter {
			for _, f := range in.execBlock(x.Body.List, e) {
				switch f.kind {
				case flowNext, flowContinue:
					if f.kind == flowContinue && f.label != "" && f.label != label {
						outs = append(outs, f)
						continue
					}
					ns := f.st
					if x.Post != nil {
						for _, pf := range in.execStmt(x.Post, ns) {
							if pf.kind == flowNext {
								if in.exact {
									work = append(work, pf.st)
								} else {
									work = append(work, in.havoc(pf.st, assigned, false))
								}
							}
						}
					} else if in.exact {
						work = append(work, ns)
					} else {
						work = append(work, in.havoc(ns, assigned, false))
					}
				case flowBreak:
					if f.label != "" && f.label != label {
						outs = append(outs, f)
					} else {
						outs = append(outs, flow{st: f.st, kind: flowNext})
					}
				default:
					outs = append(outs, f)
				}
			}
		}
	}
	return outs
}

// assignedIn lists the variables (and tracked fields) assigned anywhere in n.
func (in *interp) assignedIn(n ast.Node) map[string]types.Object {
	m := map[string]types.Object{}
	add := func(e ast.Expr) {
		e = ast.Unparen(e)
		switch x := e.(type) {
		case *ast.Ident:
			if o := in.p.objOf(x); o != nil {
				m[fmt.Sprintf("%p", o)] = o
			}
		case *ast.SelectorExpr:
			if in.p.objOf(x.X) != nil {
				m["."+x.Sel.Name] = nil
			}
		case *ast.IndexExpr:
			if o := in.p.objOf(x.X); o != nil {
				m[fmt.Sprintf("%p", o)] = o
			}
		}
	}
	ast.Inspect(n, func(nd ast.Node) bool {
		switch x := nd.(type) {
		case *ast.AssignStmt:
			for _, l := range x.Lhs {
				add(l)
			}
		case *ast.IncDecStmt:
			add(x.X)
		}
		return true
	})
	return m
}

// havoc forgets non-finite values of variables assigned in a loop. Booleans,
// symbolic formulas and small integers (|v| <= 2) are kept unless all is set:
// they iterate to a fixpoint.
func (in *interp) havoc(s *state, assigned map[string]types.Object, all bool) *state {
	ns := s.clone()
	for k, o := range assigned {
		if o != nil {
			v := ns.vars[o]
			if !all && isFinite(v) {
				continue
			}
			ns.vars[o] = top
		} else {
			// k is ".field": every tracked field of that name (whatever the base) is forgotten
			for fk, v := range ns.flds {
				if !strings.HasSuffix(fk, k) {
					continue
				}
				if !all && isFinite(v) {
					continue
				}
				ns.flds[fk] = top
			}
		}
	}
	return ns
}

func isFinite(v AV) bool {
	switch x := v.(type) {
	case avBool, *avSym, *avDec, avStr, avNil, avErr:
		return true
	case avInt:
		return x.v >= -2 && x.v <= 2
	}
	return false
}

func (in *interp) execSwitch(x *ast.SwitchStmt, st *state) []flow {
	var outs []flow
	starts := []*state{st}
	if x.Init != nil {
		starts = nil
		for _, f := range in.execStmt(x.Init, st) {
			if f.kind == flowNext {
				starts = append(starts, f.st)
			}
		}
	}
	clauses := x.Body.List
	runFrom := func(i int, s *state) []flow {
		// run clause i, following fallthrough
		var res []flow
		cur := []*state{s}
		for j := i; j < len(clauses) && len(cur) > 0; j++ {
			cl := clauses[j].(*ast.CaseClause)
			var next []*state
			for _, c := range cur {
				for _, f := range in.execBlock(cl.Body, c) {
					switch f.kind {
					case flowFallthrough:
						next = append(next, f.st)
					case flowBreak:
						if f.label == "" {
							res = append(res, flow{st: f.st, kind: flowNext})
						} else {
							res = append(res, f)
						}
					default:
						res = append(res, f)
					}
				}
			}
			cur = next
		}
		return res
	}
	for _, s0 := range starts {
		// tag value
		var tag AV
		tagless := x.Tag == nil
		tagTrue := false
		if !tagless {
			if cv := in.p.constOf(x.Tag); cv != nil && cv.Kind() == constant.Bool && constant.BoolVal(cv) {
				tagless, tagTrue = true, true
			} else {
				tag = in.eval1(x.Tag, s0)
			}
		}
		_ = tagTrue
		pending := []*state{s0} // states that have not matched an earlier case
		defIdx := -1
		for i, c := range clauses {
			cl := c.(*ast.CaseClause)
			if cl.List == nil {
				defIdx = i
				continue
			}
			var still []*state
			for _, ps := range pending {
				if tagless {
					// any of the expressions true
					cur := []*state{ps}
					for _, e := range cl.List {
						var nf []*state
						for _, cs := range cur {
							for _, br := range in.branch(e, cs) {
								if br.val {
									outs = append(outs, runFrom(i, br.st)...)
								} else {
									nf = append(nf, br.st)
								}
							}
						}
						cur = nf
					}
					still = append(still, cur...)
					continue
				}
				// tagged
				matchKnown, matched := true, false
				for _, e := range cl.List {
					cv := in.eval1(e, ps)
					r := in.binop(token.EQL, tag, cv, e)
					if b, ok := r.(avBool); ok {
						if b.b {
							matched = true
						}
					} else {
						matchKnown = false
					}
				}
				switch {
				case matched:
					outs = append(outs, runFrom(i, ps)...)
				case matchKnown:
					still = append(still, ps)
				default:
					ns := ps.clone()
					if len(cl.List) == 1 {
						in.refine(&ast.BinaryExpr{X: x.Tag, Op: token.EQL, Y: cl.List[0]}, true, ns)
					}
					outs = append(outs, runFrom(i, ns)...)
					still = append(still, ps)
				}
			}
			pending = still
		}
		for _, ps := range pending {
			if defIdx >= 0 {
				outs = append(outs, runFrom(defIdx, ps)...)
			} else {
				outs = append(outs, flow{st: ps, kind: flowNext})
			}
		}
	}
	return outs
}

func (in *interp) execTypeSwitch(x *ast.TypeSwitchStmt, st *state) []flow {
	var outs []flow
	// the switched value, when it is an error of known dynamic type
	var subj AV = top
	switch a := x.Assign.(type) {
	case *ast.AssignStmt:
		if ta, ok := ast.Unparen(a.Rhs[0]).(*ast.TypeAssertExpr); ok {
			subj = in.eval1(ta.X, st)
		}
	case *ast.ExprStmt:
		if ta, ok := ast.Unparen(a.X).(*ast.TypeAssertExpr); ok {
			subj = in.eval1(ta.X, st)
		}
	}
	known, isKnown := subj.(avErr)
	matchedKnown := false
	defIdx := -1
	for i, c := range x.Body.List {
		cl := c.(*ast.CaseClause)
		if cl.List == nil {
			defIdx = i
			continue
		}
		take := !isKnown
		if isKnown {
			for _, te := range cl.List {
				if tv, ok := in.p.Info.Types[te]; ok && tv.IsType() {
					if typeShort(tv.Type) == known.typ {
						take = true
						matchedKnown = true
					}
				}
			}
		}
		if !take {
			continue
		}
		ns := st.clone()
		if o := in.p.Info.Implicits[cl]; o != nil {
			ns.vars[o] = subj
		}
		for _, f := range in.execBlock(cl.Body, ns) {
			if f.kind == flowBreak && f.label == "" {
				f = flow{st: f.st, kind: flowNext}
			}
			outs = append(outs, f)
		}
	}
	if defIdx >= 0 && !(isKnown && matchedKnown) {
		cl := x.Body.List[defIdx].(*ast.CaseClause)
		ns := st.clone()
		if o := in.p.Info.Implicits[cl]; o != nil {
			ns.vars[o] = subj
		}
		for _, f := range in.execBlock(cl.Body, ns) {
			if f.kind == flowBreak && f.label == "" {
				f = flow{st: f.st, kind: flowNext}
			}
			outs = append(outs, f)
		}
	} else if defIdx < 0 && !(isKnown && matchedKnown) {
		outs = append(outs, flow{st: st, kind: flowNext})
	}
	return outs
}

func typeShort(t types.Type) string {
	return types.TypeString(t, func(*types.Package) string { return "" })
}

// ---------------------------------------------------------------------------
// expressions

func (in *interp) eval1(e ast.Expr, st *state) AV {
	vs := in.evalMulti(e, st)
	if len(vs) == 1 {
		return vs[0]
	}
	if len(vs) == 0 {
		return top
	}
	k := vs[0].avKey()
	for _, v := range vs[1:] {
		if v.avKey() != k {
			return top
		}
	}
	return vs[0]
}

func (in *interp) evalMulti(e ast.Expr, st *state) []AV {
	e = ast.Unparen(e)
	if c := in.constAV(e); c != nil {
		return []AV{c}
	}
	if in.evalLeaf != nil {
		if v, ok := in.evalLeaf(in, st, e); ok {
			return []AV{v}
		}
	}
	switch x := e.(type) {
	case *ast.Ident:
		if x.Name == "nil" {
			return []AV{avNil{}}
		}
		if o := in.p.objOf(x); o != nil {
			if v, ok := st.vars[o]; ok && v != nil {
				return []AV{v}
			}
			if vr, ok := o.(*types.Var); ok && vr.Parent() == in.p.Pkg.Types.Scope() {
				return []AV{&avSym{op: "atom", name: "var:" + vr.Name()}}
			}
		}
		return []AV{top}
	case *ast.SelectorExpr:
		if k, ok := in.fieldKey(x.X, x.Sel.Name, st); ok {
			if v, ok := st.flds[k]; ok {
				return []AV{v}
			}
		}
		return []AV{top}
	case *ast.StarExpr:
		if o := in.p.objOf(x.X); o != nil {
			if v, ok := st.flds[fmt.Sprintf("%p.*", o)]; ok {
				return []AV{v}
			}
		}
		return []AV{top}
	case *ast.UnaryExpr:
		vs := in.evalMulti(x.X, st)
		var out []AV
		for _, v := range vs {
			switch x.Op {
			case token.NOT:
				out = append(out, avNot(v))
			case token.SUB:
				if iv, ok := v.(avInt); ok {
					out = append(out, avInt{-iv.v})
				} else {
					out = append(out, top)
				}
			case token.AND:
				if cl, ok := ast.Unparen(x.X).(*ast.CompositeLit); ok {
					if tv, ok := in.p.Info.Types[cl]; ok {
						out = append(out, avErr{typ: "*" + typeShort(tv.Type)})
						continue
					}
				}
				out = append(out, top)
			default:
				out = append(out, top)
			}
		}
		return out
	case *ast.BinaryExpr:
		if x.Op == token.LAND || x.Op == token.LOR {
			// `a[0] == 0 && a[1] == 0` / `a[0] != 0 || a[1] != 0`: a test of the whole coefficient
			if key, isZero, ok := in.p.wholeZeroTest(x); ok {
				for o, v := range st.vars {
					if cv, isCoef := v.(*avCoef); isCoef && fmt.Sprintf("%s@%d", o.Name(), o.Pos()) == key {
						switch cv.of.class {
						case "zero":
							return []AV{avBool{isZero}}
						case "fin", "one":
							return []AV{avBool{!isZero}}
						}
					}
				}
			}
			ls := in.evalMulti(x.X, st)
			rs := in.evalMulti(x.Y, st)
			var out []AV
			seen := map[string]bool{}
			for _, l := range ls {
				for _, r := range rs {
					var v AV
					if x.Op == token.LAND {
						v = avAnd(l, r)
					} else {
						v = avOr(l, r)
					}
					if !seen[v.avKey()] {
						seen[v.avKey()] = true
						out = append(out, v)
					}
				}
			}
			return out
		}
		ls := in.evalMulti(x.X, st)
		rs := in.evalMulti(x.Y, st)
		var out []AV
		seen := map[string]bool{}
		for _, l := range ls {
			for _, r := range rs {
				v := in.binopExpr(x, l, r, st)
				if !seen[v.avKey()] {
					seen[v.avKey()] = true
					out = append(out, v)
				}
			}
		}
		return out
	case *ast.CallExpr:
		return in.evalCall(x, st)
	case *ast.CompositeLit:
		if tv, ok := in.p.Info.Types[x]; ok {
			if nt, ok := tv.Type.(*types.Named); ok && nt.Obj().Name() == "Decimal" && nt.Obj().Pkg() == in.p.Pkg.Types && len(x.Elts) == 0 {
				return []AV{&avDec{kind: "zero", class: "zero", sign: avBool{false}}}
			}
			if _, isStruct := tv.Type.Underlying().(*types.Struct); isStruct {
				return []AV{avErr{typ: typeShort(tv.Type)}}
			}
		}
		return []AV{top}
	case *ast.IndexExpr:
		// s[i] of a constant string is a constant byte (out of range: panic)
		if sv, ok := in.eval1(x.X, st).(avStr); ok {
			if iv, ok := in.eval1(x.Index, st).(avInt); ok {
				if iv.v < 0 || iv.v >= int64(len(sv.s)) {
					return []AV{avPanic{}}
				}
				return []AV{avInt{int64(sv.s[iv.v])}}
			}
		}
		return []AV{top}
	case *ast.SliceExpr:
		if sv, ok := in.eval1(x.X, st).(avStr); ok && !x.Slice3 {
			lo, hi := int64(0), int64(len(sv.s))
			okb := true
			if x.Low != nil {
				if v, ok := in.eval1(x.Low, st).(avInt); ok {
					lo = v.v
				} else {
					okb = false
				}
			}
			if x.High != nil {
				if v, ok := in.eval1(x.High, st).(avInt); ok {
					hi = v.v
				} else {
					okb = false
				}
			}
			if okb {
				if lo < 0 || hi > int64(len(sv.s)) || lo > hi {
					return []AV{avPanic{}}
				}
				return []AV{avStr{sv.s[lo:hi]}}
			}
		}
		return []AV{top}
	case *ast.TypeAssertExpr:
		return in.evalMulti(x.X, st)
	case *ast.FuncLit:
		return []AV{top}
	}
	return []AV{top}
}

// binopExpr handles expression-level special forms before generic binop.
func (in *interp) binopExpr(x *ast.BinaryExpr, l, r AV, st *state) AV {
	// coefficient zero test: sig[0]|sig[1] == 0 / != 0 on an unmodified coefficient
	if x.Op == token.EQL || x.Op == token.NEQ {
		if z, ok := in.coefZeroTest(x.X, st); ok {
			if iv, ok := r.(avInt); ok && iv.v == 0 {
				if zb, ok := z.(avBool); ok {
					if x.Op == token.EQL {
						return zb
					}
					return avBool{!zb.b}
				}
				return top
			}
		}
		// d == o on Decimals: bit identity
		ld, ok1 := l.(*avDec)
		rd, ok2 := r.(*avDec)
		if ok1 && ok2 {
			if ld.class != "" && rd.class != "" && (ld.class != rd.class || ld.sign.avKey() != rd.sign.avKey()) {
				return avBool{x.Op == token.NEQ}
			}
			return top
		}
	}
	return in.binop(x.Op, l, r, x)
}

// coefZeroTest recognises sig[0]|sig[1](|sig[2]...) where sig is an
// unmodified coefficient view, and returns whether it is zero.
func (in *interp) coefZeroTest(e ast.Expr, st *state) (AV, bool) {
	var obj types.Object
	ok := true
	limbs := map[int64]bool{}
	var walk func(e ast.Expr)
	walk = func(e ast.Expr) {
		e = ast.Unparen(e)
		switch x := e.(type) {
		case *ast.BinaryExpr:
			if x.Op != token.OR {
				ok = false
				return
			}
			walk(x.X)
			walk(x.Y)
		case *ast.IndexExpr:
			o := in.p.objOf(x.X)
			if o == nil || (obj != nil && o != obj) {
				ok = false
				return
			}
			obj = o
			if i, isC := in.p.constInt64(x.Index); isC {
				limbs[i] = true
			} else {
				ok = false
			}
		default:
			ok = false
		}
	}
	walk(e)
	if !ok || obj == nil {
		return nil, false
	}
	// every limb must take part: a single word being zero says nothing about the coefficient
	if n := limbsOf(obj.Type()); n == 0 || len(limbs) != n {
		return nil, false
	}
	cv, isCoef := st.vars[obj].(*avCoef)
	if !isCoef {
		return nil, false
	}
	switch cv.of.class {
	case "zero":
		return avBool{true}, true
	case "fin", "one":
		return avBool{false}, true
	}
	return top, true
}

func (in *interp) binop(op token.Token, l, r AV, at ast.Node) AV {
	if in.binopHook != nil {
		if v, ok := in.binopHook(op, l, r, at); ok {
			return v
		}
	}
	// booleans
	switch op {
	case token.EQL, token.NEQ:
		_, lb := l.(avBool)
		_, ls := l.(*avSym)
		_, rb := r.(avBool)
		_, rs := r.(*avSym)
		if (lb || ls) && (rb || rs) {
			v := avXor(l, r)
			if op == token.EQL {
				return avNot(v)
			}
			return v
		}
		if _, ok := l.(avNil); ok {
			l, r = r, l
		}
		if _, ok := r.(avNil); ok {
			switch l.(type) {
			case avNil:
				return avBool{op == token.EQL}
			case avErr:
				return avBool{op == token.NEQ}
			}
			return top
		}
		if ls, ok := l.(avStr); ok {
			if rs, ok := r.(avStr); ok {
				return avBool{(ls.s == rs.s) == (op == token.EQL)}
			}
		}
	case token.ADD:
		if ls, ok := l.(avStr); ok {
			if rs, ok := r.(avStr); ok {
				return avStr{ls.s + rs.s}
			}
		}
	}
	// integer sets
	lv, lok := intVals(l)
	rv, rok := intVals(r)
	if !lok || !rok {
		return top
	}
	switch op {
	case token.EQL, token.NEQ, token.LSS, token.LEQ, token.GTR, token.GEQ:
		var res *bool
		for _, a := range lv {
			for _, b := range rv {
				var c bool
				switch op {
				case token.EQL:
					c = a == b
				case token.NEQ:
					c = a != b
				case token.LSS:
					c = a < b
				case token.LEQ:
					c = a <= b
				case token.GTR:
					c = a > b
				case token.GEQ:
					c = a >= b
				}
				if res == nil {
					cc := c
					res = &cc
				} else if *res != c {
					return top
				}
			}
		}
		if res == nil {
			return top
		}
		return avBool{*res}
	}
	if len(lv) != 1 || len(rv) != 1 {
		return top
	}
	a, b := lv[0], rv[0]
	switch op {
	case token.ADD:
		return avInt{a + b}
	case token.SUB:
		return avInt{a - b}
	case token.MUL:
		return avInt{a * b}
	case token.QUO:
		if b != 0 {
			return avInt{a / b}
		}
	case token.REM:
		if b != 0 {
			return avInt{a % b}
		}
	case token.AND:
		return avInt{a & b}
	case token.OR:
		return avInt{a | b}
	case token.SHL:
		if b >= 0 && b < 63 {
			return avInt{a << uint(b)}
		}
	case token.SHR:
		if b >= 0 && b < 64 {
			return avInt{a >> uint(b)}
		}
	}
	return top
}

func intVals(v AV) ([]int64, bool) {
	switch x := v.(type) {
	case avInt:
		return []int64{x.v}, true
	case avSet:
		return x.vals, true
	}
	return nil, false
}

// evalCall evaluates a call: conversions, intrinsics, inlined package
// functions, otherwise unknown results.
func (in *interp) evalCall(call *ast.CallExpr, st *state) []AV {
	p := in.p
	// conversion
	if tv, ok := p.Info.Types[call.Fun]; ok && tv.IsType() && len(call.Args) == 1 {
		vs := in.evalMulti(call.Args[0], st)
		var out []AV
		for _, v := range vs {
			switch v.(type) {
			case avInt, avSet, avBool, *avSym, avStr:
				if _, isStr := v.(avStr); isStr {
					if b, ok := tv.Type.Underlying().(*types.Basic); !ok || b.Info()&types.IsString == 0 {
						out = append(out, top)
						continue
					}
				}
				if iv, isInt := v.(avInt); isInt {
					// a conversion to a narrower integer type wraps
					if b, ok := tv.Type.Underlying().(*types.Basic); ok && b.Info()&types.IsInteger != 0 {
						w := uint(0)
						switch b.Kind() {
						case types.Int8, types.Uint8:
							w = 8
						case types.Int16, types.Uint16:
							w = 16
						case types.Int32, types.Uint32:
							w = 32
						}
						if w != 0 {
							m := iv.v & (int64(1)<<w - 1)
							if b.Info()&types.IsUnsigned == 0 && m >= int64(1)<<(w-1) {
								m -= int64(1) << w
							}
							v = avInt{m}
						}
					}
				}
				out = append(out, v)
			case avOpaque:
				// an opaque token keeps its identity through integer conversions (engines use it as a tag)
				if b, ok := tv.Type.Underlying().(*types.Basic); ok && b.Info()&types.IsInteger != 0 {
					out = append(out, v)
				} else {
					out = append(out, top)
				}
			default:
				out = append(out, top)
			}
		}
		return out
	}
	name := p.calleeName(call)
	var recv AV
	if sel, ok := ast.Unparen(call.Fun).(*ast.SelectorExpr); ok {
		if s := p.Info.Selections[sel]; s != nil {
			recv = in.eval1(sel.X, st)
		}
	}
	args := make([]AV, len(call.Args))
	for i, a := range call.Args {
		args[i] = in.eval1(a, st)
	}
	if in.onCall != nil {
		in.onCall(in, st, call, name, recv, args)
	}
	if name == "builtin.panic" {
		return []AV{avPanic{}}
	}
	if name == "builtin.len" && len(args) == 1 {
		if sv, ok := args[0].(avStr); ok {
			return []AV{avInt{int64(len(sv.s))}}
		}
	}
	if (name == "builtin.min" || name == "builtin.max") && len(args) >= 1 {
		all := true
		var best int64
		for i, a := range args {
			iv, ok := a.(avInt)
			if !ok {
				all = false
				break
			}
			if i == 0 || (name == "builtin.min" && iv.v < best) || (name == "builtin.max" && iv.v > best) {
				best = iv.v
			}
		}
		if all {
			return []AV{avInt{best}}
		}
	}
	if f, ok := in.intrinsics[name]; ok {
		if res, ok := f(in, st, call, recv, args); ok {
			return res
		}
	}
	doInline := in.inline[name]
	if !doInline && in.inlineAll && name != "" && !strings.Contains(name, "/") && !strings.HasPrefix(name, "builtin.") && !strings.HasPrefix(name, "unsafe.") {
		doInline = true
		for _, pre := range in.noInline {
			if strings.HasPrefix(name, pre) {
				doInline = false
			}
		}
		if fn := p.callee(call); fn == nil || fn.Pkg() != p.Pkg.Types {
			doInline = false
		}
	}
	if doInline && in.depth < in.maxDepth {
		if fd := p.Funcs[name]; fd != nil && fd.Body != nil {
			key := name + "|"
			if recv != nil {
				key += recv.avKey()
			}
			for _, a := range args {
				key += "," + a.avKey()
			}
			hasRef := false
			if _, ok := recv.(avRef); ok {
				hasRef = true
			}
			for _, a := range args {
				if _, ok := a.(avRef); ok {
					hasRef = true
				}
			}
			if !hasRef {
				if res, ok := in.memo[key]; ok {
					return res
				}
			}
			in.depth++
			savedFlds := in.callerFlds
			if hasRef {
				in.callerFlds = st.flds
			} else {
				in.callerFlds = nil
			}
			res := in.runFunc(fd, recv, args)
			in.callerFlds = savedFlds
			in.depth--
			if hasRef {
				// effects of the callee on referenced fields become visible to the caller
				for k, v := range in.lastFlds {
					st.flds[k] = v
				}
				return res
			}
			// PANIC inside a callee propagates as a value; callers treat it as an outcome
			in.memo[key] = res
			return res
		}
	}
	// unknown: Top, or a tuple of Tops
	if tv, ok := p.Info.Types[call]; ok {
		if tup, ok := tv.Type.(*types.Tuple); ok {
			vs := make([]AV, tup.Len())
			for i := range vs {
				vs[i] = top
			}
			return []AV{&avTuple{vs: vs}}
		}
	}
	return []AV{top}
}
