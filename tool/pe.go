package main

import (
	"fmt"
	"go/ast"
	"go/constant"
	"go/token"
	"go/types"
	"strings"
)

// A partial evaluator for the byte-shuffling codecs (MarshalBinary,
// UnmarshalBinary): integers that the code itself fixes (loop counters,
// shift amounts, indices, lengths) are concrete, data words are vectors of
// bit provenances (bitvec.go). Loops with concrete conditions are unrolled,
// package functions are entered. There is no concrete input: every data bit
// is a named symbol, so one evaluation covers every value. Anything the
// evaluator does not understand makes the result "undecided", never "ok".

type peVal interface{}

type peInt struct{ v int64 }
type peBool struct{ b bool }
type peBits struct { // an unsigned integer of the given width whose bits are tracked
	bv    bitvec
	width int
}
type peCells struct{ cells []bitvec } // backing array of bytes
type peSlice struct {
	arr          *peCells
	off, n       int
	isNil        bool
	lenLo, lenHi int64 // when arr == nil && !isNil: a slice whose length is only known to lie in [lenLo, lenHi] (lenHi < 0: unbounded)
}
type peStruct struct{ f map[string]peVal }
type peLimbs struct{ v []peVal } // a value of type [N]uint64 (copied on assignment, like the array it models)
type pePtr struct{ to *peStruct }
type peNil struct{}
type peErr struct{}                 // some non-nil error
type peRange struct{ lo, hi int64 } // an int known only to lie in [lo, hi]; hi < 0 means unbounded
type peTuple struct{ vs []peVal }

type peFail struct{ why string }

type peFrame struct {
	vars map[types.Object]peVal
}

type peEval struct {
	p      *Prog
	steps  int
	depth  int
	stores []string // log of stores through pointers (for "no store on error paths")
}

type peCtl int

const (
	peNext peCtl = iota
	peReturn
	peBreak
	peContinue
)

func (e *peEval) fail(format string, args ...interface{}) {
	panic(peFail{fmt.Sprintf(format, args...)})
}

// call evaluates fd with the given receiver/arguments; the result is the tuple of returned values.
func (e *peEval) call(fd *ast.FuncDecl, recv peVal, args []peVal) (res []peVal) {
	e.depth++
	if e.depth > 8 {
		e.fail("call depth exceeded at %s", fd.Name.Name)
	}
	defer func() { e.depth-- }()
	fr := &peFrame{vars: map[types.Object]peVal{}}
	cp := func(v peVal) peVal {
		if l, ok := v.(*peLimbs); ok {
			return &peLimbs{v: append([]peVal{}, l.v...)}
		}
		return v
	}
	for i := range args {
		args[i] = cp(args[i])
	}
	if fd.Recv != nil && len(fd.Recv.List) == 1 && len(fd.Recv.List[0].Names) == 1 {
		fr.vars[e.p.Info.Defs[fd.Recv.List[0].Names[0]]] = cp(recv)
	}
	i := 0
	if fd.Type.Params != nil {
		for _, f := range fd.Type.Params.List {
			for _, n := range f.Names {
				if i < len(args) {
					fr.vars[e.p.Info.Defs[n]] = args[i]
				}
				i++
			}
		}
	}
	var named []types.Object
	if fd.Type.Results != nil {
		for _, f := range fd.Type.Results.List {
			for _, n := range f.Names {
				o := e.p.Info.Defs[n]
				named = append(named, o)
				fr.vars[o] = e.zero(o.Type())
			}
		}
	}
	ctl, out := e.block(fd.Body.List, fr)
	if ctl != peReturn {
		if fd.Type.Results == nil || len(fd.Type.Results.List) == 0 {
			return nil
		}
		e.fail("%s falls off its end", fd.Name.Name)
	}
	if out == nil && len(named) > 0 {
		for _, o := range named {
			out = append(out, fr.vars[o])
		}
	}
	return out
}

func (e *peEval) zero(t types.Type) peVal {
	switch u := t.Underlying().(type) {
	case *types.Basic:
		switch {
		case u.Info()&types.IsBoolean != 0:
			return peBool{false}
		case u.Info()&types.IsUnsigned != 0:
			w, _ := typeWidth(t)
			return peBits{constVec(0), w}
		case u.Info()&types.IsInteger != 0:
			return peInt{0}
		}
	case *types.Slice:
		return peSlice{isNil: true}
	case *types.Interface, *types.Pointer:
		return peNil{}
	case *types.Array:
		out := &peLimbs{}
		for i := int64(0); i < u.Len(); i++ {
			out.v = append(out.v, e.zero(u.Elem()))
		}
		return out
	}
	e.fail("zero value of %s", t)
	return nil
}

func (e *peEval) block(list []ast.Stmt, fr *peFrame) (peCtl, []peVal) {
	for _, s := range list {
		if ctl, out := e.stmt(s, fr); ctl != peNext {
			return ctl, out
		}
	}
	return peNext, nil
}

func (e *peEval) stmt(s ast.Stmt, fr *peFrame) (peCtl, []peVal) {
	e.steps++
	if e.steps > 200000 {
		e.fail("step budget exceeded")
	}
	p := e.p
	switch x := s.(type) {
	case *ast.BlockStmt:
		return e.block(x.List, fr)
	case *ast.EmptyStmt:
		return peNext, nil
	case *ast.ExprStmt:
		e.expr(x.X, fr)
		return peNext, nil
	case *ast.DeclStmt:
		gd, ok := x.Decl.(*ast.GenDecl)
		if !ok {
			e.fail("declaration at %s", p.posStr(x))
		}
		if gd.Tok == token.VAR {
			for _, sp := range gd.Specs {
				vs := sp.(*ast.ValueSpec)
				for i, nm := range vs.Names {
					o := p.Info.Defs[nm]
					if i < len(vs.Values) {
						fr.vars[o] = e.conv(e.expr(vs.Values[i], fr), o.Type())
					} else {
						fr.vars[o] = e.zero(o.Type())
					}
				}
			}
		}
		return peNext, nil
	case *ast.AssignStmt:
		e.assign(x, fr)
		return peNext, nil
	case *ast.IncDecStmt:
		v := e.expr(x.X, fr)
		iv, ok := v.(peInt)
		if !ok {
			e.fail("++/-- on a non-concrete value at %s", p.posStr(x))
		}
		if x.Tok == token.INC {
			iv.v++
		} else {
			iv.v--
		}
		e.store(x.X, iv, fr)
		return peNext, nil
	case *ast.ReturnStmt:
		var out []peVal
		for _, r := range x.Results {
			v := e.expr(r, fr)
			if t, ok := v.(peTuple); ok && len(x.Results) == 1 {
				out = append(out, t.vs...)
			} else {
				out = append(out, v)
			}
		}
		return peReturn, out
	case *ast.IfStmt:
		if x.Init != nil {
			if ctl, out := e.stmt(x.Init, fr); ctl != peNext {
				return ctl, out
			}
		}
		c, ok := e.expr(x.Cond, fr).(peBool)
		if !ok {
			e.fail("condition `%s` does not evaluate to a constant", p.exprStr(x.Cond))
		}
		if c.b {
			return e.block(x.Body.List, fr)
		}
		if x.Else != nil {
			return e.stmt(x.Else, fr)
		}
		return peNext, nil
	case *ast.ForStmt:
		if x.Init != nil {
			e.stmt(x.Init, fr)
		}
		for iter := 0; ; iter++ {
			if iter > 4096 {
				e.fail("loop at %s does not terminate within 4096 iterations", p.posStr(x))
			}
			if x.Cond != nil {
				c, ok := e.expr(x.Cond, fr).(peBool)
				if !ok {
					e.fail("loop condition `%s` does not evaluate to a constant", p.exprStr(x.Cond))
				}
				if !c.b {
					break
				}
			}
			ctl, out := e.block(x.Body.List, fr)
			if ctl == peReturn {
				return ctl, out
			}
			if ctl == peBreak {
				break
			}
			if x.Post != nil {
				e.stmt(x.Post, fr)
			}
		}
		return peNext, nil
	case *ast.RangeStmt:
		src := e.expr(x.X, fr)
		n := 0
		var sl peSlice
		switch v := src.(type) {
		case peSlice:
			if v.arr == nil && !v.isNil {
				e.fail("range over a slice of unknown length at %s", p.posStr(x))
			}
			sl, n = v, v.n
		case peInt:
			n = int(v.v)
		default:
			e.fail("range over %T at %s", src, p.posStr(x))
		}
		for i := 0; i < n; i++ {
			if x.Key != nil && !isBlank(x.Key) {
				e.define(x.Key, peInt{int64(i)}, fr, x.Tok == token.DEFINE)
			}
			if x.Value != nil && !isBlank(x.Value) {
				e.define(x.Value, peBits{sl.arr.cells[sl.off+i], 8}, fr, x.Tok == token.DEFINE)
			}
			ctl, out := e.block(x.Body.List, fr)
			if ctl == peReturn {
				return ctl, out
			}
			if ctl == peBreak {
				break
			}
		}
		return peNext, nil
	case *ast.BranchStmt:
		if x.Label != nil {
			e.fail("labelled branch at %s", p.posStr(x))
		}
		switch x.Tok {
		case token.BREAK:
			return peBreak, nil
		case token.CONTINUE:
			return peContinue, nil
		}
	case *ast.SwitchStmt:
		if x.Init != nil {
			e.stmt(x.Init, fr)
		}
		var tag peVal
		if x.Tag != nil {
			tag = e.expr(x.Tag, fr)
		}
		var def *ast.CaseClause
		for _, cc := range x.Body.List {
			cl := cc.(*ast.CaseClause)
			if cl.List == nil {
				def = cl
				continue
			}
			for _, ce := range cl.List {
				v := e.expr(ce, fr)
				hit := false
				if tag == nil {
					b, ok := v.(peBool)
					if !ok {
						e.fail("case `%s` does not evaluate to a constant", p.exprStr(ce))
					}
					hit = b.b
				} else {
					b, ok := e.binary(token.EQL, tag, v, ce).(peBool)
					if !ok {
						e.fail("case `%s` does not evaluate to a constant", p.exprStr(ce))
					}
					hit = b.b
				}
				if hit {
					ctl, out := e.block(cl.Body, fr)
					if ctl == peBreak {
						ctl = peNext
					}
					return ctl, out
				}
			}
		}
		if def != nil {
			ctl, out := e.block(def.Body, fr)
			if ctl == peBreak {
				ctl = peNext
			}
			return ctl, out
		}
		return peNext, nil
	}
	e.fail("unsupported statement %T at %s", s, p.posStr(s))
	return peNext, nil
}

func (e *peEval) define(l ast.Expr, v peVal, fr *peFrame, def bool) {
	id, ok := ast.Unparen(l).(*ast.Ident)
	if !ok {
		e.store(l, v, fr)
		return
	}
	o := e.p.objOf(id)
	if o == nil {
		e.fail("unresolved %s", id.Name)
	}
	if l, ok := v.(*peLimbs); ok {
		v = &peLimbs{v: append([]peVal{}, l.v...)}
	}
	fr.vars[o] = e.conv(v, o.Type())
}

func (e *peEval) assign(x *ast.AssignStmt, fr *peFrame) {
	p := e.p
	if x.Tok == token.DEFINE || x.Tok == token.ASSIGN {
		var vals []peVal
		if len(x.Rhs) == 1 && len(x.Lhs) > 1 {
			t, ok := e.expr(x.Rhs[0], fr).(peTuple)
			if !ok || len(t.vs) != len(x.Lhs) {
				e.fail("multi-value assignment at %s", p.posStr(x))
			}
			vals = t.vs
		} else {
			for _, r := range x.Rhs {
				vals = append(vals, e.expr(r, fr))
			}
		}
		for i, l := range x.Lhs {
			if isBlank(l) {
				continue
			}
			if _, isId := ast.Unparen(l).(*ast.Ident); isId {
				e.define(l, vals[i], fr, x.Tok == token.DEFINE)
			} else {
				e.store(l, vals[i], fr)
			}
		}
		return
	}
	// op-assign
	var op token.Token
	switch x.Tok {
	case token.OR_ASSIGN:
		op = token.OR
	case token.AND_ASSIGN:
		op = token.AND
	case token.XOR_ASSIGN:
		op = token.XOR
	case token.SHL_ASSIGN:
		op = token.SHL
	case token.SHR_ASSIGN:
		op = token.SHR
	case token.ADD_ASSIGN:
		op = token.ADD
	case token.SUB_ASSIGN:
		op = token.SUB
	case token.MUL_ASSIGN:
		op = token.MUL
	default:
		e.fail("operator %s at %s", x.Tok, p.posStr(x))
	}
	cur := e.expr(x.Lhs[0], fr)
	r := e.expr(x.Rhs[0], fr)
	v := e.binary(op, cur, e.convLike(r, cur, op), x)
	if t := p.typeOf(x.Lhs[0]); t != nil {
		v = e.conv(v, t)
	}
	e.store(x.Lhs[0], v, fr)
}

// convLike converts a concrete int operand to a bit vector when the other side is one (shift counts stay ints).
func (e *peEval) convLike(v, like peVal, op token.Token) peVal {
	if op == token.SHL || op == token.SHR {
		return v
	}
	if lb, ok := like.(peBits); ok {
		if iv, ok := v.(peInt); ok {
			return peBits{constVec(uint64(iv.v)).trunc(lb.width), lb.width}
		}
	}
	return v
}

func (e *peEval) store(l ast.Expr, v peVal, fr *peFrame) {
	p := e.p
	switch x := ast.Unparen(l).(type) {
	case *ast.Ident:
		o := p.objOf(x)
		if l, ok := v.(*peLimbs); ok {
			v = &peLimbs{v: append([]peVal{}, l.v...)}
		}
		fr.vars[o] = e.conv(v, o.Type())
	case *ast.IndexExpr:
		if la, isLimbs := e.expr(x.X, fr).(*peLimbs); isLimbs {
			iv, ok := e.expr(x.Index, fr).(peInt)
			if !ok || iv.v < 0 || int(iv.v) >= len(la.v) {
				e.fail("limb store with a non-concrete or out-of-range index at %s", p.posStr(x))
			}
			cv := e.conv(v, types.Typ[types.Uint64])
			if ci, isInt := cv.(peInt); isInt {
				cv = peBits{constVec(uint64(ci.v)), 64}
			}
			la.v[iv.v] = cv
			return
		}
		sl, ok := e.expr(x.X, fr).(peSlice)
		iv, ok2 := e.expr(x.Index, fr).(peInt)
		if !ok || !ok2 || sl.arr == nil {
			e.fail("store through a non-concrete index or slice at %s", p.posStr(x))
		}
		if iv.v < 0 || int(iv.v) >= sl.n {
			e.fail("index %d out of range [0,%d) at %s", iv.v, sl.n, p.posStr(x))
		}
		cv := e.conv(v, types.Typ[types.Uint8])
		if ci, isInt := cv.(peInt); isInt {
			cv = peBits{constVec(uint64(ci.v)).trunc(8), 8}
		}
		b, ok := cv.(peBits)
		if !ok {
			e.fail("stored value is not a byte at %s", p.posStr(x))
		}
		sl.arr.cells[sl.off+int(iv.v)] = b.bv
	case *ast.StarExpr:
		ptr, ok := e.expr(x.X, fr).(pePtr)
		sv, ok2 := v.(*peStruct)
		if !ok || !ok2 {
			e.fail("store through pointer at %s", p.posStr(x))
		}
		e.stores = append(e.stores, p.posStr(x))
		ptr.to.f = map[string]peVal{}
		for k, fv := range sv.f {
			ptr.to.f[k] = fv
		}
	case *ast.SelectorExpr:
		base := e.expr(x.X, fr)
		var st *peStruct
		switch b := base.(type) {
		case pePtr:
			st = b.to
			e.stores = append(e.stores, p.posStr(x))
		case *peStruct:
			st = b
		default:
			e.fail("field store at %s", p.posStr(x))
		}
		st.f[x.Sel.Name] = v
	default:
		e.fail("store to %T at %s", l, p.posStr(l))
	}
}

// conv converts v to type t (width changes of tracked integers; concrete ints to tracked ones).
func (e *peEval) conv(v peVal, t types.Type) peVal {
	b, ok := t.Underlying().(*types.Basic)
	if !ok {
		return v
	}
	w, _ := typeWidth(t)
	switch {
	case b.Info()&types.IsUnsigned != 0:
		switch x := v.(type) {
		case peBits:
			return peBits{x.bv.trunc(w), w}
		case peInt:
			// a concrete count stays concrete (shift amounts, indices): the type checker already accepted the conversion
			if x.v >= 0 {
				return x
			}
			return peBits{constVec(uint64(x.v)).trunc(w), w}
		}
	case b.Info()&types.IsInteger != 0:
		switch x := v.(type) {
		case peBits:
			// only a fully constant vector can become a signed concrete integer
			var u uint64
			for i := 0; i < 64; i++ {
				switch x.bv[i].k {
				case '1':
					u |= 1 << uint(i)
				case '0':
				default:
					e.fail("signed conversion of a data word")
				}
			}
			return peInt{int64(u)}
		}
	}
	return v
}

func (e *peEval) expr(x ast.Expr, fr *peFrame) peVal {
	p := e.p
	x = ast.Unparen(x)
	if cv := p.constOf(x); cv != nil {
		switch cv.Kind() {
		case constant.Bool:
			return peBool{constant.BoolVal(cv)}
		case constant.Int:
			if i, ok := constant.Int64Val(cv); ok {
				return peInt{i}
			}
			if u, ok := constant.Uint64Val(cv); ok {
				return peBits{constVec(u), 64}
			}
		}
		e.fail("constant %s", cv)
	}
	switch y := x.(type) {
	case *ast.Ident:
		if y.Name == "nil" {
			return peNil{}
		}
		o := p.objOf(y)
		if v, ok := fr.vars[o]; ok {
			return v
		}
		e.fail("variable %s has no tracked value at %s", y.Name, p.posStr(y))
	case *ast.SelectorExpr:
		if _, isField := p.Info.Selections[y]; isField {
			base := e.expr(y.X, fr)
			switch b := base.(type) {
			case *peStruct:
				if v, ok := b.f[y.Sel.Name]; ok {
					return v
				}
			case pePtr:
				if v, ok := b.to.f[y.Sel.Name]; ok {
					return v
				}
			}
			e.fail("field %s at %s", y.Sel.Name, p.posStr(y))
		}
		e.fail("selector %s at %s", p.exprStr(y), p.posStr(y))
	case *ast.StarExpr:
		if ptr, ok := e.expr(y.X, fr).(pePtr); ok {
			return ptr.to
		}
		e.fail("dereference at %s", p.posStr(y))
	case *ast.UnaryExpr:
		v := e.expr(y.X, fr)
		switch y.Op {
		case token.NOT:
			if b, ok := v.(peBool); ok {
				return peBool{!b.b}
			}
		case token.SUB:
			if i, ok := v.(peInt); ok {
				return peInt{-i.v}
			}
		case token.AND:
			if s, ok := v.(*peStruct); ok {
				return pePtr{s}
			}
		}
		e.fail("unary %s at %s", y.Op, p.posStr(y))
	case *ast.BinaryExpr:
		if y.Op == token.LAND || y.Op == token.LOR {
			l, ok := e.expr(y.X, fr).(peBool)
			if !ok {
				e.fail("condition `%s` does not evaluate to a constant", p.exprStr(y.X))
			}
			if (y.Op == token.LAND && !l.b) || (y.Op == token.LOR && l.b) {
				return l
			}
			r, ok := e.expr(y.Y, fr).(peBool)
			if !ok {
				e.fail("condition `%s` does not evaluate to a constant", p.exprStr(y.Y))
			}
			return r
		}
		l, r := e.expr(y.X, fr), e.expr(y.Y, fr)
		v := e.binary(y.Op, e.convLike(l, r, y.Op), e.convLike(r, l, y.Op), y)
		if t := p.typeOf(y); t != nil {
			if _, isBool := v.(peBool); !isBool {
				v = e.conv(v, t)
			}
		}
		return v
	case *ast.IndexExpr:
		base := e.expr(y.X, fr)
		iv, ok := e.expr(y.Index, fr).(peInt)
		if !ok {
			e.fail("index `%s` is not concrete at %s", p.exprStr(y.Index), p.posStr(y))
		}
		if la, isLimbs := base.(*peLimbs); isLimbs {
			if iv.v < 0 || int(iv.v) >= len(la.v) {
				e.fail("index %d out of range [0,%d) at %s", iv.v, len(la.v), p.posStr(y))
			}
			return la.v[iv.v]
		}
		sl, ok := base.(peSlice)
		if !ok || sl.arr == nil {
			e.fail("indexing %s at %s", p.exprStr(y.X), p.posStr(y))
		}
		if iv.v < 0 || int(iv.v) >= sl.n {
			e.fail("index %d out of range [0,%d) at %s", iv.v, sl.n, p.posStr(y))
		}
		return peBits{sl.arr.cells[sl.off+int(iv.v)], 8}
	case *ast.SliceExpr:
		sl, ok := e.expr(y.X, fr).(peSlice)
		if !ok || sl.arr == nil || y.Slice3 {
			e.fail("slicing at %s", p.posStr(y))
		}
		lo, hi := 0, sl.n
		if y.Low != nil {
			v, ok := e.expr(y.Low, fr).(peInt)
			if !ok {
				e.fail("slice bound at %s", p.posStr(y))
			}
			lo = int(v.v)
		}
		if y.High != nil {
			v, ok := e.expr(y.High, fr).(peInt)
			if !ok {
				e.fail("slice bound at %s", p.posStr(y))
			}
			hi = int(v.v)
		}
		if lo < 0 || hi < lo || sl.off+hi > len(sl.arr.cells) {
			e.fail("slice bounds [%d:%d] out of range at %s", lo, hi, p.posStr(y))
		}
		return peSlice{arr: sl.arr, off: sl.off + lo, n: hi - lo}
	case *ast.CompositeLit:
		tv, ok := p.Info.Types[y]
		if !ok {
			e.fail("composite literal at %s", p.posStr(y))
		}
		if arr, isArr := tv.Type.Underlying().(*types.Array); isArr {
			out := &peLimbs{}
			for i := int64(0); i < arr.Len(); i++ {
				out.v = append(out.v, e.zero(arr.Elem()))
			}
			for i, el := range y.Elts {
				if _, isKV := el.(*ast.KeyValueExpr); isKV || i >= len(out.v) {
					e.fail("keyed array literal at %s", p.posStr(y))
				}
				cv := e.conv(e.expr(el, fr), arr.Elem())
				if ci, isInt := cv.(peInt); isInt {
					w, _ := typeWidth(arr.Elem())
					cv = peBits{constVec(uint64(ci.v)).trunc(w), w}
				}
				out.v[i] = cv
			}
			return out
		}
		st, ok := tv.Type.Underlying().(*types.Struct)
		if !ok {
			e.fail("composite literal of %s at %s", tv.Type, p.posStr(y))
		}
		out := &peStruct{f: map[string]peVal{}}
		for i := 0; i < st.NumFields(); i++ {
			out.f[st.Field(i).Name()] = e.zero(st.Field(i).Type())
		}
		for i, el := range y.Elts {
			if kv, ok := el.(*ast.KeyValueExpr); ok {
				name := kv.Key.(*ast.Ident).Name
				out.f[name] = e.convField(e.expr(kv.Value, fr), st, name)
			} else {
				name := st.Field(i).Name()
				out.f[name] = e.convField(e.expr(el, fr), st, name)
			}
		}
		return out
	case *ast.CallExpr:
		return e.callExpr(y, fr)
	}
	e.fail("unsupported expression %T at %s", x, p.posStr(x))
	return nil
}

func (e *peEval) convField(v peVal, st *types.Struct, name string) peVal {
	for i := 0; i < st.NumFields(); i++ {
		if st.Field(i).Name() == name {
			v = e.conv(v, st.Field(i).Type())
			if iv, ok := v.(peInt); ok {
				if w, ok := typeWidth(st.Field(i).Type()); ok {
					return peBits{constVec(uint64(iv.v)).trunc(w), w}
				}
			}
		}
	}
	return v
}

func (e *peEval) callExpr(call *ast.CallExpr, fr *peFrame) peVal {
	p := e.p
	// conversion
	if tv, ok := p.Info.Types[call.Fun]; ok && tv.IsType() && len(call.Args) == 1 {
		return e.conv(e.expr(call.Args[0], fr), tv.Type)
	}
	cn := p.calleeName(call)
	switch cn {
	case "builtin.len", "builtin.cap":
		switch v := e.expr(call.Args[0], fr).(type) {
		case peSlice:
			if v.isNil {
				return peInt{0}
			}
			if v.arr == nil {
				return peRange{v.lenLo, v.lenHi}
			}
			if cn == "builtin.cap" {
				return peInt{int64(len(v.arr.cells) - v.off)}
			}
			return peInt{int64(v.n)}
		}
		e.fail("len at %s", p.posStr(call))
	case "builtin.make":
		n, ok := e.expr(call.Args[1], fr).(peInt)
		if !ok || n.v < 0 || n.v > 4096 {
			e.fail("make with a non-concrete length at %s", p.posStr(call))
		}
		cells := make([]bitvec, n.v)
		for i := range cells {
			cells[i] = constVec(0)
		}
		return peSlice{arr: &peCells{cells}, n: int(n.v)}
	case "builtin.copy":
		dst, ok1 := e.expr(call.Args[0], fr).(peSlice)
		src, ok2 := e.expr(call.Args[1], fr).(peSlice)
		if !ok1 || !ok2 || dst.arr == nil || src.arr == nil {
			e.fail("copy at %s", p.posStr(call))
		}
		n := dst.n
		if src.n < n {
			n = src.n
		}
		tmp := append([]bitvec{}, src.arr.cells[src.off:src.off+n]...)
		copy(dst.arr.cells[dst.off:], tmp)
		return peInt{int64(n)}
	case "builtin.append":
		dst, ok := e.expr(call.Args[0], fr).(peSlice)
		if !ok || (dst.arr == nil && !dst.isNil) {
			e.fail("append at %s", p.posStr(call))
		}
		var cells []bitvec
		if dst.arr != nil {
			cells = append(cells, dst.arr.cells[dst.off:dst.off+dst.n]...)
		}
		if call.Ellipsis != token.NoPos {
			src, ok := e.expr(call.Args[1], fr).(peSlice)
			if !ok || src.arr == nil {
				e.fail("append at %s", p.posStr(call))
			}
			cells = append(cells, src.arr.cells[src.off:src.off+src.n]...)
		} else {
			for _, a := range call.Args[1:] {
				b, ok := e.conv(e.expr(a, fr), types.Typ[types.Uint8]).(peBits)
				if !ok {
					if iv, isInt := e.expr(a, fr).(peInt); isInt {
						b = peBits{constVec(uint64(iv.v)).trunc(8), 8}
					} else {
						e.fail("append of a non-byte at %s", p.posStr(call))
					}
				}
				cells = append(cells, b.bv)
			}
		}
		return peSlice{arr: &peCells{cells}, n: len(cells)}
	case "builtin.panic":
		e.fail("panic reached at %s", p.posStr(call))
	}
	if strings.HasPrefix(cn, "errors.") || strings.HasPrefix(cn, "fmt.Errorf") || cn == "fmt.Errorf" {
		for _, a := range call.Args {
			_ = a
		}
		return peErr{}
	}
	fd := p.Funcs[cn]
	if fd == nil || fd.Body == nil {
		// an error value constructed by a composite literal or an unknown function returning error
		if t := p.typeOf(call); t != nil && t.String() == "error" {
			return peErr{}
		}
		e.fail("call of %s at %s is outside the package", cn, p.posStr(call))
	}
	var recv peVal
	if sel, ok := call.Fun.(*ast.SelectorExpr); ok && fd.Recv != nil {
		recv = e.expr(sel.X, fr)
	}
	var args []peVal
	for _, a := range call.Args {
		args = append(args, e.expr(a, fr))
	}
	out := e.call(fd, recv, args)
	switch len(out) {
	case 0:
		return peTuple{}
	case 1:
		return out[0]
	}
	return peTuple{out}
}

func (e *peEval) binary(op token.Token, l, r peVal, at ast.Node) peVal {
	p := e.p
	// an int known only to lie in a range: a comparison is decided when the whole range agrees
	if lr, ok := l.(peRange); ok {
		if ri, ok := r.(peInt); ok {
			return e.rangeCmp(op, lr, ri.v, at)
		}
		e.fail("arithmetic on an unknown length at %s", p.posStr(at))
	}
	if rr, ok := r.(peRange); ok {
		if li, ok := l.(peInt); ok {
			flip := map[token.Token]token.Token{token.EQL: token.EQL, token.NEQ: token.NEQ, token.LSS: token.GTR, token.GTR: token.LSS, token.LEQ: token.GEQ, token.GEQ: token.LEQ}
			if fo, ok := flip[op]; ok {
				return e.rangeCmp(fo, rr, li.v, at)
			}
		}
		e.fail("arithmetic on an unknown length at %s", p.posStr(at))
	}
	if op != token.SHL && op != token.SHR {
		// a concrete integer meeting a tracked word becomes a constant word of the same width
		if li, ok := l.(peInt); ok {
			if rb, ok := r.(peBits); ok {
				l = peBits{constVec(uint64(li.v)).trunc(rb.width), rb.width}
			}
		}
		if ri, ok := r.(peInt); ok {
			if lb, ok := l.(peBits); ok {
				r = peBits{constVec(uint64(ri.v)).trunc(lb.width), lb.width}
			}
		}
	}
	switch lv := l.(type) {
	case peInt:
		switch rv := r.(type) {
		case peInt:
			a, b := lv.v, rv.v
			switch op {
			case token.ADD:
				return peInt{a + b}
			case token.SUB:
				return peInt{a - b}
			case token.MUL:
				return peInt{a * b}
			case token.QUO:
				if b == 0 {
					e.fail("division by zero at %s", p.posStr(at))
				}
				return peInt{a / b}
			case token.REM:
				if b == 0 {
					e.fail("division by zero at %s", p.posStr(at))
				}
				return peInt{a % b}
			case token.SHL:
				if b < 0 || b > 62 {
					e.fail("shift count at %s", p.posStr(at))
				}
				return peInt{a << uint(b)}
			case token.SHR:
				if b < 0 || b > 63 {
					e.fail("shift count at %s", p.posStr(at))
				}
				return peInt{a >> uint(b)}
			case token.AND:
				return peInt{a & b}
			case token.OR:
				return peInt{a | b}
			case token.XOR:
				return peInt{a ^ b}
			case token.EQL:
				return peBool{a == b}
			case token.NEQ:
				return peBool{a != b}
			case token.LSS:
				return peBool{a < b}
			case token.LEQ:
				return peBool{a <= b}
			case token.GTR:
				return peBool{a > b}
			case token.GEQ:
				return peBool{a >= b}
			}
		}
	case peBits:
		switch op {
		case token.SHL, token.SHR:
			n, ok := r.(peInt)
			if !ok {
				// a fully constant shift count carried as bits
				if rb, isBits := r.(peBits); isBits {
					if iv, ok2 := e.conv(rb, types.Typ[types.Int]).(peInt); ok2 {
						n, ok = iv, true
					}
				}
			}
			if !ok || n.v < 0 {
				e.fail("shift by a non-concrete count at %s", p.posStr(at))
			}
			if n.v >= 64 {
				return peBits{constVec(0), lv.width}
			}
			if op == token.SHL {
				return peBits{lv.bv.shl(int(n.v)).trunc(lv.width), lv.width}
			}
			return peBits{lv.bv.shr(int(n.v)), lv.width}
		}
		if rv, ok := r.(peBits); ok {
			w := lv.width
			if rv.width > w {
				w = rv.width
			}
			switch op {
			case token.AND:
				return peBits{lv.bv.and(rv.bv), w}
			case token.OR:
				return peBits{lv.bv.or(rv.bv), w}
			case token.XOR:
				return peBits{lv.bv.xor(rv.bv), w}
			case token.AND_NOT:
				return peBits{lv.bv.andNot(rv.bv), w}
			case token.ADD:
				// a + b without overlapping possibly-set bits is a | b
				disjoint := true
				for i := 0; i < 64; i++ {
					if lv.bv[i].k != '0' && rv.bv[i].k != '0' {
						disjoint = false
					}
				}
				if disjoint {
					return peBits{lv.bv.or(rv.bv), w}
				}
			}
		}
	case peBool:
		if rv, ok := r.(peBool); ok {
			switch op {
			case token.EQL:
				return peBool{lv.b == rv.b}
			case token.NEQ:
				return peBool{lv.b != rv.b}
			}
		}
	case peNil:
		switch r.(type) {
		case peNil:
			return peBool{op == token.EQL}
		case peErr, pePtr:
			return peBool{op == token.NEQ}
		case peSlice:
			return peBool{(op == token.EQL) == r.(peSlice).isNil}
		}
	case peErr, pePtr:
		if _, ok := r.(peNil); ok {
			return peBool{op == token.NEQ}
		}
	case peSlice:
		if _, ok := r.(peNil); ok {
			return peBool{(op == token.EQL) == lv.isNil}
		}
	}
	e.fail("operator %s on %T and %T at %s", op, l, r, p.posStr(at))
	return nil
}

// run evaluates f and converts an evaluation failure into (nil, reason).
func (e *peEval) run(fd *ast.FuncDecl, recv peVal, args []peVal) (res []peVal, why string) {
	defer func() {
		if r := recover(); r != nil {
			if f, ok := r.(peFail); ok {
				res, why = nil, f.why
				return
			}
			panic(r)
		}
	}()
	return e.call(fd, recv, args), ""
}

func (e *peEval) rangeCmp(op token.Token, r peRange, k int64, at ast.Node) peVal {
	cmp := func(v int64) bool {
		switch op {
		case token.EQL:
			return v == k
		case token.NEQ:
			return v != k
		case token.LSS:
			return v < k
		case token.LEQ:
			return v <= k
		case token.GTR:
			return v > k
		case token.GEQ:
			return v >= k
		}
		e.fail("operator %s on an unknown length at %s", op, e.p.posStr(at))
		return false
	}
	// the predicates are monotone or point-wise: the range agrees iff both ends and the points next to k agree
	pts := []int64{r.lo}
	if r.hi >= 0 {
		pts = append(pts, r.hi)
	} else {
		pts = append(pts, 1<<40)
	}
	for _, c := range []int64{k - 1, k, k + 1} {
		if c >= r.lo && (r.hi < 0 || c <= r.hi) {
			pts = append(pts, c)
		}
	}
	first := cmp(pts[0])
	for _, v := range pts[1:] {
		if cmp(v) != first {
			e.fail("a length in [%d,%d] does not decide `len %s %d` at %s", r.lo, r.hi, op, k, e.p.posStr(at))
		}
	}
	return peBool{first}
}
