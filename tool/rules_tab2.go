package main

import (
	"fmt"
	"go/ast"
	"go/constant"
	"go/token"
	"math/big"
	"sort"
	"strings"
)

const lnPrec = 400

// bigLn computes ln(num/den) to lnPrec bits with the atanh series
// ln(x) = 2·atanh((x-1)/(x+1)).
func bigLn(num, den int64) *big.Float {
	nf := func(v int64) *big.Float { return new(big.Float).SetPrec(lnPrec).SetInt64(v) }
	t := new(big.Float).SetPrec(lnPrec).Quo(nf(num-den), nf(num+den))
	t2 := new(big.Float).SetPrec(lnPrec).Mul(t, t)
	sum := new(big.Float).SetPrec(lnPrec).Set(t)
	term := new(big.Float).SetPrec(lnPrec).Set(t)
	for k := int64(3); k < 4000; k += 2 {
		term.Mul(term, t2)
		q := new(big.Float).SetPrec(lnPrec).Quo(term, nf(k))
		sum.Add(sum, q)
		if q.Sign() == 0 || q.MantExp(nil)-sum.MantExp(nil) < -lnPrec+8 {
			break
		}
	}
	return sum.Mul(sum, nf(2))
}

func scaled(v *big.Float, e int) *big.Float {
	s := new(big.Float).SetPrec(lnPrec).SetInt(pow10(e))
	return s.Mul(s, v)
}

// withinOne reports |lit - want| <= 1.
func withinOne(lit *big.Int, want *big.Float) (bool, string) {
	d := new(big.Float).SetPrec(lnPrec).SetInt(lit)
	d.Sub(d, want)
	d.Abs(d)
	return d.Cmp(big.NewFloat(1)) <= 0, d.Text('g', 6)
}

func ruleTabLn(c *Ctx) {
	p := c.P
	// decomposed192 constants
	ln10 := bigLn(10, 1)
	ln2 := bigLn(2, 1)
	one := new(big.Float).SetPrec(lnPrec).SetInt64(1)
	inv := func(v *big.Float) *big.Float { return new(big.Float).SetPrec(lnPrec).Quo(one, v) }
	for _, t := range []struct {
		name string
		val  *big.Float
	}{{"ln10", ln10}, {"ln2", ln2}, {"invLn10", inv(ln10)}, {"invLn2", inv(ln2)}} {
		init := p.pkgVarInit(t.name)
		cl, ok := init.(*ast.CompositeLit)
		if !ok {
			c.undecided("const:"+t.name, nil, t.name+" not found")
			continue
		}
		var sig *big.Int
		var exp int64
		okAll := true
		for _, el := range cl.Elts {
			kv, ok := el.(*ast.KeyValueExpr)
			if !ok {
				okAll = false
				continue
			}
			switch p.exprStr(kv.Key) {
			case "sig":
				v, limbs, ok := p.wordsOf(kv.Value)
				if !ok || limbs != 3 {
					okAll = false
				}
				sig = v
			case "exp":
				e, ok := p.constInt64(kv.Value)
				if !ok {
					okAll = false
				}
				exp = e
			}
		}
		if !okAll || sig == nil {
			c.undecided("const:"+t.name, cl, "not a {sig, exp} literal of constants")
			continue
		}
		okv, diff := withinOne(sig, scaled(t.val, int(-exp)))
		c.check(okv && exp <= -50, "const:"+t.name, cl, fmt.Sprintf("= %s to within one unit of 10^%d (|diff| = %s)", t.name, exp, diff),
			fmt.Sprintf("%s = %s·10^%d differs from the true value by %s units (must be <= 1)", t.name, sig, exp, diff))
	}
	// ln table
	expln, okE := p.pkgConstInt("expln")
	init := p.pkgVarInit("ln")
	cl, ok := init.(*ast.CompositeLit)
	if !ok || !okE {
		c.undecided("table:ln", nil, "ln table or expln not found")
		return
	}
	c.check(len(cl.Elts) == 89, "len:ln", cl, "89 entries (ln 1.1 .. ln 9.9)", fmt.Sprintf("ln table has %d entries, want 89", len(cl.Elts)))
	c.check(expln == -57, "expln", cl, "table scale 10^-57", fmt.Sprintf("expln = %d, want -57 (the table words are ln·10^57)", expln))
	for i, el := range cl.Elts {
		key := fmt.Sprintf("ln[%d]", i)
		v, limbs, ok := p.wordsOf(el)
		if !ok || limbs != 3 {
			c.undecided(key, el, "entry is not three constant words")
			continue
		}
		want := scaled(bigLn(int64(11+i), 10), int(-expln))
		okv, diff := withinOne(v, want)
		c.check(okv, key, el, fmt.Sprintf("= ln(%d.%d)·10^57 within one unit", (11+i)/10, (11+i)%10),
			fmt.Sprintf("ln[%d] differs from ln(%d.%d)·10^57 by %s units (must be <= 1)", i, (11+i)/10, (11+i)%10, diff))
	}
	// indexing agrees with the table: ln[msd-11] under msd > 10, msd from msd2 (10..99)
	if fd := c.fn("decomposed192.log"); fd != nil {
		n := 0
		ast.Inspect(fd.Body, func(nd ast.Node) bool {
			ix, ok := nd.(*ast.IndexExpr)
			if !ok || p.exprStr(ix.X) != "ln" {
				return true
			}
			n++
			be, ok := ast.Unparen(ix.Index).(*ast.BinaryExpr)
			k := int64(0)
			okk := false
			if ok && be.Op == token.SUB {
				k, okk = p.constInt64(be.Y)
			}
			c.check(okk && k == 11 && p.exprStr(be.X) == "msd", "ln.index", ix, "ln[msd-11]: entry i is ln((11+i)/10)",
				"the ln table must be indexed with msd-11 (entry i holds ln((11+i)/10))")
			return true
		})
		if n == 0 {
			c.undecided("ln.index", fd, "no use of the ln table found in log()")
		}
	}
}

// Payload registry agreement.
func ruleTabPayload(c *Ctx) {
	p := c.P
	// 1. nan() packing
	if fd := c.fn("nan"); fd != nil {
		env := p.newCanonEnv(fd)
		got := env.canonStmts(fd.Body.List)
		want := "return lit(Decimal{conv(uint64;((P1<<K(8))|(P2<<K(16))|P0)),K(8935141660703064064)})"
		c.check(got == want, "nan.pack", fd, "payload = op | lhs<<8 | rhs<<16 in the low word of a quiet NaN",
			"nan() no longer packs op | lhs<<8 | rhs<<16 into a bare NaN: "+got)
	}
	// 2. unpacking in Payload.String / argString
	opNames := map[int64]string{}
	valNames := map[int64]string{}
	scope := p.Pkg.Types.Scope()
	for _, n := range scope.Names() {
		if strings.HasPrefix(n, "payloadOp") {
			if v, ok := p.pkgConstInt(n); ok {
				opNames[v] = strings.TrimPrefix(n, "payloadOp")
			}
		}
		if strings.HasPrefix(n, "payloadVal") {
			if v, ok := p.pkgConstInt(n); ok {
				valNames[v] = strings.TrimPrefix(n, "payloadVal")
			}
		}
	}
	c.check(len(opNames) == 19, "payload.ops", nil, "19 distinct operation codes", fmt.Sprintf("%d distinct payloadOp codes, want 19 (codes must be unique)", len(opNames)))
	c.check(len(valNames) == 6, "payload.vals", nil, "6 distinct operand-class codes", fmt.Sprintf("%d distinct payloadVal codes, want 6", len(valNames)))
	for v := range opNames {
		if v <= 0 || v > 0xff {
			c.bad("payload.oprange", nil, fmt.Sprintf("payloadOp code %d does not fit the 8-bit field", v))
		}
	}
	for v := range valNames {
		if v <= 0 || v > 0xff {
			c.bad("payload.valrange", nil, fmt.Sprintf("payloadVal code %d does not fit the 8-bit field", v))
		}
	}
	// arity per op from the nan(...) call sites; call sites live in the function named after the op
	arity := map[string]int{}
	aritySeen := map[string]bool{}
	for _, name := range p.sortedFuncNames() {
		fd := p.Funcs[name]
		if fd.Body == nil {
			continue
		}
		base := name
		if i := strings.Index(base, "."); i >= 0 {
			base = base[i+1:]
		}
		base = strings.TrimSuffix(base, "WithMode")
		ast.Inspect(fd.Body, func(n ast.Node) bool {
			call, ok := n.(*ast.CallExpr)
			if !ok || !p.isPkgFunc(call, "nan") || len(call.Args) != 3 {
				return true
			}
			opv, ok := p.constInt64(call.Args[0])
			if !ok {
				// parse(d, op): the op is a parameter; the callers are checked by E1
				if name == "parse" {
					c.ok("nan.site:"+name, call, "operation code passed through from the caller (Parse/MustParse/UnmarshalText, checked by E1.wrap)")
				} else {
					c.undecided("nan.site:"+name, call, "non-constant operation code")
				}
				return true
			}
			if opv == 0 {
				c.check(name == "Decimal.Canonical", "nan.site:"+name+":bare", call, "Canonical strips the payload", "only Canonical may build a NaN without a cause")
				return true
			}
			on := opNames[opv]
			c.check(on == base, fmt.Sprintf("nan.site:%s:%s", name, on), call, "NaN built in "+name+" names operation "+on,
				fmt.Sprintf("NaN built in %s carries operation code %q; the payload must name the operation that produced it (%s)", name, on, base))
			a := 0
			for _, arg := range call.Args[1:] {
				if v, ok := p.constInt64(arg); ok && v == 0 {
					continue
				}
				a++
			}
			if aritySeen[on] && arity[on] != a {
				c.bad("nan.arity:"+on, call, fmt.Sprintf("operation %s is built with %d and with %d operand classes", on, arity[on], a))
			}
			arity[on] = a
			aritySeen[on] = true
			return true
		})
	}
	// Payload.String: constant propagation of every packed (op, lhs, rhs) code through String/argString
	if fd := c.fn("Payload.String"); fd != nil {
		clsName := map[int64]string{}
		for v, n := range valNames {
			clsName[v] = map[string]string{"PosZero": "Zero", "NegZero": "-Zero", "PosFinite": "Finite", "NegFinite": "-Finite", "PosInfinite": "Infinite", "NegInfinite": "-Infinite"}[n]
		}
		var opCodes []int64
		for v := range opNames {
			opCodes = append(opCodes, v)
		}
		sort.Slice(opCodes, func(i, j int) bool { return opCodes[i] < opCodes[j] })
		for _, opv := range opCodes {
			on := opNames[opv]
			ar := arity[on]
			bad := ""
			n := 0
			for l := int64(0); l <= 6; l++ {
				for r := int64(0); r <= 6; r++ {
					if (ar < 1 && l != 0) || (ar < 2 && r != 0) || (ar >= 1 && l == 0) || (ar >= 2 && r == 0) {
						continue
					}
					code := opv | l<<8 | r<<16
					in := newInterp(p)
					in.inlineAll = true
					outs := in.runFunc(fd, avInt{code}, nil)
					want := on + "("
					if ar >= 1 {
						want += clsName[l]
					}
					if ar >= 2 {
						want += ", " + clsName[r]
					}
					want += ")"
					n++
					if len(outs) != 1 || outs[0].avKey() != "str:"+want {
						var ks []string
						for _, o := range outs {
							ks = append(ks, o.avKey())
						}
						bad = fmt.Sprintf("payload %#x (%s with operand classes %d,%d) prints %v, want %q", code, on, l, r, ks, want)
					}
				}
			}
			c.check(bad == "" && n > 0, "payload.string:"+on, fd, fmt.Sprintf("all %d packed codes of %s print Name(args)", n, on), "Payload.String: "+bad)
		}
	}
	if fd := c.fn("Payload.argString"); fd != nil {
		var sw *ast.SwitchStmt
		ast.Inspect(fd.Body, func(n ast.Node) bool {
			if s, ok := n.(*ast.SwitchStmt); ok && sw == nil {
				sw = s
			}
			return true
		})
		if sw == nil {
			c.undecided("payload.arg", fd, "switch not found")
		} else {
			env := p.newCanonEnv(fd)
			c.check(env.canon(sw.Tag) == "((R>>P0)&K(255))", "payload.arg.tag", sw, "switch on p>>offset & 0xff", "argString must extract 8 bits at the given offset: "+env.canon(sw.Tag))
			want := map[string]string{"PosZero": "Zero", "NegZero": "-Zero", "PosFinite": "Finite", "NegFinite": "-Finite", "PosInfinite": "Infinite", "NegInfinite": "-Infinite"}
			seen := 0
			for _, cc := range sw.Body.List {
				cl := cc.(*ast.CaseClause)
				if cl.List == nil || len(cl.List) != 1 || len(cl.Body) != 1 {
					continue
				}
				v, ok := p.constInt64(cl.List[0])
				ret, ok2 := cl.Body[0].(*ast.ReturnStmt)
				if !ok || !ok2 || len(ret.Results) != 1 {
					continue
				}
				s := p.constOf(ret.Results[0])
				vn := valNames[v]
				seen++
				c.check(s != nil && s.Kind() == constant.String && constant.StringVal(s) == want[vn], "payload.arg:"+vn, cl, "prints "+want[vn],
					fmt.Sprintf("argString prints %v for operand class %s, want %q", s, vn, want[vn]))
			}
			c.check(seen == 6, "payload.arg.count", sw, "6 operand classes named", fmt.Sprintf("%d operand classes named, want 6", seen))
		}
	}
}
