package main

import (
	"crypto/sha1"
	"encoding/json"
	"fmt"
	"go/ast"
	"os"
	"path/filepath"
	"sort"
	"strings"
)

const (
	vOK        = "ok"
	vViolation = "violation"
	vUndecided = "undecided"
)

// Obligation is one decided fact about one construct of the repository.
type Obligation struct {
	Rule    string   `json:"rule"`
	Key     string   `json:"key"`
	Pos     string   `json:"pos"`
	Verdict string   `json:"verdict"`
	Detail  string   `json:"detail,omitempty"`
	Props   []string `json:"props"`
	// Trivial obligations (nothing to decide, e.g. a frozen exemption) are
	// not counted in distinct_nontrivial.
	Trivial bool `json:"trivial,omitempty"`
}

// Rule describes one rule engine entry.
type Rule struct {
	ID    string
	Doc   string
	Props []string // properties served by default (obligations may override)
	Floor int      // minimum number of obligations confirmed by hand on today's tree
	Run   func(c *Ctx)
	// SSA/thorough-only rules are skipped in quick tier.
	ThoroughOnly bool
}

// Ctx collects obligations while rules run.
type Ctx struct {
	selfTest   *Prog // set while a rule runs on its synthetic positive example
	P          *Prog
	rule       *Rule
	Obls       []Obligation
	Exemptions []string
	Notes      []string
	Tier       string
}

func (c *Ctx) add(verdict, key string, n ast.Node, detail string, props ...string) {
	pos := ""
	if n != nil {
		pos = c.P.posStr(n)
	}
	if len(props) == 0 {
		props = c.rule.Props
	}
	c.Obls = append(c.Obls, Obligation{Rule: c.rule.ID, Key: c.rule.ID + "|" + key, Pos: pos, Verdict: verdict, Detail: detail, Props: props})
}

func (c *Ctx) ok(key string, n ast.Node, detail string, props ...string) {
	c.add(vOK, key, n, detail, props...)
}
func (c *Ctx) bad(key string, n ast.Node, detail string, props ...string) {
	c.add(vViolation, key, n, detail, props...)
}
func (c *Ctx) undecided(key string, n ast.Node, detail string, props ...string) {
	c.add(vUndecided, key, n, detail, props...)
}

// check records ok when cond holds and a violation otherwise.
func (c *Ctx) check(cond bool, key string, n ast.Node, okDetail, badDetail string, props ...string) bool {
	if cond {
		c.ok(key, n, okDetail, props...)
	} else {
		c.bad(key, n, badDetail, props...)
	}
	return cond
}

// exempt records a frozen, reviewed exemption (one construct, one reason).
func (c *Ctx) exempt(key string, n ast.Node, reason string, props ...string) {
	pos := ""
	if n != nil {
		pos = c.P.posStr(n)
	}
	if len(props) == 0 {
		props = c.rule.Props
	}
	c.Exemptions = append(c.Exemptions, c.rule.ID+"|"+key+": "+reason)
	c.Obls = append(c.Obls, Obligation{Rule: c.rule.ID, Key: c.rule.ID + "|" + key, Pos: pos, Verdict: vOK, Detail: "exempt: " + reason, Props: props, Trivial: true})
}

// fn fetches a function declaration; a missing anchor is an undecided
// obligation (never a silent pass).
func (c *Ctx) fn(name string) *ast.FuncDecl {
	fd := c.P.lookupFn(name)
	if fd == nil || fd.Body == nil {
		c.undecided("anchor:"+name, nil, "function "+name+" not found: the rule lost its subject")
		return nil
	}
	return fd
}

func hasProp(props []string, p string) bool {
	for _, x := range props {
		if x == p {
			return true
		}
	}
	return false
}

// ---------------------------------------------------------------------------
// known findings

type knownFinding struct {
	Prop string
	Key  string
	Text string
}

func loadKnownFindings(path string) ([]knownFinding, error) {
	b, err := os.ReadFile(path)
	if err != nil {
		if os.IsNotExist(err) {
			return nil, nil
		}
		return nil, err
	}
	var out []knownFinding
	for _, line := range strings.Split(string(b), "\n") {
		line = strings.TrimSpace(line)
		if !strings.HasPrefix(line, "finding:") {
			continue // comments and "fixed:" entries suppress nothing
		}
		rest := strings.TrimSpace(strings.TrimPrefix(line, "finding:"))
		kf := knownFinding{}
		fields := strings.Fields(rest)
		var tail []string
		for _, f := range fields {
			switch {
			case strings.HasPrefix(f, "property=") && kf.Prop == "":
				kf.Prop = strings.TrimPrefix(f, "property=")
			case strings.HasPrefix(f, "key=") && kf.Key == "":
				kf.Key = strings.TrimPrefix(f, "key=")
			default:
				tail = append(tail, f)
			}
		}
		kf.Text = strings.Join(tail, " ")
		if kf.Prop != "" && kf.Key != "" {
			out = append(out, kf)
		}
	}
	return out, nil
}

// ---------------------------------------------------------------------------
// evidence

type evidence struct {
	PropertyID  string                 `json:"property_id"`
	Tier        string                 `json:"tier"`
	Seed        int64                  `json:"seed"`
	Level       string                 `json:"level"`
	Coverage    map[string]interface{} `json:"coverage"`
	Assumptions []string               `json:"assumptions"`
	WallS       float64                `json:"wall_s"`
	Violations  int                    `json:"violations"`
}

func replayPath(verifDir, prop, key string) string {
	h := sha1.Sum([]byte(key))
	return filepath.Join(verifDir, "evidence", "replay", fmt.Sprintf("%s-%x.json", prop, h[:6]))
}

func writeJSON(path string, v interface{}) error {
	if err := os.MkdirAll(filepath.Dir(path), 0o755); err != nil {
		return err
	}
	b, err := json.MarshalIndent(v, "", " ")
	if err != nil {
		return err
	}
	return os.WriteFile(path, append(b, '\n'), 0o644)
}

func sortObls(o []Obligation) {
	sort.SliceStable(o, func(i, j int) bool {
		if o[i].Rule != o[j].Rule {
			return o[i].Rule < o[j].Rule
		}
		return o[i].Key < o[j].Key
	})
}
