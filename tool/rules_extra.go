package main

import (
	"fmt"
	"go/ast"
	"go/constant"
	"go/parser"
	"go/token"
	"go/types"
	"math/big"
	"os"
	"strings"

	"golang.org/x/tools/go/packages"
)

// Additional structural rules found necessary by independently seeded variants.

// parseNumber: result-selection structure after the scanning loops.
func ruleParseTail(c *Ctx) {
	p := c.P
	fd := c.fn("parseNumber")
	if fd == nil {
		return
	}
	props := []string{"C05", "C13", "C06"}
	ps := paramObjs(p, fd)
	if len(ps) != 3 {
		c.undecided("parse.tail", fd, "parseNumber(d, neg, sepallowed) expected", props...)
		return
	}
	negObj := ps[1]
	// 1. the zero-coefficient exit precedes every exit that returns an infinity or a range error
	zeroPos, firstInf := token.NoPos, token.NoPos
	for _, s := range fd.Body.List {
		ifs, ok := s.(*ast.IfStmt)
		if !ok {
			continue
		}
		if _, isZero, ok := p.wholeZeroTest(ifs.Cond); ok && isZero && len(ifs.Body.List) == 1 && zeroPos == token.NoPos {
			// sig == 0 -> return zero(neg), nil
			if r, ok := ifs.Body.List[0].(*ast.ReturnStmt); ok && len(r.Results) == 2 {
				if call, ok := r.Results[0].(*ast.CallExpr); ok && p.isPkgFunc(call, "zero") && p.exprStr(r.Results[1]) == "nil" {
					zeroPos = ifs.Pos()
				}
			}
		}
	}
	ast.Inspect(fd.Body, func(n ast.Node) bool {
		r, ok := n.(*ast.ReturnStmt)
		if !ok || len(r.Results) != 2 {
			return true
		}
		if call, ok := r.Results[0].(*ast.CallExpr); ok && p.isPkgFunc(call, "inf") {
			if firstInf == token.NoPos || r.Pos() < firstInf {
				firstInf = r.Pos()
			}
		}
		return true
	})
	c.check(zeroPos != token.NoPos && firstInf != token.NoPos && zeroPos < firstInf, "parse.zerofirst", fd,
		"a zero coefficient returns a signed zero before any range decision", "parseNumber: the zero-coefficient exit (`sig == 0 -> zero(neg)`) must come before every exit that returns ±Inf: a zero literal with a huge exponent is zero, not a range error", props...)
	// 2. every value constructor in parseNumber takes the caller's sign
	n := 0
	ast.Inspect(fd.Body, func(nd ast.Node) bool {
		call, ok := nd.(*ast.CallExpr)
		if !ok {
			return true
		}
		var sign ast.Expr
		switch {
		case p.isPkgFunc(call, "inf"), p.isPkgFunc(call, "zero"):
			sign = call.Args[0]
		case p.isPkgFunc(call, "compose"), strings.HasPrefix(p.calleeName(call), "RoundingMode.reduce"):
			sign = call.Args[0]
		default:
			return true
		}
		n++
		c.check(p.objOf(sign) == negObj, fmt.Sprintf("parse.sign#%d", n), call, "result carries the literal's sign",
			fmt.Sprintf("parseNumber: `%s` takes its sign from `%s`; every result (zero, infinity, rounded value) must carry the sign of the literal (`neg`)", p.exprStr(call), p.exprStr(sign)), props...)
		return true
	})
	if n < 8 {
		c.undecided("parse.sign.count", fd, fmt.Sprintf("only %d result constructors found", n), props...)
	}
	// 2b. every caller hands parseNumber the sign it scanned: a local set to true only under a test for '-',
	// and never re-applies a sign afterwards (directed rounding inside parseNumber depends on the sign)
	nCall := 0
	for _, cname := range p.sortedFuncNames() {
		cfd := p.Funcs[cname]
		if cfd.Body == nil || cfd == fd {
			continue
		}
		walkStack(cfd.Body, func(nd ast.Node, stack []ast.Node) {
			call, ok := nd.(*ast.CallExpr)
			if !ok || p.Funcs[p.calleeName(call)] != fd || len(call.Args) != 3 {
				return
			}
			nCall++
			key := fmt.Sprintf("parse.callsign:%s#%d", cname, nCall)
			v := p.objOf(call.Args[1])
			if v == nil || p.constOf(call.Args[1]) != nil {
				c.bad(key, call, fmt.Sprintf("%s calls parseNumber with the sign `%s`; it must pass the sign it scanned from the input (rounding of long literals in the directed modes depends on it)", cname, p.exprStr(call.Args[1])), props...)
				return
			}
			okAssign, sawTrue := true, false
			walkStack(cfd.Body, func(m ast.Node, st2 []ast.Node) {
				as, ok := m.(*ast.AssignStmt)
				if !ok {
					return
				}
				for i, l := range as.Lhs {
					if p.objOf(l) != v || i >= len(as.Rhs) {
						continue
					}
					b, isConst := p.constBool(as.Rhs[i])
					if !isConst {
						okAssign = false
						continue
					}
					if b {
						// under a test against '-'
						minus := false
						for _, f := range p.factsAt(append(append([]ast.Node{}, st2...), m), nil) {
							x, op, k, ok := p.normCmp(f.cond)
							_ = x
							if ok && k.IsInt64() && k.Int64() == '-' && ((op == token.EQL && f.val) || (op == token.NEQ && !f.val)) {
								minus = true
							}
						}
						if !minus {
							okAssign = false
						}
						sawTrue = true
					}
				}
			})
			reneg := ""
			ast.Inspect(cfd.Body, func(m ast.Node) bool {
				if cl, ok := m.(*ast.CallExpr); ok {
					switch p.calleeName(cl) {
					case "Decimal.Neg", "Abs", "Decimal.CopySign":
						reneg = p.posStr(cl)
					}
				}
				return true
			})
			c.check(okAssign && sawTrue && reneg == "", key, call, "the caller passes the scanned sign and does not re-apply one",
				fmt.Sprintf("%s: the sign handed to parseNumber must be a flag set only under a test for '-', and the result must not be re-signed (%s)", cname, reneg), props...)
		})
	}
	if nCall < 3 {
		c.undecided("parse.callsign.count", fd, fmt.Sprintf("only %d callers of parseNumber found", nCall), props...)
	}
	// 3. dropped digits are sticky iff they are not '0'
	found := 0
	ast.Inspect(fd.Body, func(nd ast.Node) bool {
		ifs, ok := nd.(*ast.IfStmt)
		if !ok || len(ifs.Body.List) != 1 {
			return true
		}
		as, ok := ifs.Body.List[0].(*ast.AssignStmt)
		if !ok || len(as.Lhs) != 1 || len(as.Rhs) != 1 {
			return true
		}
		if t := p.typeOf(as.Lhs[0]); t == nil || !types.Identical(t, types.Typ[types.Int8]) {
			return true
		}
		if v, ok := p.constInt64(as.Rhs[0]); !ok || v != 1 {
			return true
		}
		found++
		x, op, k, ok := p.normCmp(ifs.Cond)
		okc := ok && op == token.NEQ && k.IsInt64() && k.Int64() == '0'
		if okc {
			if t := p.typeOf(x); t == nil || limbsOf(t) != 1 {
				okc = false
			}
		}
		c.check(okc, fmt.Sprintf("parse.sticky#%d", found), ifs, "a dropped digit sets the sticky flag iff it is not '0'",
			"parseNumber: digits beyond the accumulator's capacity must set the sticky flag exactly when the digit character is not '0'; found `"+p.exprStr(ifs.Cond)+"`", props...)
		return true
	})
	if found != 1 {
		c.undecided("parse.sticky", fd, fmt.Sprintf("%d sticky assignments found in parseNumber, want 1", found), props...)
	}
}

// G8b: the infinity returned by an overflow guard carries the sign the value is composed with.
func ruleGuardInfSign(c *Ctx) {
	p := c.P
	n := 0
	for _, name := range p.sortedFuncNames() {
		fd := p.Funcs[name]
		if fd.Body == nil || name == "compose" {
			continue
		}
		env := p.newCanonEnv(fd)
		k := 0
		walkStack(fd.Body, func(nd ast.Node, stack []ast.Node) {
			ifs, ok := nd.(*ast.IfStmt)
			if !ok || ifs.Init != nil {
				return
			}
			x, op, kv, ok := p.normCmp(ifs.Cond)
			if !ok || op != token.GTR || !kv.IsInt64() || kv.Int64() != specMaxBiasedExp || p.exprKey(x) == "" {
				return
			}
			xkey := p.exprKey(x)
			// the compose call that follows in the same block chain with this exponent
			var comp *ast.CallExpr
			chain := blockChain(append(append([]ast.Node{}, stack...), nd))
			for ci := len(chain) - 1; ci >= 0 && comp == nil; ci-- {
				bp := chain[ci]
				for _, s := range bp.list[bp.idx+1:] {
					ast.Inspect(s, func(m ast.Node) bool {
						if call, ok := m.(*ast.CallExpr); ok && comp == nil && p.isPkgFunc(call, "compose") && p.exprKey(call.Args[2]) == xkey {
							comp = call
						}
						return comp == nil
					})
					if comp != nil {
						break
					}
				}
			}
			if comp == nil {
				return
			}
			want := env.canon(comp.Args[0])
			outer := append(append([]ast.Node{}, stack...), nd)
			walkStack(ifs.Body, func(m ast.Node, inner []ast.Node) {
				call, ok := m.(*ast.CallExpr)
				if !ok || !p.isPkgFunc(call, "inf") {
					return
				}
				k++
				n++
				got := env.canon(call.Args[0])
				okSign := got == want
				how := "overflow returns the infinity of the result's sign"
				if !okSign {
					// inf(false) / inf(true) below a test of the operand's own sign
					// (Expm1: negative operands saturate at -1, so only +Inf remains)
					if b, isConst := p.constBool(call.Args[0]); isConst {
						full := append(append(append([]ast.Node{}, outer...), inner...), m)
						for _, f := range p.factsAt(full, nil) {
							if p.isOperandSignTest(fd, f.cond) && f.val == b {
								okSign = true
								how = "overflow sign fixed by a dominating test of the operand's sign"
							}
						}
					}
				}
				c.check(okSign, fmt.Sprintf("infsign:%s#%d", name, k), call, how,
					fmt.Sprintf("%s: on overflow the result is `%s` but the finite result is composed with sign `%s`: an overflowing result would get the wrong sign", name, p.exprStr(call), p.exprStr(comp.Args[0])), funcProps(name)...)
			})
		})
	}
	if n < 20 {
		c.undecided("infsign.count", nil, fmt.Sprintf("only %d overflow guards with an infinity found", n))
	}
}

// G6: arithmetic on a caller-supplied int (dp of Round/Ceil/Floor) cannot overflow: every + - * that
// involves dp is evaluated on the intervals the analysis knows at that statement, and the mathematical
// result must stay inside the range of int.
func ruleRawIntParams(c *Ctx) {
	p := c.P
	for _, name := range []string{"Decimal.Round", "Decimal.Ceil", "Decimal.Floor"} {
		fd := c.fn(name)
		if fd == nil {
			continue
		}
		ps := paramObjs(p, fd)
		if len(ps) == 0 {
			continue
		}
		dp := ps[0]
		bad := ""
		var badNode ast.Node
		n := 0
		walkStack(fd.Body, func(nd ast.Node, stack []ast.Node) {
			var op token.Token
			var xs []ast.Expr
			switch x := nd.(type) {
			case *ast.BinaryExpr:
				switch x.Op {
				case token.ADD, token.SUB, token.MUL:
					op, xs = x.Op, []ast.Expr{x.X, x.Y}
				}
			case *ast.UnaryExpr:
				if x.Op == token.SUB {
					op, xs = token.SUB, []ast.Expr{nil, x.X}
				}
			}
			if xs == nil {
				return
			}
			// only arithmetic on dp itself (directly or through its own sub-expressions)
			uses := false
			for _, e := range xs {
				if e == nil {
					continue
				}
				ast.Inspect(e, func(m ast.Node) bool {
					if id, ok := m.(*ast.Ident); ok && p.Info.Uses[id] == dp {
						uses = true
					}
					return !uses
				})
			}
			t := p.typeOf(nd.(ast.Expr))
			if !uses || t == nil || !isIntType(t) || p.constOf(nd.(ast.Expr)) != nil {
				return
			}
			n++
			var site ast.Node
			full := append(append([]ast.Node{}, stack...), nd)
			for i := len(full) - 1; i >= 0; i-- {
				if _, ok := full[i].(ast.Stmt); ok {
					site = full[i]
					break
				}
			}
			env, reached := p.envWalk(fd.Body.List, ienv{}, site)
			if !reached || site == nil {
				bad, badNode = "the statement could not be located", nd
				return
			}
			if ifs, ok := site.(*ast.IfStmt); ok && containsNode(ifs.Cond, nd) {
				env = p.condEnv(ifs.Cond, env, nd)
			}
			l := ival{lo: big.NewInt(0), hi: big.NewInt(0)}
			if xs[0] != nil {
				l = p.evalI(xs[0], env)
			}
			r := p.evalI(xs[1], env)
			res := p.combine(op, l, r)
			tr := typeRangeOf(t)
			if res.lo == nil || res.hi == nil || res.lo.Cmp(tr.lo) < 0 || res.hi.Cmp(tr.hi) > 0 {
				bad = fmt.Sprintf("`%s` can overflow: its operands lie in [%v, %v] and [%v, %v] here", p.exprStr(nd.(ast.Expr)), l.lo, l.hi, r.lo, r.hi)
				badNode = nd
			}
		})
		if n == 0 {
			c.undecided("rawint:"+name, fd, "no arithmetic on dp found", "C08")
			continue
		}
		var at ast.Node = fd
		if badNode != nil {
			at = badNode
		}
		c.check(bad == "", "rawint:"+name, at, fmt.Sprintf("no arithmetic on the caller-supplied dp can overflow (%d expressions, interval analysis)", n),
			name+": "+bad+"; for dp near math.MinInt or math.MaxInt the result wraps and the quantum is misjudged", "C08")
	}
}

// isOne: the early `return false` exits depend on the exponent only.
func ruleIsOne(c *Ctx) {
	p := c.P
	fd := p.Funcs["Decimal.isOne"]
	if fd == nil {
		fd = p.Funcs["isOne"]
	}
	if fd == nil || fd.Body == nil {
		c.undecided("isone.anchor", nil, "isOne not found", "C18", "C15", "C19")
		return
	}
	// coefficient / exponent variables of decompose
	var sigKey, expKey string
	ast.Inspect(fd.Body, func(n ast.Node) bool {
		if as, ok := n.(*ast.AssignStmt); ok && len(as.Lhs) == 2 && len(as.Rhs) == 1 {
			if call, ok := as.Rhs[0].(*ast.CallExpr); ok && p.isPkgFunc(call, "Decimal.decompose") {
				sigKey, expKey = p.exprKey(as.Lhs[0]), p.exprKey(as.Lhs[1])
			}
		}
		return true
	})
	if sigKey == "" {
		c.undecided("isone.shape", fd, "decompose call not found in isOne", "C18", "C15", "C19")
		return
	}
	bad := ""
	nGuard := 0
	for _, s := range fd.Body.List {
		ifs, ok := s.(*ast.IfStmt)
		if !ok || len(ifs.Body.List) != 1 {
			continue
		}
		r, ok := ifs.Body.List[0].(*ast.ReturnStmt)
		if !ok || len(r.Results) != 1 || p.exprStr(r.Results[0]) != "false" {
			continue
		}
		nGuard++
		if p.usesVar(ifs.Cond, sigKey) {
			bad = p.exprStr(ifs.Cond)
		}
	}
	c.check(bad == "" && nGuard >= 2, "isone.guards", fd, "the early false exits of isOne depend on class and exponent only",
		"isOne: the early exit `"+bad+"` looks at the coefficient; for every exponent in -38..0 some coefficient (10^-exp) denotes one, so only the exponent may rule a value out before the table comparison", "C18", "C15", "C04")
	// the final comparison is with the power-of-ten table at index -(exp-bias)
	okCmp := false
	ast.Inspect(fd.Body, func(n ast.Node) bool {
		r, ok := n.(*ast.ReturnStmt)
		if !ok || len(r.Results) != 1 {
			return true
		}
		be, ok := ast.Unparen(r.Results[0]).(*ast.BinaryExpr)
		if !ok || be.Op != token.EQL {
			return true
		}
		a, b := ast.Unparen(be.X), ast.Unparen(be.Y)
		if p.exprKey(b) == sigKey {
			a, b = b, a
		}
		ix, ok := b.(*ast.IndexExpr)
		if p.exprKey(a) == sigKey && ok && p.exprStr(ix.X) == "uint128PowersOf10" {
			// the index as a linear form over the decoded exponent: exactly bias - exp
			if terms, cst, ok := p.linForm(fd, ix.Index, r, 0); ok && len(terms) == 1 && cst.IsInt64() && cst.Int64() == specBias {
				if coef, has := terms[expKey]; has && coef.IsInt64() && coef.Int64() == -1 {
					okCmp = true
				}
			}
			// the exponent guards in front must let every encoding of one through: 10^k is a coefficient for
			// k = 0..34 (10^34 < 5·2^111), so the index reaching the table must be able to be 34. The interval
			// analysis over-approximates the reachable indices: an upper bound below 34 proves an encoding is shut out.
			iv := p.intervalAt(fd, ix.Index, append(stackOf(fd, r), r))
			c.check(iv.hi == nil || iv.hi.Cmp(big.NewInt(34)) >= 0, "isone.range", r, "every encoding of one (10^0 .. 10^34 with the matching exponent) reaches the table comparison",
				fmt.Sprintf("isOne: the exponent guards let only indices up to %v reach the comparison with the power-of-ten table, but 10^k with exponent -k encodes one for every k up to %d", iv.hi, 34), "C18", "C15", "C04")
		}
		return true
	})
	c.check(okCmp, "isone.compare", fd, "sig == 10^(bias-exp)", "isOne must compare the whole coefficient with uint128PowersOf10[bias - exp]", "C18", "C15", "C04")
	_ = expKey
}

// Pow: the exponent's trailing zeros are stripped before anything tests it, and
// every parity block is guarded by "no fractional digits and no trailing zeros".
func rulePowStructure(c *Ctx) {
	p := c.P
	fd := c.fn("Decimal.PowWithMode")
	if fd == nil {
		return
	}
	// normalisation loops: for { t, rem := V.div10(); if rem != 0 {break}; V = t; E++ }
	type norm struct {
		loop       *ast.ForStmt
		vKey, eKey string
		eName      string
	}
	var norms []norm
	for _, s := range fd.Body.List {
		f, ok := s.(*ast.ForStmt)
		if !ok || f.Cond != nil {
			continue
		}
		var vKey, eKey, eName string
		for _, t := range f.Body.List {
			switch x := t.(type) {
			case *ast.AssignStmt:
				if len(x.Lhs) == 2 && len(x.Rhs) == 1 {
					if call, ok := x.Rhs[0].(*ast.CallExpr); ok && strings.HasSuffix(p.calleeName(call), ".div10") {
						if sel, ok := call.Fun.(*ast.SelectorExpr); ok {
							vKey = p.exprKey(sel.X)
						}
					}
				}
			}
			if a, ok := p.asAdjustment(t); ok && a.delta == 1 {
				eKey, eName = a.key, a.name
			}
		}
		if vKey != "" && eKey != "" {
			norms = append(norms, norm{f, vKey, eKey, eName})
		}
	}
	if len(norms) != 2 {
		c.undecided("pow.strip", fd, fmt.Sprintf("%d trailing-zero normalisation loops found in PowWithMode, want 2 (exponent and base)", len(norms)), "C18", "C15", "C19")
	}
	for i, nm := range norms {
		// every condition that reads E (or computes with it) must come after the loop
		early := ""
		for _, s := range fd.Body.List {
			if s.Pos() >= nm.loop.Pos() {
				break
			}
			ast.Inspect(s, func(n ast.Node) bool {
				switch x := n.(type) {
				case *ast.IfStmt:
					if p.readsVar(x.Cond, nm.eKey) {
						early = p.posStr(x)
					}
				case *ast.BinaryExpr:
					if p.readsVar(x, nm.eKey) && p.constOf(x) == nil {
						if _, isAssign := n.(*ast.AssignStmt); !isAssign {
							// reads inside plain `E -= bias` adjustments are fine: those are op-assigns, not BinaryExpr
							early = p.posStr(x)
						}
					}
				}
				return true
			})
		}
		c.check(early == "", fmt.Sprintf("pow.strip#%d", i+1), nm.loop, nm.eName+" is normalised (trailing zeros stripped) before it is tested",
			"PowWithMode: "+nm.eName+" is tested at "+early+" before its trailing zeros are stripped: integers written with trailing zeros (2.0, 30) would be classified as non-integers or get the wrong parity", "C18", "C15", "C19")
	}
	// parity blocks
	nPar := 0
	remOf := map[string]string{} // remainder variable -> the coefficient it is the last digit of
	ast.Inspect(fd.Body, func(n ast.Node) bool {
		if as, ok := n.(*ast.AssignStmt); ok && len(as.Lhs) == 2 && len(as.Rhs) == 1 {
			if call, ok := as.Rhs[0].(*ast.CallExpr); ok && strings.HasSuffix(p.calleeName(call), ".div10") {
				if sel, ok := call.Fun.(*ast.SelectorExpr); ok {
					if k := p.exprKey(as.Lhs[1]); k != "" {
						remOf[k] = p.exprKey(sel.X)
					}
				}
			}
		}
		return true
	})
	walkStack(fd.Body, func(nd ast.Node, stack []ast.Node) {
		if len(norms) == 0 {
			return
		}
		switch x := nd.(type) {
		case *ast.BinaryExpr:
			// digit&1 (or digit%2) where digit is (derived from) y's coefficient
			if !isParityExpr(p, x) || !(p.usesVar(x.X, norms[0].vKey) || remOf[p.exprKey(x.X)] == norms[0].vKey) {
				return
			}
		case *ast.CallExpr:
			// a helper that is handed y's coefficient and reads a parity from it
			cfd := p.Funcs[p.calleeName(x)]
			if cfd == nil || cfd.Body == nil {
				return
			}
			takes := false
			for _, a := range x.Args {
				if p.exprKey(a) == norms[0].vKey {
					takes = true
				}
			}
			if sel, ok := x.Fun.(*ast.SelectorExpr); ok && p.exprKey(sel.X) == norms[0].vKey {
				takes = true
			}
			par := false
			ast.Inspect(cfd.Body, func(m ast.Node) bool {
				if b, ok := m.(*ast.BinaryExpr); ok && isParityExpr(p, b) {
					par = true
				}
				return true
			})
			if !takes || !par {
				return
			}
		default:
			return
		}
		be := nd
		nPar++
		full := append(append([]ast.Node{}, stack...), nd)
		facts := p.factsAt(full, nil)
		okGuard := false
		for _, f := range facts {
			x, op, k, ok := p.normCmp(f.cond)
			if !ok || !k.IsInt64() || k.Int64() != specBias {
				continue
			}
			if !f.val {
				op = negOp(op)
			}
			if op == token.EQL && len(norms) > 0 && p.exprKey(x) == norms[0].eKey {
				okGuard = true
			}
		}
		if call, isCall := nd.(*ast.CallExpr); isCall && !okGuard {
			// the guard may live in the helper, on the parameter that receives the stripped exponent
			cfd := p.Funcs[p.calleeName(call)]
			cps := paramObjs(p, cfd)
			for ai, a := range call.Args {
				if p.exprKey(a) != norms[0].eKey || ai >= len(cps) {
					continue
				}
				pkey := p.exprKey(&ast.Ident{Name: cps[ai].Name()})
				if pkey == "" {
					pkey = cps[ai].Name()
				}
				all, any := true, false
				walkStack(cfd.Body, func(m ast.Node, st []ast.Node) {
					b, ok := m.(*ast.BinaryExpr)
					if !ok || !isParityExpr(p, b) {
						return
					}
					any = true
					found := false
					for _, f := range p.factsAt(append(append([]ast.Node{}, st...), m), nil) {
						x, op, k, ok := p.normCmp(f.cond)
						if !ok || !k.IsInt64() || k.Int64() != specBias {
							continue
						}
						if !f.val {
							op = negOp(op)
						}
						if o := p.objOf(x); op == token.EQL && o == cps[ai] {
							found = true
						}
					}
					if !found {
						all = false
					}
				})
				if any && all {
					okGuard = true
				}
				_ = pkey
			}
		}
		c.check(okGuard, fmt.Sprintf("pow.parity#%d", nPar), be, "parity is read only when the stripped exponent is exactly the bias (an integer not divisible by ten)",
			"PowWithMode: the parity of y is taken from its last digit, which is the units digit only when the stripped exponent equals the bias; with `>=` a multiple of ten with an odd leading part would count as odd", "C18", "C15", "C19")
	})
	if nPar == 0 {
		c.undecided("pow.parity", fd, "no test of the parity of y found in PowWithMode", "C18", "C15", "C19")
	}
}

func (p *Prog) constBool(e ast.Expr) (bool, bool) {
	v := p.constOf(e)
	if v == nil || v.Kind() != constant.Bool {
		return false, false
	}
	return constant.BoolVal(v), true
}

// isOperandSignTest: cond is `X.Signbit()` for a Decimal parameter or the
// receiver of fd, or a local bool initialised from one.
func (p *Prog) isOperandSignTest(fd *ast.FuncDecl, cond ast.Expr) bool {
	cond = ast.Unparen(cond)
	isOpnd := func(e ast.Expr) bool {
		call, ok := ast.Unparen(e).(*ast.CallExpr)
		if !ok || p.calleeName(call) != "Decimal.Signbit" {
			return false
		}
		sel, ok := call.Fun.(*ast.SelectorExpr)
		if !ok {
			return false
		}
		o := p.objOf(sel.X)
		if o == nil {
			return false
		}
		if fd.Recv != nil {
			for _, f := range fd.Recv.List {
				for _, nm := range f.Names {
					if p.Info.Defs[nm] == o {
						return true
					}
				}
			}
		}
		for _, po := range paramObjs(p, fd) {
			if po == o {
				return true
			}
		}
		return false
	}
	if isOpnd(cond) {
		return true
	}
	if o := p.objOf(cond); o != nil {
		// single definition `v := X.Signbit()`
		defs := 0
		okDef := false
		ast.Inspect(fd.Body, func(n ast.Node) bool {
			if as, ok := n.(*ast.AssignStmt); ok {
				for i, l := range as.Lhs {
					if p.objOf(l) == o {
						defs++
						if len(as.Lhs) == len(as.Rhs) && isOpnd(as.Rhs[i]) {
							okDef = true
						}
					}
				}
			}
			return true
		})
		return defs == 1 && okDef
	}
	return false
}

// wholeZeroTest recognises a test of a whole multi-limb coefficient against
// zero in its equivalent spellings: `X[0]|X[1] == 0`, `X[0] == 0 && X[1] == 0`,
// `X == (uint128{})`, and the negations (`!= 0`, `X[0] != 0 || X[1] != 0`).
func (p *Prog) wholeZeroTest(cond ast.Expr) (key string, isZero bool, ok bool) {
	cond = ast.Unparen(cond)
	if ue, ok := cond.(*ast.UnaryExpr); ok && ue.Op == token.NOT {
		k, z, ok := p.wholeZeroTest(ue.X)
		return k, !z, ok
	}
	limbs := map[int64]bool{}
	var typ types.Type
	addLimb := func(e ast.Expr) bool {
		ix, ok := ast.Unparen(e).(*ast.IndexExpr)
		if !ok {
			return false
		}
		i, isC := p.constInt64(ix.Index)
		k := p.exprKey(ix.X)
		if !isC || k == "" || (key != "" && k != key) {
			return false
		}
		key, typ = k, p.typeOf(ix.X)
		limbs[i] = true
		return true
	}
	var orChain func(e ast.Expr) bool
	orChain = func(e ast.Expr) bool {
		e = ast.Unparen(e)
		if be, ok := e.(*ast.BinaryExpr); ok && be.Op == token.OR {
			return orChain(be.X) && orChain(be.Y)
		}
		return addLimb(e)
	}
	be, isBin := cond.(*ast.BinaryExpr)
	if !isBin {
		return "", false, false
	}
	switch be.Op {
	case token.EQL, token.NEQ:
		// whole-value comparison with a zero composite literal
		for _, pair := range [][2]ast.Expr{{be.X, be.Y}, {be.Y, be.X}} {
			if cl, ok := ast.Unparen(pair[1]).(*ast.CompositeLit); ok {
				allZero := true
				for _, el := range cl.Elts {
					if v, ok := p.constInt64(el); !ok || v != 0 {
						allZero = false
					}
				}
				if k := p.exprKey(pair[0]); k != "" && allZero && limbsOf(p.typeOf(pair[0])) > 1 {
					return k, be.Op == token.EQL, true
				}
			}
		}
		x, op, k, ok := p.normCmp(cond)
		if !ok || k.Sign() != 0 || (op != token.EQL && op != token.NEQ) || !orChain(x) {
			return "", false, false
		}
		if n := limbsOf(typ); n < 1 || len(limbs) != n {
			return "", false, false
		}
		return key, op == token.EQL, true
	case token.LAND, token.LOR:
		// conjunction of per-limb ==0 (zero) / disjunction of per-limb !=0 (non-zero)
		want := token.EQL
		if be.Op == token.LOR {
			want = token.NEQ
		}
		var parts func(e ast.Expr) bool
		parts = func(e ast.Expr) bool {
			e = ast.Unparen(e)
			if b, ok := e.(*ast.BinaryExpr); ok && b.Op == be.Op {
				return parts(b.X) && parts(b.Y)
			}
			x, op, k, ok := p.normCmp(e)
			return ok && op == want && k.Sign() == 0 && orChain(x)
		}
		if !parts(cond) {
			return "", false, false
		}
		if n := limbsOf(typ); n < 1 || len(limbs) != n {
			return "", false, false
		}
		return key, be.Op == token.LAND, true
	}
	return "", false, false
}

func isParityExpr(p *Prog, b *ast.BinaryExpr) bool {
	if k, ok := p.constInt64(b.Y); ok {
		return (b.Op == token.AND && k == 1) || (b.Op == token.REM && k == 2)
	}
	return false
}

// Stale length: a local that holds len(x) must not be read after x itself
// has been reassigned (x = x[i:], x = f(...)): the length then describes a
// slice that no longer exists. Decided positionally within one statement
// list and the lists nested in it (a reassignment inside a loop body makes
// every later read in that loop stale too).
func ruleStaleLen(c *Ctx) {
	p := c.P
	n := 0
	seenKey := map[string]int{}
	for _, name := range p.sortedFuncNames() {
		fd := p.Funcs[name]
		if fd.Body == nil {
			continue
		}
		type alias struct {
			lenVar types.Object
			of     types.Object
			def    token.Pos
			scope  ast.Node // the block the alias lives in
		}
		var aliases []alias
		walkStack(fd.Body, func(nd ast.Node, stack []ast.Node) {
			as, ok := nd.(*ast.AssignStmt)
			if !ok || len(as.Lhs) != len(as.Rhs) {
				return
			}
			for i, r := range as.Rhs {
				call, ok := ast.Unparen(r).(*ast.CallExpr)
				if !ok || p.calleeName(call) != "builtin.len" || len(call.Args) != 1 {
					continue
				}
				lv, of := p.objOf(as.Lhs[i]), p.objOf(call.Args[0])
				if lv == nil || of == nil {
					continue
				}
				if _, isSlice := of.Type().Underlying().(*types.Slice); !isSlice {
					if _, isTP := of.Type().(*types.TypeParam); !isTP {
						if b, isB := of.Type().Underlying().(*types.Basic); !isB || b.Kind() != types.String {
							continue
						}
					}
				}
				aliases = append(aliases, alias{lenVar: lv, of: of, def: as.Pos()})
			}
		})
		for _, al := range aliases {
			// reassignments of the slice after the alias was taken, and re-definitions of the alias
			var reassign, redef []token.Pos
			walkStack(fd.Body, func(nd ast.Node, stack []ast.Node) {
				as, ok := nd.(*ast.AssignStmt)
				if !ok {
					return
				}
				for i, l := range as.Lhs {
					if p.objOf(l) == al.of && as.Pos() > al.def {
						// x = append(x, ...) only grows x: what was there stays where it was, and the old
						// length remains a valid offset (the "remember where my output starts" idiom)
						if i < len(as.Rhs) && len(as.Lhs) == len(as.Rhs) {
							if call, ok := ast.Unparen(as.Rhs[i]).(*ast.CallExpr); ok && p.calleeName(call) == "builtin.append" && len(call.Args) >= 1 && p.objOf(call.Args[0]) == al.of {
								continue
							}
							// if cap(x) == 0 { x = make(T, 0, n) }: an empty slice replaced by an empty slice
							if emptyForEmpty(p, as.Rhs[i], al.of, as, stack) {
								continue
							}
						}
						// the right-hand side of the reassigning statement still sees the old slice
						reassign = append(reassign, as.End())
					}
					if p.objOf(l) == al.lenVar && as.Pos() > al.def && i < len(as.Rhs) {
						redef = append(redef, as.Pos())
					}
				}
			})
			n++
			seenKey[name+":"+al.lenVar.Name()]++
			key := fmt.Sprintf("stalelen:%s:%s#%d", name, al.lenVar.Name(), seenKey[name+":"+al.lenVar.Name()])
			if len(reassign) == 0 {
				c.ok(key, nil, al.lenVar.Name()+" = len("+al.of.Name()+"): "+al.of.Name()+" is not reassigned afterwards", funcProps(name)...)
				continue
			}
			// a read of the alias after the first reassignment with no fresh definition in between
			stale := ""
			ast.Inspect(fd.Body, func(nd ast.Node) bool {
				id, ok := nd.(*ast.Ident)
				if !ok || p.Info.Uses[id] != al.lenVar || stale != "" {
					return true
				}
				first := token.NoPos
				for _, r := range reassign {
					if r < id.Pos() && (first == token.NoPos || r < first) {
						first = r
					}
				}
				if first == token.NoPos {
					return true
				}
				for _, rd := range redef {
					if rd > first && rd < id.Pos() {
						return true
					}
				}
				stale = p.posStr(id)
				return true
			})
			c.check(stale == "", key, nil, al.lenVar.Name()+" is not read after "+al.of.Name()+" is reassigned",
				fmt.Sprintf("%s: %s holds len(%s) taken before %s was reassigned, and is read at %s: the length describes a slice that no longer exists", name, al.lenVar.Name(), al.of.Name(), al.of.Name(), stale), funcProps(name)...)
		}
	}
	if n < 3 {
		c.undecided("stalelen.count", nil, fmt.Sprintf("only %d length aliases found", n))
	}
}

// G5: a conversion to a narrower signed integer type is applied only to a
// value whose interval (constants, masks, small library results, or the
// guards that dominate it - interval analysis) fits the target type.
func ruleNarrowing(c *Ctx) {
	p := c.P
	n := 0
	for _, name := range p.sortedFuncNames() {
		fd := p.Funcs[name]
		if fd.Body == nil {
			continue
		}
		if fd.Recv != nil && strings.HasPrefix(recvTypeName(fd.Recv.List[0].Type), "uint") {
			continue // the integer kernel converts between limb widths by design
		}
		k := map[string]int{}
		walkStack(fd.Body, func(nd ast.Node, stack []ast.Node) {
			call, ok := nd.(*ast.CallExpr)
			if !ok || len(call.Args) != 1 {
				return
			}
			tv, ok := p.Info.Types[call.Fun]
			if !ok || !tv.IsType() {
				return
			}
			tb, ok := tv.Type.Underlying().(*types.Basic)
			if !ok || tb.Info()&types.IsInteger == 0 || tb.Info()&types.IsUnsigned != 0 {
				return
			}
			tw, _ := typeWidth(tv.Type)
			arg := call.Args[0]
			if p.constOf(arg) != nil {
				return
			}
			at := p.typeOf(arg)
			ab, ok := at.Underlying().(*types.Basic)
			if !ok || ab.Info()&types.IsInteger == 0 {
				return
			}
			aw, _ := typeWidth(at)
			if aw < tw || (aw == tw && ab.Info()&types.IsUnsigned == 0) {
				return // widening or same-width signed
			}
			n++
			base := fmt.Sprintf("narrow:%s:%s(%s)", name, tb.Name(), p.exprStr(arg))
			k[base]++
			key := fmt.Sprintf("%s#%d", base, k[base])
			lo := new(big.Int).Neg(new(big.Int).Lsh(big.NewInt(1), uint(tw-1)))
			hi := new(big.Int).Sub(new(big.Int).Lsh(big.NewInt(1), uint(tw-1)), big.NewInt(1))
			full := append(append([]ast.Node{}, stack...), nd)
			iv, why := p.intervalAt(fd, arg, full), "interval analysis of the enclosing function"
			fits := iv.lo != nil && iv.hi != nil && iv.lo.Cmp(lo) >= 0 && iv.hi.Cmp(hi) <= 0
			fp := funcProps(name)
			if fits {
				c.ok(key, call, fmt.Sprintf("operand in [%s, %s] (%s) fits %s", iv.lo, iv.hi, why, tb.Name()), fp...)
				return
			}
			if reason, ok := narrowReviewed[name+"|"+p.exprStr(call)]; ok {
				c.exempt(key, call, reason, fp...)
				return
			}
			desc := "unbounded"
			if iv.lo != nil || iv.hi != nil {
				desc = fmt.Sprintf("[%v, %v]", iv.lo, iv.hi)
			}
			c.bad(key, call, fmt.Sprintf("%s: `%s` narrows a value whose range at this point is %s (%s); it must be bounded to %s..%s by a guard that still holds here, or the value wraps", name, p.exprStr(call), desc, why, lo, hi), fp...)
		})
	}
	if n < 15 {
		c.undecided("narrow.count", nil, fmt.Sprintf("only %d narrowing conversions found", n))
	}
}

// narrowReviewed: conversions whose bound needs an argument the interval analysis does not make
// (one construct, one reason; keyed by function and expression, not by line).
var narrowReviewed = map[string]string{
	"Decimal.Int64|int64(sig[0])": "the interval is [0, 2^63]: 2^63 is admitted for negative values only (guard `sig[0] > -MinInt64`), wraps to MinInt64, and the following negation leaves MinInt64 unchanged - the intended result",
	"Decimal.Int32|int32(sig[0])": "the interval is [0, 2^31]: 2^31 is admitted for negative values only (guard `sig[0] > -MinInt32`), wraps to MinInt32, and the following negation leaves MinInt32 unchanged - the intended result",
}

// Decimal.Float: the power of ten that scales the coefficient must be an exact
// big.Float: `new(big.Float).SetInt(x)` gives the fresh value exactly the
// precision x needs (math/big: a zero precision is raised to x.BitLen()), any
// SetPrec/SetMode before the SetInt rounds the factor and the product or
// quotient is then rounded twice.
func ruleBigExact(c *Ctx) {
	p := c.P
	fd := c.fn("Decimal.Float")
	if fd == nil {
		return
	}
	// exact(e): new(big.Float).SetInt(_) , or a local defined once by such an expression and never re-precisioned
	var exact func(e ast.Expr) (bool, string)
	exact = func(e ast.Expr) (bool, string) {
		e = ast.Unparen(e)
		switch x := e.(type) {
		case *ast.CallExpr:
			cn := p.calleeName(x)
			sel, isSel := x.Fun.(*ast.SelectorExpr)
			switch {
			case strings.HasSuffix(cn, "big.Float).SetInt") || cn == "math/big.Float.SetInt" || (isSel && sel.Sel.Name == "SetInt"):
				recv, ok := ast.Unparen(sel.X).(*ast.CallExpr)
				if ok && p.calleeName(recv) == "builtin.new" {
					return true, ""
				}
				return false, "SetInt is applied to `" + p.exprStr(sel.X) + "`, which is not a fresh new(big.Float): its precision was fixed beforehand"
			}
			return false, "`" + p.exprStr(e) + "` is not new(big.Float).SetInt(...)"
		case *ast.Ident:
			o := p.objOf(x)
			var def ast.Expr
			n := 0
			bad := ""
			ast.Inspect(fd.Body, func(m ast.Node) bool {
				switch y := m.(type) {
				case *ast.AssignStmt:
					for i, l := range y.Lhs {
						if p.objOf(l) == o {
							n++
							if len(y.Lhs) == len(y.Rhs) {
								def = y.Rhs[i]
							}
						}
					}
				case *ast.CallExpr:
					if sel, ok := y.Fun.(*ast.SelectorExpr); ok && p.objOf(sel.X) == o {
						switch sel.Sel.Name {
						case "SetPrec", "SetMode", "Set", "SetFloat64", "Mul", "Quo", "Add", "Sub":
							bad = "`" + x.Name + "." + sel.Sel.Name + "` changes the factor after it was built"
						}
					}
				}
				return true
			})
			if bad != "" {
				return false, bad
			}
			if n != 1 || def == nil {
				return false, "`" + x.Name + "` is not defined exactly once"
			}
			return exact(def)
		}
		return false, "`" + p.exprStr(e) + "` is not new(big.Float).SetInt(...)"
	}
	n := 0
	recvParam := paramObjs(p, fd)
	ast.Inspect(fd.Body, func(m ast.Node) bool {
		call, ok := m.(*ast.CallExpr)
		if !ok {
			return true
		}
		sel, ok := call.Fun.(*ast.SelectorExpr)
		if !ok || (sel.Sel.Name != "Mul" && sel.Sel.Name != "Quo") || len(call.Args) != 2 {
			return true
		}
		if t := p.typeOf(sel.X); t == nil || !strings.Contains(t.String(), "big.Float") {
			return true
		}
		n++
		var fObj types.Object
		if len(recvParam) == 1 {
			fObj = recvParam[0]
		}
		okAll, why := true, ""
		for _, a := range call.Args {
			if fObj != nil && p.objOf(a) == fObj {
				continue // the result value itself, rounded once by this operation
			}
			if ok, w := exact(a); !ok {
				okAll, why = false, w
			}
		}
		c.check(okAll, fmt.Sprintf("bigexact:%s#%d", sel.Sel.Name, n), call, "the power-of-ten operand is an exact big.Float (fresh value, SetInt only)",
			"Decimal.Float: "+why+"; the scaling factor 10^|exp| must be exact so that the result is rounded once, by the final Mul/Quo", "C09")
		return true
	})
	if n < 2 {
		c.undecided("bigexact.count", fd, fmt.Sprintf("%d scaling operations found in Decimal.Float, want 2", n), "C09")
	}
}

// Integer conversions of a zero: whatever exponent a zero carries (0E+25 is a legal encoding), the
// saturating exits `return <non-zero limit>, false` must be unreachable. Decided by the interval
// analysis run under the assumption that decompose returned a zero coefficient (scaling and dividing
// zero by constants keeps it zero): the environment at each such return must be infeasible.
func ruleZeroConversions(c *Ctx) {
	p := c.P
	n := 0
	for _, name := range []string{"Decimal.Int32", "Decimal.Int64", "Decimal.Uint32", "Decimal.Uint64"} {
		fd := c.fn(name)
		if fd == nil {
			continue
		}
		k := 0
		p.ivZeroCoef = true
		walkStack(fd.Body, func(nd ast.Node, stack []ast.Node) {
			r, ok := nd.(*ast.ReturnStmt)
			if !ok || len(r.Results) != 2 {
				return
			}
			okFlag, isConst := p.constBool(r.Results[1])
			lim, isInt := constBig(p.constOf(r.Results[0]))
			if !isConst || okFlag || !isInt || lim.Sign() == 0 {
				return
			}
			full := append(append([]ast.Node{}, stack...), nd)
			// exits for NaN/Inf operands are another matter (E9.dispatch)
			for _, f := range p.factsAt(full, nil) {
				special := false
				ast.Inspect(f.cond, func(m ast.Node) bool {
					if call, ok := m.(*ast.CallExpr); ok {
						switch p.calleeName(call) {
						case "Decimal.isSpecial", "Decimal.isInf", "Decimal.IsNaN", "Decimal.IsInf":
							special = true
						}
					}
					return true
				})
				if special && f.val {
					return
				}
			}
			k++
			n++
			env, reached := p.envWalk(fd.Body.List, ienv{}, nd)
			c.check(reached && env.isBottom(), fmt.Sprintf("zeroconv:%s#%d", name, k), r, "unreachable for a zero coefficient, whatever its exponent",
				fmt.Sprintf("%s: `%s` can be reached with a zero coefficient (a zero with a non-zero exponent, e.g. 0E+25, is a legal encoding): zero must convert to (0, true)", name, p.exprStr(r.Results[0])+", false"), "C10", "C19")
		})
		p.ivZeroCoef = false
	}
	if n < 6 {
		c.undecided("zeroconv.count", nil, fmt.Sprintf("only %d saturating exits found", n), "C10")
	}
}

// QuoRem: the early exit "quotient 0, remainder x" is taken only when |y| is strictly greater than |x|.
// Where the decision compares the two aligned coefficients, the comparison must exclude equality
// (for |x| = |y| the result is quotient ±1, remainder 0).
func ruleQuoRemEarly(c *Ctx) {
	p := c.P
	fd := c.fn("Decimal.QuoRemWithMode")
	if fd == nil {
		return
	}
	recv := recvObj(p, fd)
	ps := paramObjs(p, fd)
	if recv == nil || len(ps) < 1 {
		c.undecided("quorem.early.shape", fd, "QuoRemWithMode(o, mode) expected", "C03")
		return
	}
	// coefficient variables of the two operands
	coef := map[string]int{}
	ast.Inspect(fd.Body, func(n ast.Node) bool {
		if as, ok := n.(*ast.AssignStmt); ok && len(as.Lhs) == 2 && len(as.Rhs) == 1 {
			if call, ok := as.Rhs[0].(*ast.CallExpr); ok && p.isPkgFunc(call, "Decimal.decompose") {
				if sel, ok := call.Fun.(*ast.SelectorExpr); ok {
					switch p.objOf(sel.X) {
					case recv:
						coef[p.exprKey(as.Lhs[0])] = 0
					case ps[0]:
						coef[p.exprKey(as.Lhs[0])] = 1
					}
				}
			}
		}
		return true
	})
	n := 0
	walkStack(fd.Body, func(nd ast.Node, stack []ast.Node) {
		ifs, ok := nd.(*ast.IfStmt)
		if !ok || len(ifs.Body.List) != 1 {
			return
		}
		r, ok := ifs.Body.List[0].(*ast.ReturnStmt)
		if !ok || len(r.Results) != 2 || p.objOf(r.Results[1]) != recv {
			return
		}
		if call, ok := r.Results[0].(*ast.CallExpr); !ok || !p.isPkgFunc(call, "zero") {
			return
		}
		for _, dj := range disjuncts(ifs.Cond) {
			x, op, k, ok := p.normCmp(dj)
			if !ok {
				continue
			}
			call, isCall := ast.Unparen(x).(*ast.CallExpr)
			if !isCall || !strings.HasSuffix(p.calleeName(call), ".cmp") || len(call.Args) != 1 {
				continue
			}
			sel, ok := call.Fun.(*ast.SelectorExpr)
			if !ok {
				continue
			}
			a, okA := coef[p.exprKey(sel.X)]
			b, okB := coef[p.exprKey(call.Args[0])]
			if !okA || !okB || a == b {
				continue
			}
			n++
			// the values of cmp in {-1,0,1} that satisfy the disjunct
			var sat []int64
			for _, v := range []int64{-1, 0, 1} {
				bv := big.NewInt(v)
				holds := false
				switch op {
				case token.GTR:
					holds = bv.Cmp(k) > 0
				case token.LEQ:
					holds = bv.Cmp(k) <= 0
				case token.EQL:
					holds = bv.Cmp(k) == 0
				case token.NEQ:
					holds = bv.Cmp(k) != 0
				}
				if holds {
					sat = append(sat, v)
				}
			}
			// y.cmp(x): only +1 ; x.cmp(y): only -1
			want := int64(1)
			if a == 0 {
				want = -1
			}
			c.check(len(sat) == 1 && sat[0] == want, fmt.Sprintf("quorem.early#%d", n), dj, "the zero-quotient exit compares the coefficients strictly (|y| > |x|)",
				fmt.Sprintf("QuoRemWithMode: the exit that returns quotient 0 and remainder x is taken when `%s`; it must require |y| strictly greater than |x| - for equal magnitudes the quotient is ±1 and the remainder 0", p.exprStr(dj)), "C03", "C19")
		}
	})
	if n < 1 {
		c.undecided("quorem.early", fd, "no coefficient comparison guarding the zero-quotient exit found", "C03")
	}
	// the integer quotient is inexact only if quotient digits were dropped: its sticky flag must not be
	// derived from the remainder of the division (which is the second result, not an error term)
	remKeys := map[string]bool{}
	ast.Inspect(fd.Body, func(nd ast.Node) bool {
		if as, ok := nd.(*ast.AssignStmt); ok && len(as.Lhs) == 2 && len(as.Rhs) == 1 {
			if call, ok := as.Rhs[0].(*ast.CallExpr); ok {
				cn := p.calleeName(call)
				if strings.HasPrefix(cn, "uint") && strings.HasSuffix(cn, ".div") {
					if k := p.exprKey(as.Lhs[1]); k != "" {
						remKeys[k] = true
					}
				}
			}
		}
		return true
	})
	sv := p.stickyVars(fd)
	m := 0
	walkStack(fd.Body, func(nd ast.Node, stack []ast.Node) {
		as, ok := nd.(*ast.AssignStmt)
		if !ok || len(as.Lhs) != 1 {
			return
		}
		if _, isSticky := sv[p.exprKey(as.Lhs[0])]; !isSticky || p.constOf(as.Rhs[0]) == nil {
			return
		}
		for i := len(stack) - 1; i >= 0; i-- {
			ifs, ok := stack[i].(*ast.IfStmt)
			if !ok || !containsNode(ifs.Body, as) {
				continue
			}
			m++
			reads := ""
			for k := range remKeys {
				if p.readsVar(ifs.Cond, k) {
					reads = strings.Split(k, "@")[0]
				}
			}
			c.check(reads == "", fmt.Sprintf("quorem.sticky#%d", m), ifs, "the quotient's sticky flag depends on dropped quotient digits only",
				fmt.Sprintf("QuoRemWithMode: the sticky flag of the quotient is set under `%s`, which reads the remainder %s: a non-zero remainder does not make the integer quotient inexact", p.exprStr(ifs.Cond), reads), "C03")
			break
		}
	})
}

// A general division `q, r = x.div(y)` yields quotient digits: they are part of the result or, when
// there is no room for them, must at least reach the sticky flag. The quotient may not be discarded.
func ruleQuotientUsed(c *Ctx) {
	p := c.P
	n := 0
	for _, name := range p.sortedFuncNames() {
		fd := p.Funcs[name]
		if fd.Body == nil {
			continue
		}
		if fd.Recv != nil && strings.HasPrefix(recvTypeName(fd.Recv.List[0].Type), "uint") {
			continue
		}
		k := 0
		walkStack(fd.Body, func(nd ast.Node, stack []ast.Node) {
			as, ok := nd.(*ast.AssignStmt)
			if !ok || len(as.Lhs) != 2 || len(as.Rhs) != 1 {
				return
			}
			call, ok := as.Rhs[0].(*ast.CallExpr)
			if !ok {
				return
			}
			cn := p.calleeName(call)
			if !strings.HasPrefix(cn, "uint") || !strings.HasSuffix(cn, ".div") {
				return
			}
			k++
			n++
			key := fmt.Sprintf("quotient:%s#%d", name, k)
			fp := funcProps(name)
			if isBlank(as.Lhs[0]) {
				c.bad(key, as, fmt.Sprintf("%s: the quotient of `%s` is discarded; its digits belong to the result, or to the sticky flag when they no longer fit", name, p.exprStr(call)), fp...)
				return
			}
			qkey := p.exprKey(as.Lhs[0])
			list, idx := enclosingBlock(append(append([]ast.Node{}, stack...), nd))
			used := false
			if list != nil && qkey != "" {
				for _, s := range list[idx+1:] {
					if p.readsVar(s, qkey) {
						used = true
						break
					}
					if p.assignsTo(s, qkey) {
						break
					}
				}
				// the enclosing function may use it after the block (sig, rem = a.div(b) at top level of a branch)
				if !used {
					for i := len(stack) - 1; i >= 0 && !used; i-- {
						if blk, ok := stack[i].(*ast.BlockStmt); ok {
							after := false
							for _, s := range blk.List {
								if after && p.readsVar(s, qkey) {
									used = true
									break
								}
								if containsNode(s, as) {
									after = true
								}
							}
						}
					}
				}
			}
			c.check(used, key, as, "the quotient is used (added to the result or tested for the sticky flag)",
				fmt.Sprintf("%s: the quotient of `%s` is never read afterwards: its digits are lost without reaching the result or the sticky flag", name, p.exprStr(call)), fp...)
		})
	}
	if n < 7 {
		c.undecided("quotient.count", nil, fmt.Sprintf("only %d general divisions found", n))
	}
}

// Overflow clamp of reduceN: while the exponent is above the maximum and the coefficient can still be
// multiplied by ten without leaving the coefficient range, the loop must do so (otherwise a
// representable value such as 1e6144 written with a short coefficient overflows to infinity).
// Completeness of the loop condition: every coefficient whose tenfold fits must pass it.
func ruleClampComplete(c *Ctx) {
	p := c.P
	lim := new(big.Int).SetUint64(coefLimitHi())    // top word of the largest coefficient
	fitTop := new(big.Int).Quo(lim, big.NewInt(10)) // sig[top] <= fitTop  <=>  sig·10 stays within the limit (for any low words)
	n := 0
	for _, name := range p.sortedFuncNames() {
		fd := p.Funcs[name]
		if fd.Body == nil {
			continue
		}
		k := 0
		ast.Inspect(fd.Body, func(nd ast.Node) bool {
			loop, ok := nd.(*ast.ForStmt)
			if !ok || loop.Cond == nil {
				return true
			}
			isClamp := false
			var bound *big.Int
			for _, cj := range conjuncts(loop.Cond) {
				x, op, kv, ok := p.normCmp(cj)
				if !ok {
					continue
				}
				if op == token.GTR && kv.IsInt64() && kv.Int64() == specMaxBiasedExp && p.exprKey(x) != "" {
					isClamp = true
				}
				if ix, isIx := ast.Unparen(x).(*ast.IndexExpr); isIx && op == token.LEQ {
					if i, ok := p.constInt64(ix.Index); ok && int(i) == limbsOf(p.typeOf(ix.X))-1 {
						bound = kv
					}
				}
			}
			if !isClamp {
				return true
			}
			k++
			n++
			key := fmt.Sprintf("clamp:%s#%d", name, k)
			fp := funcProps(name)
			if bound == nil {
				c.undecided(key, loop, "the coefficient bound of the overflow clamp loop was not found", fp...)
				return true
			}
			okLoop := bound.Cmp(fitTop) >= 0
			// commit idiom inside: tmp := sig.mul64(10); if tmp[top] <= L { commit } else { break }
			detail := fmt.Sprintf("loop admits top words up to %#x (every coefficient whose tenfold fits has a top word <= %#x)", bound, fitTop)
			ast.Inspect(loop.Body, func(m ast.Node) bool {
				ifs, ok := m.(*ast.IfStmt)
				if !ok {
					return true
				}
				x, op, kv, ok := p.normCmp(ifs.Cond)
				if !ok {
					return true
				}
				if ix, isIx := ast.Unparen(x).(*ast.IndexExpr); isIx {
					if i, ok := p.constInt64(ix.Index); ok && int(i) == limbsOf(p.typeOf(ix.X))-1 {
						// `tmp[top] <= K` commits / `tmp[top] > K` breaks: K must be the coefficient limit itself
						switch op {
						case token.LEQ, token.GTR:
							if kv.Cmp(lim) < 0 {
								okLoop = false
								detail = fmt.Sprintf("the product is accepted only up to a top word of %#x; coefficients up to %#x are valid", kv, lim)
							}
						}
					}
				}
				return true
			})
			c.check(okLoop, key, loop, "the overflow clamp scales whenever the tenfold coefficient still fits", name+": the loop that brings an exponent above the maximum back into range stops too early: "+detail+"; a representable result would become infinite", fp...)
			return true
		})
	}
	if n < 1 {
		c.undecided("clamp.count", nil, "no overflow clamp loop found")
	}
}

// Compose, two necessary conditions of "exact or error":
//   - a loop that strips k digits at a time while the value exceeds a threshold strips only digits
//     that have to go (the threshold divided by 10^(k-1) still exceeds the largest coefficient), so
//     a representable value is never rejected for a non-zero digit that could have been kept;
//   - the coefficient handed to compose lies within the coefficient range (interval analysis).
func ruleComposeRange(c *Ctx) {
	p := c.P
	fd := c.fn("Decimal.Compose")
	if fd == nil {
		return
	}
	cmax := new(big.Int).Lsh(big.NewInt(5), 111)
	cmax.Sub(cmax, big.NewInt(1))
	divK, _ := p.divKTable()
	n := 0
	ast.Inspect(fd.Body, func(nd ast.Node) bool {
		loop, ok := nd.(*ast.ForStmt)
		if !ok || loop.Cond == nil {
			return true
		}
		x, op, cst, ok := p.normCmp(loop.Cond)
		if ok && op == token.NEQ && cst.Sign() == 0 {
			op = token.GTR // an unsigned word: != 0 is > 0
		}
		if !ok || op != token.GTR {
			return true
		}
		ix, ok := ast.Unparen(x).(*ast.IndexExpr)
		if !ok {
			return true
		}
		nl := limbsOf(p.typeOf(ix.X))
		if i, ok := p.constInt64(ix.Index); !ok || int(i) != nl-1 || nl < 2 {
			return true
		}
		k := -1
		for _, s := range loop.Body.List {
			if as, ok := s.(*ast.AssignStmt); ok && len(as.Rhs) == 1 {
				if call, ok := as.Rhs[0].(*ast.CallExpr); ok {
					if info, ok := divK[p.calleeName(call)]; ok {
						k = info.Log10
					}
				}
			}
		}
		if k < 0 {
			return true
		}
		n++
		lower := new(big.Int).Add(cst, big.NewInt(1))
		lower.Lsh(lower, uint(64*(nl-1)))
		need := new(big.Int).Mul(cmax, pow10(k-1))
		c.check(lower.Cmp(need) > 0, fmt.Sprintf("compose.strip:%s>%#x/10^%d", p.exprName(ix.X), cst, k), loop,
			fmt.Sprintf("stripping %d digits above this threshold removes only digits that cannot be kept", k),
			fmt.Sprintf("Decimal.Compose: stripping %d digits at a time while %s exceeds %#x can remove a digit that would still fit in 34 digits (needs (C+1)·2^%d > (5·2^111-1)·10^%d): an exactly representable value would be rejected", k, p.exprStr(x), cst, 64*(nl-1), k-1), "C14")
		return true
	})
	if n < 1 {
		c.undecided("compose.strip.count", fd, "no digit-stripping loop found in Compose", "C14")
	}
	// the coefficient at compose
	m := 0
	lim := new(big.Int).SetUint64(coefLimitHi())
	walkStack(fd.Body, func(nd ast.Node, stack []ast.Node) {
		call, ok := nd.(*ast.CallExpr)
		if !ok || !p.isPkgFunc(call, "compose") || len(call.Args) != 3 {
			return
		}
		m++
		k := p.exprKey(call.Args[1])
		var site ast.Node
		for i := len(stack) - 1; i >= 0; i-- {
			if _, ok := stack[i].(ast.Stmt); ok {
				site = stack[i]
				break
			}
		}
		okc := false
		desc := "unknown"
		if k != "" && site != nil {
			if env, reached := p.envWalk(fd.Body.List, p.paramEnv(fd), site); reached {
				if iv, ok := env[k+"[1]"]; ok && iv.hi != nil {
					desc = fmt.Sprintf("<= %#x", iv.hi)
					okc = iv.hi.Cmp(lim) <= 0
				}
			}
		}
		c.check(okc, fmt.Sprintf("compose.coef#%d", m), call, "the coefficient handed to compose is within the coefficient range (top word <= 0x27fffffffffff)",
			"Decimal.Compose: the top word of the coefficient handed to compose is "+desc+" at this point; every path must have checked it against 0x0002_7fff_ffff_ffff after the last scaling, or a value out of range is stored without an error", "C14")
	})
	if m < 1 {
		c.undecided("compose.coef", fd, "no compose call found in Decimal.Compose", "C14")
	}
}

// Exp2 builds 2^shift directly in limbs. Every seeding must put the single bit at position `shift`:
// `v[i] = 1 << (shift - K)` needs K = 64·i, and a constant seed `v[i] = 2^b` must be followed by
// `shift -= 64·i + b` (the part of the power of two already stored).
func ruleBinarySeed(c *Ctx) {
	p := c.P
	fd := c.fn("Exp2")
	if fd == nil {
		return
	}
	n := 0
	walkStack(fd.Body, func(nd ast.Node, stack []ast.Node) {
		as, ok := nd.(*ast.AssignStmt)
		if !ok || as.Tok != token.ASSIGN || len(as.Lhs) != 1 || len(as.Rhs) != 1 {
			return
		}
		ix, ok := as.Lhs[0].(*ast.IndexExpr)
		if !ok {
			return
		}
		limb, ok := p.constInt64(ix.Index)
		if !ok || limbsOf(p.typeOf(ix.X)) < 2 {
			return
		}
		rhs := ast.Unparen(as.Rhs[0])
		if be, ok := rhs.(*ast.BinaryExpr); ok && be.Op == token.SHL {
			one, ok1 := p.constInt64(be.X)
			if !ok1 || one != 1 {
				return
			}
			n++
			// shift count: S or S - K
			var k int64
			okForm := false
			cnt := ast.Unparen(be.Y)
			if sub, ok := cnt.(*ast.BinaryExpr); ok && sub.Op == token.SUB && p.exprKey(sub.X) != "" {
				if kv, ok := p.constInt64(sub.Y); ok {
					k, okForm = kv, true
				}
			} else if p.exprKey(cnt) != "" {
				k, okForm = 0, true
			}
			c.check(okForm && k == 64*limb, fmt.Sprintf("binseed:%s[%d]", p.exprName(ix.X), limb), as, fmt.Sprintf("bit `shift` of the value: limb %d holds bit shift-%d", limb, 64*limb),
				fmt.Sprintf("Exp2: `%s = %s` stores 2^(shift-%d) in limb %d, whose bit 0 has weight 2^%d: the value built is not 2^shift", p.exprStr(as.Lhs[0]), p.exprStr(as.Rhs[0]), k, limb, 64*limb), "C16")
			return
		}
		cv, ok := constBig(p.constOf(rhs))
		if !ok || cv.Sign() <= 0 || cv.BitLen() == 0 || new(big.Int).And(cv, new(big.Int).Sub(cv, big.NewInt(1))).Sign() != 0 {
			return
		}
		// a constant power of two: the next statement of the block must subtract its exponent from the shift
		n++
		want := 64*limb + int64(cv.BitLen()-1)
		list, idx := enclosingBlock(append(append([]ast.Node{}, stack...), nd))
		got := int64(-1)
		if list != nil && idx+1 < len(list) {
			if a, ok := p.asAdjustment(list[idx+1]); ok {
				got = -a.delta
			}
		}
		c.check(got == want, fmt.Sprintf("binseed:%s[%d]=2^%d", p.exprName(ix.X), limb, cv.BitLen()-1), as, fmt.Sprintf("2^%d stored, shift reduced by %d", want, want),
			fmt.Sprintf("Exp2: `%s = %s` stores 2^%d; the remaining shift must be reduced by exactly %d in the next statement (found %d): the result would be off by a power of two", p.exprStr(as.Lhs[0]), p.exprStr(as.Rhs[0]), want, want, got), "C16")
	})
	if n < 5 {
		c.undecided("binseed.count", fd, fmt.Sprintf("only %d limb seedings of 2^shift found in Exp2", n), "C16")
	}
}

// d ± 1 on decomposed192 values: the early exits return either the constant one (d is negligible) or d
// itself (one is negligible); the sign that comes with each is fixed by the operation:
//
//	sub1    = d - 1 : one -> negative, d -> positive
//	add1neg = 1 - d : one -> positive, d -> negative
func ruleUnitOps(c *Ctx) {
	p := c.P
	spec := map[string][2]bool{ // [sign with the constant one, sign with d]
		"decomposed192.sub1":    {true, false},
		"decomposed192.add1neg": {false, true},
	}
	for _, fn := range []string{"decomposed192.sub1", "decomposed192.add1neg"} {
		fd := c.fn(fn)
		if fd == nil {
			continue
		}
		recv := recvObj(p, fd)
		n := 0
		ast.Inspect(fd.Body, func(nd ast.Node) bool {
			r, ok := nd.(*ast.ReturnStmt)
			if !ok || len(r.Results) != 3 {
				return true
			}
			sign, isConst := p.constBool(r.Results[0])
			if !isConst {
				return true
			}
			kind := -1
			if p.objOf(r.Results[1]) == recv && recv != nil {
				kind = 1
			} else if cl, ok := ast.Unparen(r.Results[1]).(*ast.CompositeLit); ok {
				// decomposed192{sig: uint192{1, 0, 0}, exp: 0}
				isOne := false
				for _, el := range cl.Elts {
					if kv, ok := el.(*ast.KeyValueExpr); ok && p.exprStr(kv.Key) == "sig" {
						if inner, ok := kv.Value.(*ast.CompositeLit); ok && len(inner.Elts) == 3 {
							a, ok1 := p.constInt64(inner.Elts[0])
							b, ok2 := p.constInt64(inner.Elts[1])
							cc, ok3 := p.constInt64(inner.Elts[2])
							isOne = ok1 && ok2 && ok3 && a == 1 && b == 0 && cc == 0
						}
					}
					if kv, ok := el.(*ast.KeyValueExpr); ok && p.exprStr(kv.Key) == "exp" {
						if v, ok := p.constInt64(kv.Value); !ok || v != 0 {
							isOne = false
						}
					}
				}
				if isOne {
					kind = 0
				}
			}
			if kind < 0 {
				return true
			}
			n++
			what := []string{"the constant one (d is negligible)", "d itself (one is negligible)"}[kind]
			c.check(sign == spec[fn][kind], fmt.Sprintf("unitop:%s#%d", fn, n), r, fmt.Sprintf("returns %s with sign negative=%v", what, spec[fn][kind]),
				fmt.Sprintf("%s returns %s with sign negative=%v; for this operation that result has sign negative=%v", fn, what, sign, spec[fn][kind]), "C16", "C18")
			return true
		})
		if n < 3 {
			c.undecided("unitop:"+fn, fd, fmt.Sprintf("only %d early exits found", n), "C16")
		}
	}
}

// A pointer parameter that the function itself compares with nil (so nil is an expected argument) is
// dereferenced only where the analysis knows it is non-nil: after `p != nil`, or after it was replaced
// by a fresh value on that path.
func ruleNilParams(c *Ctx) {
	p := c.P
	n := 0
	for _, name := range p.sortedFuncNames() {
		fd := p.Funcs[name]
		if fd.Body == nil || fd.Type.Params == nil {
			continue
		}
		for _, po := range paramObjs(p, fd) {
			if po == nil {
				continue
			}
			if _, isPtr := po.Type().Underlying().(*types.Pointer); !isPtr {
				continue
			}
			// does the function test it against nil?
			tests := false
			ast.Inspect(fd.Body, func(nd ast.Node) bool {
				if be, ok := nd.(*ast.BinaryExpr); ok && (be.Op == token.EQL || be.Op == token.NEQ) {
					for _, pair := range [][2]ast.Expr{{be.X, be.Y}, {be.Y, be.X}} {
						if id, ok := ast.Unparen(pair[1]).(*ast.Ident); ok && id.Name == "nil" && p.objOf(pair[0]) == po {
							tests = true
						}
					}
				}
				return true
			})
			if !tests {
				continue
			}
			key := p.exprKey(&ast.Ident{Name: po.Name()})
			_ = key
			k := 0
			// does the function replace a nil argument by a fresh value (so its result is never nil)?
			allocates := false
			ast.Inspect(fd.Body, func(nd ast.Node) bool {
				if as, ok := nd.(*ast.AssignStmt); ok && len(as.Lhs) == len(as.Rhs) {
					for i, l := range as.Lhs {
						if p.objOf(l) == po && p.nilness(as.Rhs[i], ienv{}) == 1 {
							allocates = true
						}
					}
				}
				return true
			})
			walkStack(fd.Body, func(nd ast.Node, stack []ast.Node) {
				// dereferences: p.Method(...), p.field, *p; and, when the function allocates for nil, returning p
				var base ast.Expr
				switch x := nd.(type) {
				case *ast.SelectorExpr:
					base = x.X
				case *ast.StarExpr:
					base = x.X
				case *ast.ReturnStmt:
					if !allocates {
						return
					}
					for _, r := range x.Results {
						if id, ok := ast.Unparen(r).(*ast.Ident); ok && p.Info.Uses[id] == po {
							k++
							n++
							env, reached := p.envWalk(fd.Body.List, ienv{}, x)
							okNil := reached && (env.isBottom() || p.nilness(id, env) == 1)
							c.check(okNil, fmt.Sprintf("nilparam:%s:%s#%d", name, po.Name(), k), x, po.Name()+" is known to be non-nil where it is returned",
								fmt.Sprintf("%s: returns the parameter %s at a point where it may still be nil, although the function allocates a value for a nil argument elsewhere: callers that pass nil get nil back", name, po.Name()), "C20", "C09", "C10")
						}
					}
					return
				default:
					return
				}
				id, ok := ast.Unparen(base).(*ast.Ident)
				if !ok || p.Info.Uses[id] != po {
					return
				}
				k++
				n++
				full := append(append([]ast.Node{}, stack...), nd)
				var site ast.Node
				for i := len(full) - 1; i >= 0; i-- {
					if _, ok := full[i].(ast.Stmt); ok {
						site = full[i]
						break
					}
				}
				okNil := false
				if site != nil {
					env, reached := p.envWalk(fd.Body.List, ienv{}, site)
					if reached {
						if ifs, ok := site.(*ast.IfStmt); ok && containsNode(ifs.Cond, nd) {
							env = p.condEnv(ifs.Cond, env, nd)
						}
						okNil = env.isBottom() || p.nilness(id, env) == 1
					}
				}
				c.check(okNil, fmt.Sprintf("nilparam:%s:%s#%d", name, po.Name(), k), nd, po.Name()+" is known to be non-nil here",
					fmt.Sprintf("%s: `%s` dereferences the parameter %s, which the function accepts as nil, at a point where it may still be nil: a nil argument would panic", name, p.exprStr(nd.(ast.Expr)), po.Name()), "C20", "C09", "C10")
			})
		}
	}
	if n < 6 {
		c.undecided("nilparam.count", nil, fmt.Sprintf("only %d dereferences of nil-able parameters found", n), "C20")
	}
}

// Go's % takes the sign of the dividend: `x % 2 == 1` (or `!= 1`) misclassifies negative odd x.
// A remainder of a signed value is compared with a non-zero constant only where the interval
// analysis shows the value to be non-negative.
func ruleSignedRemainder(c *Ctx) {
	// positive example first (the rule expects zero matches on the real tree)
	if c.selfTest == nil {
		st, err := selfTestProg("package selftest\nfunc odd(x int) bool { return x%2 == 1 }\nfunc even(x int) bool { return x%2 == 0 }\nfunc oddNonNeg(x int) bool { if x < 0 { return false }; return x%2 == 1 }\n")
		if err != nil {
			c.undecided("modsign.selftest", nil, "the positive example could not be type-checked: "+err.Error())
		} else {
			sub := &Ctx{P: st, rule: c.rule, selfTest: st}
			ruleSignedRemainder(sub)
			bad, ok := 0, 0
			for _, o := range sub.Obls {
				switch o.Verdict {
				case vOK:
					ok++
				default:
					bad++
				}
			}
			c.check(bad == 1 && ok == 2, "modsign.selftest", nil, "the rule reports `x%2 == 1` on a signed x and accepts `x%2 == 0` and the guarded form (synthetic example)",
				fmt.Sprintf("self-test of the rule failed: %d reports, %d accepted on the synthetic example (want 1 and 2)", bad, ok))
		}
	}
	p := c.P
	n := 0
	for _, name := range p.sortedFuncNames() {
		fd := p.Funcs[name]
		if fd.Body == nil {
			continue
		}
		k := 0
		walkStack(fd.Body, func(nd ast.Node, stack []ast.Node) {
			be, ok := nd.(*ast.BinaryExpr)
			if !ok || (be.Op != token.EQL && be.Op != token.NEQ) {
				return
			}
			for _, pair := range [][2]ast.Expr{{be.X, be.Y}, {be.Y, be.X}} {
				rem, ok := ast.Unparen(pair[0]).(*ast.BinaryExpr)
				if !ok || rem.Op != token.REM {
					continue
				}
				cst, ok := constBig(p.constOf(pair[1]))
				if !ok {
					continue
				}
				t := p.typeOf(rem.X)
				b, isB := t.Underlying().(*types.Basic)
				if !isB || b.Info()&types.IsInteger == 0 || b.Info()&types.IsUnsigned != 0 {
					continue
				}
				k++
				n++
				key := fmt.Sprintf("modsign:%s#%d", name, k)
				if cst.Sign() == 0 {
					c.ok(key, be, "remainder compared with zero: sign-independent", funcProps(name)...)
					continue
				}
				iv := p.intervalAt(fd, rem.X, append(append([]ast.Node{}, stack...), nd))
				c.check(iv.lo != nil && iv.lo.Sign() >= 0, key, be, "the dividend is non-negative here",
					fmt.Sprintf("%s: `%s` compares a remainder of the signed value `%s` with %s, but that value can be negative here and Go's %% then yields a negative remainder: negative values are misclassified", name, p.exprStr(be), p.exprStr(rem.X), cst), funcProps(name)...)
			}
		})
	}
	if n < 1 {
		c.Notes = append(c.Notes, "modsign: no remainder of a signed value is compared with a constant")
	}
}

// selfTestProg type-checks a small synthetic source (no imports) into a Prog, so that a rule whose
// expected count on the real tree is zero can be shown to match its positive example on every run.
func selfTestProg(src string) (*Prog, error) {
	fset := token.NewFileSet()
	f, err := parser.ParseFile(fset, "selftest.go", src, 0)
	if err != nil {
		return nil, err
	}
	info := &types.Info{Types: map[ast.Expr]types.TypeAndValue{}, Defs: map[*ast.Ident]types.Object{}, Uses: map[*ast.Ident]types.Object{},
		Selections: map[*ast.SelectorExpr]*types.Selection{}, Implicits: map[ast.Node]types.Object{}, Scopes: map[ast.Node]*types.Scope{}}
	pkg, err := (&types.Config{}).Check("selftest", fset, []*ast.File{f}, info)
	if err != nil {
		return nil, err
	}
	pr := &Prog{Dir: "", Fset: fset, Pkg: &packages.Package{Types: pkg, TypesInfo: info, Fset: fset, Syntax: []*ast.File{f}}, Info: info, Files: []*ast.File{f},
		Funcs: map[string]*ast.FuncDecl{}, FuncObj: map[*types.Func]*ast.FuncDecl{}}
	for _, d := range f.Decls {
		if fd, ok := d.(*ast.FuncDecl); ok {
			pr.Funcs[fd.Name.Name] = fd
			pr.NFuncs++
		}
	}
	return pr, nil
}

// An overflow guard `if E > maxBiasedExponent { return ±Inf }` in front of compose(.., sig, E) is only
// right if (sig, E) is already clamped: a short coefficient with an exponent above the maximum still
// denotes a representable value (1e6120 is 1000000000e6111). reduceN clamps (E7.clamp); anywhere else a
// scale-up loop `for E > maxBiasedExponent && sig[top] <= L/10 { sig = sig.mul64(10); E-- }` must precede
// the guard.
func ruleClampBeforeGuard(c *Ctx) {
	p := c.P
	n := 0
	for _, name := range p.sortedFuncNames() {
		fd := p.Funcs[name]
		if fd.Body == nil || name == "compose" || strings.HasPrefix(name, "RoundingMode.") {
			continue
		}
		k := 0
		walkStack(fd.Body, func(nd ast.Node, stack []ast.Node) {
			call, ok := nd.(*ast.CallExpr)
			if !ok || !p.isPkgFunc(call, "compose") || len(call.Args) != 3 {
				return
			}
			ekey := p.exprKey(call.Args[2])
			skey := p.exprKey(call.Args[1])
			if ekey == "" || skey == "" {
				return
			}
			// the guard on this exponent that precedes the call in the enclosing block chain
			full := append(append([]ast.Node{}, stack...), nd)
			chain := blockChain(full)
			var guard ast.Stmt
			var gList []ast.Stmt
			gIdx := -1
			for ci := len(chain) - 1; ci >= 0 && guard == nil; ci-- {
				bp := chain[ci]
				for j := bp.idx - 1; j >= 0; j-- {
					if p.isOverflowGuard(bp.list[j], ekey) {
						guard, gList, gIdx = bp.list[j], bp.list, j
						break
					}
				}
			}
			if guard == nil {
				return // not a guarded site (E7.G3 decides those)
			}
			// walk back from the guard to the statement that last defines the exponent
			how := ""
			for j := gIdx - 1; j >= 0 && how == ""; j-- {
				s := gList[j]
				if f, ok := s.(*ast.ForStmt); ok && f.Cond != nil {
					isClamp, bounded := false, false
					for _, cj := range conjuncts(f.Cond) {
						x, op, kv, ok := p.normCmp(cj)
						if !ok {
							continue
						}
						if op == token.GTR && kv.IsInt64() && kv.Int64() == specMaxBiasedExp && p.exprKey(x) == ekey {
							isClamp = true
						}
						if ix, isIx := ast.Unparen(x).(*ast.IndexExpr); isIx && op == token.LEQ && p.exprKey(ix.X) == skey {
							bounded = true
						}
					}
					if isClamp && bounded {
						how = "clamp loop"
						break
					}
				}
				if !p.assignsTo(s, ekey) {
					continue
				}
				if p.lastDefIsReduce(s, ekey) {
					how = "reduceN"
					break
				}
				how = "unclamped:" + p.posStr(s)
			}
			if how == "" {
				return
			}
			k++
			n++
			c.check(!strings.HasPrefix(how, "unclamped:"), fmt.Sprintf("clampguard:%s#%d", name, k), guard, "the pair (coefficient, exponent) is clamped ("+how+") before the overflow guard",
				fmt.Sprintf("%s: the exponent tested by the overflow guard was last set at %s and no scale-up loop follows: a value with a short coefficient and an exponent above the maximum (for example 1e6120 = 1000000000e6111) is representable but would be returned as ±Inf", name, strings.TrimPrefix(how, "unclamped:")), funcProps(name)...)
		})
	}
	if n < 20 {
		c.undecided("clampguard.count", nil, fmt.Sprintf("only %d guarded compose sites found", n))
	}
}

// lastDefIsReduce: on every path through s that assigns key, the last assignment is the result of a
// reduceN call (if/else and switch arms are followed; an arm that does not assign key at all fails).
func (p *Prog) lastDefIsReduce(s ast.Stmt, key string) bool {
	var lastOf func(list []ast.Stmt) bool
	lastOf = func(list []ast.Stmt) bool {
		for j := len(list) - 1; j >= 0; j-- {
			if !p.assignsTo(list[j], key) {
				continue
			}
			return p.lastDefIsReduce(list[j], key)
		}
		return false
	}
	switch x := s.(type) {
	case *ast.AssignStmt:
		if len(x.Rhs) == 1 {
			if rc, ok := x.Rhs[0].(*ast.CallExpr); ok && strings.HasPrefix(p.calleeName(rc), "RoundingMode.reduce") {
				return true
			}
		}
		return false
	case *ast.BlockStmt:
		return lastOf(x.List)
	case *ast.IfStmt:
		if !lastOf(x.Body.List) && !exitsBlock(x.Body.List) {
			return false
		}
		switch e := x.Else.(type) {
		case nil:
			return false
		case *ast.BlockStmt:
			return lastOf(e.List) || exitsBlock(e.List)
		default:
			return p.lastDefIsReduce(e, key)
		}
	case *ast.SwitchStmt:
		hasDefault := false
		for _, cc := range x.Body.List {
			cl := cc.(*ast.CaseClause)
			if cl.List == nil {
				hasDefault = true
			}
			if !lastOf(cl.Body) && !exitsBlock(cl.Body) {
				return false
			}
		}
		return hasDefault
	}
	return false
}

// Every coefficient handed to compose lies within the coefficient range (top word <= 0x27fffffffffff):
// compose packs the fields without looking, so a larger coefficient spills into the exponent and
// combination bits. Decided by the interval analysis (decompose and the rounding kernel are known to
// deliver coefficients within the limit; constants are evaluated).
func ruleComposeCoefficient(c *Ctx) {
	p := c.P
	lim := new(big.Int).SetUint64(coefLimitHi())
	n := 0
	for _, name := range p.sortedFuncNames() {
		fd := p.Funcs[name]
		if fd.Body == nil || name == "compose" {
			continue
		}
		k := 0
		walkStack(fd.Body, func(nd ast.Node, stack []ast.Node) {
			call, ok := nd.(*ast.CallExpr)
			if !ok || !p.isPkgFunc(call, "compose") || len(call.Args) != 3 {
				return
			}
			k++
			n++
			key := fmt.Sprintf("coef:%s#%d", name, k)
			fp := append([]string{"C12"}, funcProps(name)...)
			arg := ast.Unparen(call.Args[1])
			// a literal coefficient
			if cl, ok := arg.(*ast.CompositeLit); ok && len(cl.Elts) == 2 {
				if hi, ok := constBig(p.constOf(cl.Elts[1])); ok {
					c.check(hi.Cmp(lim) <= 0, key, call, "constant coefficient within range", fmt.Sprintf("%s: the constant coefficient handed to compose has top word %#x, above the coefficient limit", name, hi), fp...)
					return
				}
			}
			sk := p.exprKey(arg)
			var site ast.Node
			for i := len(stack) - 1; i >= 0; i-- {
				if _, ok := stack[i].(ast.Stmt); ok {
					site = stack[i]
					break
				}
			}
			desc := "unknown"
			okc := false
			if sk != "" && site != nil {
				save := p.ivCurFn
				p.ivCurFn = fd
				env, reached := p.envWalk(fd.Body.List, p.paramEnv(fd), site)
				p.ivCurFn = save
				if reached {
					if env.isBottom() {
						okc, desc = true, "unreachable"
					} else if iv, ok := env[sk+"[1]"]; ok && iv.hi != nil {
						desc = fmt.Sprintf("<= %#x", iv.hi)
						okc = iv.hi.Cmp(lim) <= 0
					}
				}
			}
			c.check(okc, key, call, "the coefficient handed to compose is within the coefficient range ("+desc+")",
				fmt.Sprintf("%s: the top word of the coefficient handed to compose is %s here; compose packs it unchecked, so it must have been compared with 0x0002_7fff_ffff_ffff after its last change", name, desc), fp...)
		})
	}
	if n < 30 {
		c.undecided("coef.count", nil, fmt.Sprintf("only %d compose call sites found", n))
	}
}

// The shift kernels (uintN.lsh / uintN.rsh) by partial evaluation: for every shift count 0..64N-1 the
// function is evaluated with all 64N input bits symbolic; output bit j must be input bit j-o (lsh) or
// j+o (rsh), or zero when that falls outside the value.
func ruleShiftKernels(c *Ctx) {
	p := c.P
	n := 0
	for _, name := range p.sortedFuncNames() {
		fd := p.Funcs[name]
		if fd.Body == nil || fd.Recv == nil {
			continue
		}
		dot := strings.Index(name, ".")
		if dot < 0 || !strings.HasPrefix(name, "uint") {
			continue
		}
		m := name[dot+1:]
		if m != "lsh" && m != "rsh" {
			continue
		}
		recvT := p.typeOf(fd.Recv.List[0].Type)
		limbs := limbsOf(recvT)
		if limbs < 2 || fd.Type.Params == nil || fd.Type.Params.NumFields() != 1 {
			continue
		}
		n++
		bad := ""
		evals := 0
		for o := 0; o < 64*limbs && bad == ""; o++ {
			ev := &peEval{p: p}
			in := &peLimbs{}
			for i := 0; i < limbs; i++ {
				in.v = append(in.v, peBits{inputVec(fmt.Sprintf("n%d", i), 64), 64})
			}
			res, why := ev.run(fd, in, []peVal{peInt{int64(o)}})
			evals++
			if why != "" || len(res) != 1 {
				bad = fmt.Sprintf("shift count %d: not evaluated: %s", o, why)
				break
			}
			out, ok := res[0].(*peLimbs)
			if !ok || len(out.v) != limbs {
				bad = fmt.Sprintf("shift count %d: the result is not a %d-limb value", o, limbs)
				break
			}
			for j := 0; j < 64*limbs && bad == ""; j++ {
				lb, ok := out.v[j/64].(peBits)
				if !ok {
					if iv, isInt := out.v[j/64].(peInt); isInt {
						lb = peBits{constVec(uint64(iv.v)), 64}
					} else {
						bad = fmt.Sprintf("shift count %d: limb %d is not a tracked word", o, j/64)
						break
					}
				}
				got := lb.bv[j%64]
				src := j - o
				if m == "rsh" {
					src = j + o
				}
				want := bit{k: '0'}
				if src >= 0 && src < 64*limbs {
					want = bit{k: 'i', src: fmt.Sprintf("n%d", src/64), idx: src % 64}
				}
				if got != want {
					bad = fmt.Sprintf("for a shift count of %d, bit %d of the result is %s, want %s", o, j, got, want)
				}
			}
		}
		c.check(bad == "", "shift:"+name, fd, fmt.Sprintf("every output bit is the right input bit for every shift count 0..%d (%d evaluations over %d symbolic bits)", 64*limbs-1, evals, 64*limbs),
			name+": "+bad, "C09", "C10", "C16", "C17", "C18", "C14", "C19")
	}
	if n < 4 {
		c.undecided("shift.count", nil, fmt.Sprintf("only %d shift kernels found", n))
	}
}

// FromInt reduces a big.Int in steps of 10^k while its bit length exceeds B. A step may only drop
// digits that cannot be kept: 2^B (the smallest value that still enters the step) divided by 10^(k-1)
// must exceed the largest coefficient, otherwise up to k-1 significant digits are lost before rounding.
func ruleBigReduce(c *Ctx) {
	p := c.P
	fd := c.fn("FromInt")
	if fd == nil {
		return
	}
	cmax := new(big.Int).Lsh(big.NewInt(5), 111)
	cmax.Sub(cmax, big.NewInt(1))
	// constants held in *big.Int locals: x := big.NewInt(K)
	bigConst := map[types.Object]*big.Int{}
	ast.Inspect(fd.Body, func(n ast.Node) bool {
		if as, ok := n.(*ast.AssignStmt); ok && len(as.Lhs) == 1 && len(as.Rhs) == 1 {
			if call, ok := as.Rhs[0].(*ast.CallExpr); ok && p.calleeName(call) == "math/big.NewInt" && len(call.Args) == 1 {
				if k, ok := constBig(p.constOf(call.Args[0])); ok {
					if o := p.objOf(as.Lhs[0]); o != nil {
						bigConst[o] = k
					}
				}
			}
		}
		return true
	})
	n := 0
	ast.Inspect(fd.Body, func(nd ast.Node) bool {
		loop, ok := nd.(*ast.ForStmt)
		if !ok || loop.Cond == nil {
			return true
		}
		x, op, kb, ok := p.normCmp(loop.Cond)
		if !ok || op != token.GTR || !kb.IsInt64() || p.exprKey(x) == "" {
			return true
		}
		// the division in the body
		var div *big.Int
		for _, s := range loop.Body.List {
			es, ok := s.(*ast.ExprStmt)
			if !ok {
				continue
			}
			call, ok := es.X.(*ast.CallExpr)
			if !ok || !strings.HasSuffix(p.calleeName(call), "big.Int.QuoRem") || len(call.Args) != 3 {
				continue
			}
			if k, ok := bigConst[p.objOf(call.Args[1])]; ok {
				div = k
			}
		}
		if div == nil {
			return true
		}
		k, isP := isPow10(div)
		n++
		B := kb.Int64()
		lower := new(big.Int).Lsh(big.NewInt(1), uint(B))
		need := new(big.Int).Mul(cmax, pow10(k-1))
		c.check(isP && lower.Cmp(need) > 0, fmt.Sprintf("bigreduce:bits>%d/10^%d", B, k), loop, fmt.Sprintf("dividing by 10^%d while more than %d bits remain drops only digits that cannot be kept", k, B),
			fmt.Sprintf("FromInt: dividing by %s while the value has more than %d bits can drop digits that would still fit the 34-digit coefficient (needs 2^%d > (5·2^111-1)·10^%d): precision is lost before rounding", div, B, B, k-1), "C10", "C09")
		return true
	})
	if n < 2 {
		c.undecided("bigreduce.count", fd, fmt.Sprintf("only %d big.Int reduction loops found in FromInt", n), "C10")
	}
}

// Narrowing a limb value: `uint256{x[0], x[1], x[2], x[3]}` built from a wider x keeps the value only if
// the limbs left out are zero. The interval analysis must know them to be [0,0] at that point (a
// preceding loop `for x[4] > 0 { ... }`, a guard, ...).
func ruleNarrowLimbs(c *Ctx) {
	p := c.P
	n := 0
	for _, name := range p.sortedFuncNames() {
		fd := p.Funcs[name]
		if fd.Body == nil {
			continue
		}
		if fd.Recv != nil && strings.HasPrefix(recvTypeName(fd.Recv.List[0].Type), "uint") {
			continue
		}
		k := 0
		walkStack(fd.Body, func(nd ast.Node, stack []ast.Node) {
			cl, ok := nd.(*ast.CompositeLit)
			if !ok {
				return
			}
			tl := limbsOf(p.typeOf(cl))
			if tl < 1 || len(cl.Elts) != tl {
				return
			}
			srcKey := ""
			var srcExpr ast.Expr
			for i, el := range cl.Elts {
				ix, ok := ast.Unparen(el).(*ast.IndexExpr)
				if !ok {
					return
				}
				j, ok := p.constInt64(ix.Index)
				if !ok || int(j) != i {
					return
				}
				key := p.exprKey(ix.X)
				if key == "" || (srcKey != "" && key != srcKey) {
					return
				}
				srcKey, srcExpr = key, ix.X
			}
			sl := limbsOf(p.typeOf(srcExpr))
			if sl <= tl {
				return
			}
			k++
			n++
			var site ast.Node
			for i := len(stack) - 1; i >= 0; i-- {
				if _, ok := stack[i].(ast.Stmt); ok {
					site = stack[i]
					break
				}
			}
			missing := ""
			if site == nil {
				missing = "?"
			} else {
				save := p.ivCurFn
				p.ivCurFn = fd
				env, reached := p.envWalk(fd.Body.List, p.paramEnv(fd), site)
				p.ivCurFn = save
				if !reached {
					missing = "?"
				} else if !env.isBottom() {
					for j := tl; j < sl; j++ {
						iv, ok := env[srcKey+"["+itoa(j)+"]"]
						iv = meetIval(iv, ival{lo: big.NewInt(0), hi: new(big.Int).SetUint64(^uint64(0))}) // a limb is an unsigned word
						if pt, isPt := iv.point(); !ok || !isPt || pt.Sign() != 0 {
							missing += fmt.Sprintf(" %s[%d]", p.exprStr(srcExpr), j)
						}
					}
				}
			}
			c.check(missing == "", fmt.Sprintf("narrowlimbs:%s#%d", name, k), cl, fmt.Sprintf("the %d upper limbs left out are known to be zero", sl-tl),
				fmt.Sprintf("%s: `%s` keeps the low %d limbs of a %d-limb value, but%s is not known to be zero here: the upper part of the value is silently dropped", name, p.exprStr(cl), tl, sl, missing), funcProps(name)...)
		})
	}
	if n < 8 {
		c.undecided("narrowlimbs.count", nil, fmt.Sprintf("only %d limb narrowings found", n))
	}
}

// Working precision of the 192-bit kernels: the loops that produce further quotient digits in
// decomposed192.quo / rcp and in QuoWithMode run while the remainder is non-zero and the quotient can
// still take a digit. The bound on the quotient's top word must let it grow to 57 digits
// ((B+1)·2^128 >= 10^56), otherwise the working precision silently drops below what the 1-ulp
// results built on it assume.
func ruleQuotientPrecision(c *Ctx) {
	p := c.P
	need := pow10(56)
	n := 0
	for _, fn := range []string{"decomposed192.quo", "decomposed192.rcp"} {
		fd := c.fn(fn)
		if fd == nil {
			continue
		}
		k := 0
		ast.Inspect(fd.Body, func(nd ast.Node) bool {
			loop, ok := nd.(*ast.ForStmt)
			if !ok || loop.Cond == nil {
				return true
			}
			hasRem := false
			var bound *big.Int
			var bexpr ast.Expr
			for _, cj := range conjuncts(loop.Cond) {
				if _, isZero, ok := p.wholeZeroTest(cj); ok && !isZero {
					hasRem = true
					continue
				}
				x, op, kv, ok := p.normCmp(cj)
				if !ok {
					continue
				}
				if ix, isIx := ast.Unparen(x).(*ast.IndexExpr); isIx && limbsOf(p.typeOf(ix.X)) == 3 {
					if i, ok := p.constInt64(ix.Index); ok && i == 2 {
						switch op {
						case token.LEQ:
							bound, bexpr = kv, cj
						case token.EQL:
							bound, bexpr = kv, cj // sig[2] == c continues only at that value: at most c
						}
					}
				}
			}
			if !hasRem || bound == nil {
				return true
			}
			k++
			n++
			reach := new(big.Int).Add(bound, big.NewInt(1))
			reach.Lsh(reach, 128)
			c.check(reach.Cmp(need) >= 0, fmt.Sprintf("quoprec:%s#%d", fn, k), loop, "digits are produced until the quotient holds 57 digits",
				fmt.Sprintf("%s: the loop that produces further quotient digits stops when `%s` fails, i.e. once the quotient reaches (%#x+1)·2^128 - fewer than 57 digits: every function built on this kernel loses working precision", fn, p.exprStr(bexpr), bound), "C16", "C17", "C18")
			return true
		})
	}
	if n < 2 {
		c.undecided("quoprec.count", nil, fmt.Sprintf("only %d digit-producing loops found in decomposed192.quo/rcp", n), "C16")
	}
}

// Stale wide copy: after `y := uint128{x[0], x[1]}` (x narrowed into y) the computation continues on y.
// A later read of x - once y has been modified - looks at a value that is no longer current.
func ruleStaleWide(c *Ctx) {
	p := c.P
	n := 0
	for _, name := range p.sortedFuncNames() {
		fd := p.Funcs[name]
		if fd.Body == nil {
			continue
		}
		if fd.Recv != nil && strings.HasPrefix(recvTypeName(fd.Recv.List[0].Type), "uint") {
			continue
		}
		k := 0
		walkStack(fd.Body, func(nd ast.Node, stack []ast.Node) {
			as, ok := nd.(*ast.AssignStmt)
			if !ok || len(as.Lhs) != 1 || len(as.Rhs) != 1 {
				return
			}
			cl, ok := ast.Unparen(as.Rhs[0]).(*ast.CompositeLit)
			if !ok || limbsOf(p.typeOf(cl)) < 1 || len(cl.Elts) == 0 {
				return
			}
			ykey := p.exprKey(as.Lhs[0])
			var xObj types.Object
			for i, el := range cl.Elts {
				ix, ok := ast.Unparen(el).(*ast.IndexExpr)
				if !ok {
					return
				}
				if j, ok := p.constInt64(ix.Index); !ok || int(j) != i {
					return
				}
				o := p.objOf(ix.X)
				if o == nil || (xObj != nil && o != xObj) {
					return
				}
				xObj = o
			}
			if xObj == nil || ykey == "" || limbsOf(xObj.Type()) <= len(cl.Elts) {
				return
			}
			k++
			n++
			// first modification of y after the narrowing, then any read of x after that
			firstMod := token.NoPos
			ast.Inspect(fd.Body, func(m ast.Node) bool {
				if st, ok := m.(*ast.AssignStmt); ok && st.Pos() > as.End() && p.assignsTo(st, ykey) {
					if firstMod == token.NoPos || st.Pos() < firstMod {
						firstMod = st.Pos()
					}
				}
				return true
			})
			stale := ""
			if firstMod != token.NoPos {
				// x itself reassigned later makes it current again
				ast.Inspect(fd.Body, func(m ast.Node) bool {
					id, ok := m.(*ast.Ident)
					if !ok || p.Info.Uses[id] != xObj || id.Pos() < firstMod || stale != "" {
						return true
					}
					reassigned := false
					xkey := fmt.Sprintf("%s@%d", xObj.Name(), xObj.Pos())
					ast.Inspect(fd.Body, func(q ast.Node) bool {
						if st, ok := q.(*ast.AssignStmt); ok && st.Pos() > as.End() && st.End() <= id.Pos() && p.assignsTo(st, xkey) {
							reassigned = true
						}
						return true
					})
					if !reassigned {
						stale = p.posStr(id)
					}
					return true
				})
			}
			c.check(stale == "", fmt.Sprintf("stalewide:%s#%d", name, k), as, "the wide value is not read again after its narrowed copy has been modified",
				fmt.Sprintf("%s: %s was narrowed into %s, which is modified afterwards, and %s is still read at %s: that is the value from before the narrowing", name, xObj.Name(), p.exprStr(as.Lhs[0]), xObj.Name(), stale), funcProps(name)...)
		})
	}
	if n < 6 {
		c.undecided("stalewide.count", nil, fmt.Sprintf("only %d limb narrowings found", n))
	}
}

// emptyForEmpty reports whether `x = rhs` (the statement as) replaces a slice known to be empty by a fresh
// empty one: rhs is make(T, 0[, n]) and the assignment is the first statement touching x in the body of an
// `if cap(x) == 0` or `if len(x) == 0`.
func emptyForEmpty(p *Prog, rhs ast.Expr, x types.Object, as *ast.AssignStmt, stack []ast.Node) bool {
	call, ok := ast.Unparen(rhs).(*ast.CallExpr)
	if !ok || p.calleeName(call) != "builtin.make" || len(call.Args) < 2 {
		return false
	}
	if v, ok := p.constInt64(call.Args[1]); !ok || v != 0 {
		return false
	}
	if len(stack) < 2 {
		return false
	}
	blk, ok := stack[len(stack)-1].(*ast.BlockStmt)
	if !ok {
		return false
	}
	ifs, ok := stack[len(stack)-2].(*ast.IfStmt)
	if !ok || ifs.Body != blk || ifs.Init != nil {
		return false
	}
	be, ok := ast.Unparen(ifs.Cond).(*ast.BinaryExpr)
	if !ok || be.Op != token.EQL {
		return false
	}
	l, r := be.X, be.Y
	if v, ok := p.constInt64(l); ok && v == 0 {
		l, r = r, l
	}
	if v, ok := p.constInt64(r); !ok || v != 0 {
		return false
	}
	lc, ok := ast.Unparen(l).(*ast.CallExpr)
	if !ok || len(lc.Args) != 1 || p.objOf(lc.Args[0]) != x {
		return false
	}
	if n := p.calleeName(lc); n != "builtin.cap" && n != "builtin.len" {
		return false
	}
	// nothing in the body before the assignment writes x
	for _, st := range blk.List {
		if st == ast.Stmt(as) {
			return true
		}
		wrote := false
		ast.Inspect(st, func(m ast.Node) bool {
			if a, ok := m.(*ast.AssignStmt); ok {
				for _, lh := range a.Lhs {
					if p.objOf(lh) == x {
						wrote = true
					}
				}
			}
			return true
		})
		if wrote {
			return false
		}
	}
	return false
}

// Exponent floor (E7.expfloor): the biased exponent handed to compose is packed as uint64(exp) << 49,
// so a negative value sign-extends into the sign and combination bits. Every compose site must see an
// exponent argument whose interval (multi-variable interval analysis, interprocedural summaries for the
// rounding kernel) has a lower bound >= minBiasedExponent.
func ruleComposeExpFloor(c *Ctx) {
	p := c.P
	n := 0
	for _, name := range p.sortedFuncNames() {
		fd := p.Funcs[name]
		if fd.Body == nil || name == "compose" {
			continue
		}
		k := 0
		walkStack(fd.Body, func(nd ast.Node, stack []ast.Node) {
			call, ok := nd.(*ast.CallExpr)
			if !ok || !p.isPkgFunc(call, "compose") || len(call.Args) != 3 {
				return
			}
			k++
			n++
			key := fmt.Sprintf("expfloor:%s#%d", name, k)
			fp := append([]string{"C12"}, funcProps(name)...)
			iv := p.intervalAt(fd, call.Args[2], append(append([]ast.Node{}, stack...), nd))
			if os.Getenv("DVERIF_DEBUG") == key {
				var site ast.Node
				for i := len(stack) - 1; i >= 0; i-- {
					if _, ok := stack[i].(ast.Stmt); ok {
						site = stack[i]
						break
					}
				}
				p.ivCurFn = fd
				env, _ := p.envWalk(fd.Body.List, p.paramEnv(fd), site)
				for k, v := range env {
					fmt.Fprintf(os.Stderr, "DEBUG %s: %q = [%v, %v]\n", key, k, v.lo, v.hi)
				}
			}
			desc := "unbounded below"
			okc := false
			if iv.lo != nil {
				desc = fmt.Sprintf(">= %s", iv.lo)
				okc = iv.lo.Sign() >= 0
			}
			c.check(okc, key, call, "the exponent handed to compose is not negative ("+desc+")",
				fmt.Sprintf("%s: the biased exponent handed to compose is %s here; compose shifts it into the exponent field unchecked, so a negative value overwrites the sign and combination bits", name, desc), fp...)
		})
	}
	if n < 30 {
		c.undecided("expfloor.count", nil, fmt.Sprintf("only %d compose call sites found", n))
	}
}

// Kernel half of E7.expfloor: the interval analysis assumes (envStep) that the exponent returned by
// reduceN / round is >= 0. That contract is decided here: inside each of those functions every returned
// exponent has a non-negative lower bound, and round is only called with a non-negative exponent.
func ruleKernelExpFloor(c *Ctx) {
	p := c.P
	n := 0
	// Assumption (stated in the evidence): the exponent increment on round's carry path (exp++ after a
	// carry out of the 34th digit) does not overflow int16. It would need an exponent of 32767 at that
	// point; callers form exponents from sums of two 14-bit fields and small constants. The lower bound is
	// decided in mathematical integers for that one variable.
	if rfd := p.Funcs["RoundingMode.round"]; rfd != nil && rfd.Type.Params != nil {
		for _, f := range rfd.Type.Params.List {
			for _, nm := range f.Names {
				if b, ok := p.typeOf(nm).(*types.Basic); ok && b.Kind() == types.Int16 {
					if p.ivNoIncWrap == nil {
						p.ivNoIncWrap = map[string]bool{}
					}
					p.ivNoIncWrap[p.ikey(nm)] = true
				}
			}
		}
	}
	isKernel := func(cn string) bool {
		return strings.HasPrefix(cn, "RoundingMode.reduce") || cn == "RoundingMode.round"
	}
	for _, name := range p.sortedFuncNames() {
		fd := p.Funcs[name]
		if fd.Body == nil {
			continue
		}
		k := 0
		walkStack(fd.Body, func(nd ast.Node, stack []ast.Node) {
			full := append(append([]ast.Node{}, stack...), nd)
			if call, ok := nd.(*ast.CallExpr); ok && p.calleeName(call) == "RoundingMode.round" {
				callee := p.Funcs["RoundingMode.round"]
				if callee == nil || callee.Type.Params == nil {
					return
				}
				idx, pi := -1, 0
				for _, f := range callee.Type.Params.List {
					for range f.Names {
						if b, ok := p.typeOf(f.Type).(*types.Basic); ok && b.Kind() == types.Int16 && idx < 0 {
							idx = pi
						}
						pi++
					}
				}
				if idx < 0 || idx >= len(call.Args) {
					return
				}
				k++
				n++
				iv := p.intervalAt(fd, call.Args[idx], full)
				desc := "unbounded below"
				if iv.lo != nil {
					desc = ">= " + iv.lo.String()
				}
				c.check(iv.lo != nil && iv.lo.Sign() >= 0, fmt.Sprintf("expfloor.roundarg:%s#%d", name, k), call, "round receives a non-negative exponent ("+desc+")",
					fmt.Sprintf("%s: the exponent passed to round is %s here; the drop loop in front of it must have brought the exponent up to the minimum (or reset it when the coefficient ran out)", name, desc), append([]string{"C12"}, funcProps(name)...)...)
				return
			}
			if !isKernel(name) {
				return
			}
			ret, ok := nd.(*ast.ReturnStmt)
			if !ok {
				return
			}
			for _, a := range stack {
				if _, isLit := a.(*ast.FuncLit); isLit {
					return
				}
			}
			if len(ret.Results) == 1 {
				if call, ok := ast.Unparen(ret.Results[0]).(*ast.CallExpr); ok && isKernel(p.calleeName(call)) {
					return // the callee's own returns are decided
				}
			}
			if len(ret.Results) != 2 {
				k++
				c.undecided(fmt.Sprintf("expfloor.ret:%s#%d", name, k), ret, name+": a return of the rounding kernel that is neither a pair nor a call of the kernel")
				return
			}
			if name != "RoundingMode.round" {
				// reduceN hands every result to round: the directed modes and the tie rules decide even when all
				// digits have been shifted out (a tiny non-zero value rounds away from zero to the smallest subnormal)
				k++
				n++
				c.bad(fmt.Sprintf("kernelret:%s#%d", name, k), ret, name+": this return leaves the reduction without going through round(); the rounding decision (directed modes, ties, sticky flag) is skipped for the inputs that reach it", append([]string{"C12"}, allArithProps...)...)
				return
			}
			k++
			n++
			iv := p.intervalAt(fd, ret.Results[1], full)
			if os.Getenv("DVERIF_DEBUG") == "round" {
				for _, rn := range []string{"RoundingMode.reduce64", "RoundingMode.reduce128", "RoundingMode.reduce192", "RoundingMode.reduce256"} {
					for k, v := range p.paramEnv(p.Funcs[rn]) {
						fmt.Fprintf(os.Stderr, "DEBUG param %s: %q = [%v, %v]\n", rn, k, v.lo, v.hi)
					}
				}
				pe := p.paramEnv(fd)
				for k, v := range pe {
					fmt.Fprintf(os.Stderr, "DEBUG param %s: %q = [%v, %v]\n", name, k, v.lo, v.hi)
				}
				p.ivCurFn = fd
				env, _ := p.envWalk(fd.Body.List, pe, ret)
				for k, v := range env {
					fmt.Fprintf(os.Stderr, "DEBUG %s: %q = [%v, %v]\n", name, k, v.lo, v.hi)
				}
			}
			desc := "unbounded below"
			if iv.lo != nil {
				desc = ">= " + iv.lo.String()
			}
			c.check(iv.lo != nil && iv.lo.Sign() >= 0, fmt.Sprintf("expfloor.ret:%s#%d", name, k), ret, "the rounding kernel returns a non-negative exponent ("+desc+")",
				fmt.Sprintf("%s: the exponent returned is %s; callers hand it to compose, which packs it unchecked", name, desc), append([]string{"C12"}, allArithProps...)...)
		})
	}
	if n < 6 {
		c.undecided("expfloor.kernel.count", nil, fmt.Sprintf("only %d kernel exponent sites found", n))
	}
}
