package main

import (
	"fmt"
	"math/big"
	"strconv"
	"strings"
	"testing"
)

// The reference formatter used by E10.verbs must agree with package fmt / strconv on float64 values whose
// exact decimal expansion is short (so that "shortest" and "exact" coincide).
func TestOracleAgainstFmt(t *testing.T) {
	vals := []float64{0, 0.5, 0.25, 0.125, 1, 7, 1.5, 2.5, 12.5, 0.375, 1234.5, 123456, 1234567, 100000, 1e6, 1e20, 1e21, 1e22,
		99.96875, 999, 9.5, 0.0009765625, 0.00006103515625, 123456789, 4294967295, 0.75, 6.25, 1023.9990234375, 9999999, 99999.5, 8.5, 0.0625, 655.36328125}
	for _, x := range vals {
		// exact decimal digits
		s := new(big.Float).SetFloat64(x).Text('f', 60)
		s = strings.TrimRight(s, "0")
		ip, fp, _ := strings.Cut(s, ".")
		D := strings.TrimLeft(ip+fp, "0")
		e := -len(fp)
		for strings.HasSuffix(D, "0") {
			D = strings.TrimSuffix(D, "0")
			e++
		}
		if D == "" {
			e = 0
		}
		if len(D) > 16 {
			t.Fatalf("%v has too many digits for this test", x)
		}
		for _, neg := range []bool{false, true} {
			v := x
			if neg {
				v = -x
				if x == 0 {
					continue
				}
			}
			for _, verb := range []byte{'e', 'E', 'f', 'F', 'g', 'G'} {
				for prec := -1; prec <= 25; prec++ {
					if verb != 'F' {
						want := strconv.FormatFloat(v, verb, prec, 64)
						got := refStrconv(D, e, verb, prec)
						if neg {
							got = "-" + got
						}
						if got != want {
							t.Errorf("strconv %v %c %d: ref %q, strconv %q", v, verb, prec, got, want)
						}
					}
					for fl := 0; fl < 8; fl++ {
						sharp, plus, space := fl&1 != 0, fl&2 != 0, fl&4 != 0
						spec := "%" + flagStr(sharp, plus, space) + precStr(prec) + string(rune(verb))
						want := fmt.Sprintf(spec, v)
						got := refFmt(neg, D, e, verb, prec, sharp, plus, space)
						if got != want {
							t.Errorf("fmt %s of %v: ref %q, fmt %q", spec, v, got, want)
						}
					}
				}
			}
		}
	}
}
