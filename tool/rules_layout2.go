package main

import (
	"fmt"
	"go/ast"
	"go/token"
	"go/types"
	"math/big"
)

// byte tables of MarshalBinary / UnmarshalBinary / Decompose.

func ruleLayoutBinary(c *Ctx) {
	p := c.P
	c.check(p.decimalFieldOrder(), "decimal.fields", nil, "type Decimal struct{lo, hi uint64}", "type Decimal must be struct{lo, hi uint64}")
	word := func(name string) peVal { return peBits{inputVec(name, 64), 64} }
	// --- writer: evaluated once with every bit of d.lo / d.hi symbolic
	if fd := c.fn("Decimal.MarshalBinary"); fd != nil {
		ev := &peEval{p: p}
		recv := &peStruct{f: map[string]peVal{"lo": word("d.lo"), "hi": word("d.hi")}}
		res, why := ev.run(fd, recv, nil)
		var out peSlice
		okShape := why == "" && len(res) == 2
		if okShape {
			var isSl bool
			out, isSl = res[0].(peSlice)
			_, nilErr := res[1].(peNil)
			okShape = isSl && out.arr != nil && nilErr
			if !okShape {
				why = fmt.Sprintf("returns (%T, %T)", res[0], res[1])
			}
		}
		if !okShape {
			c.undecided("marshal.shape", fd, "MarshalBinary could not be evaluated to (16 bytes, nil) with symbolic words: "+why)
		} else {
			c.ok("marshal.shape", fd, fmt.Sprintf("evaluated with all 128 input bits symbolic (%d steps): returns (bytes, nil) on the only path", ev.steps))
			c.check(out.n == 16, "marshal.complete", fd, "16 bytes returned", fmt.Sprintf("%d bytes returned, want 16", out.n))
			for k := 0; k < 16 && k < out.n; k++ {
				got := out.arr.cells[out.off+k]
				src, base := "d.hi", 56-8*k
				if k >= 8 {
					src, base = "d.lo", 56-8*(k-8)
				}
				want := expectVec([]run{{7, 0, src, base}}, nil)
				c.check(got == want, fmt.Sprintf("marshal.byte[%d]", k), fd, fmt.Sprintf("= %s[%d..%d]", src, base+7, base),
					fmt.Sprintf("MarshalBinary byte %d is %s; big-endian hi‖lo requires %s", k, got.describe(), want.describe()))
			}
		}
	}
	// --- reader
	if fd := c.fn("Decimal.UnmarshalBinary"); fd != nil {
		if len(paramObjs(p, fd)) != 1 {
			c.undecided("unmarshal.shape", fd, "UnmarshalBinary(data []byte) error expected")
			return
		}
		// (a) every length other than 16: a non-nil error and no store through the receiver
		okGuard, whyGuard := true, ""
		for _, rg := range [][2]int64{{0, 15}, {17, -1}} {
			ev := &peEval{p: p}
			target := &peStruct{f: map[string]peVal{"lo": word("old.lo"), "hi": word("old.hi")}}
			res, why := ev.run(fd, pePtr{target}, []peVal{peSlice{lenLo: rg[0], lenHi: rg[1]}})
			switch {
			case why != "":
				okGuard, whyGuard = false, why
			case len(res) != 1:
				okGuard, whyGuard = false, "result shape"
			default:
				if _, isErr := res[0].(peErr); !isErr {
					okGuard, whyGuard = false, fmt.Sprintf("a length in [%d,%d] returns %T instead of an error", rg[0], rg[1], res[0])
				}
				if len(ev.stores) > 0 {
					okGuard, whyGuard = false, "the receiver is written at "+ev.stores[0]+" although the length is wrong"
				}
			}
		}
		c.check(okGuard, "unmarshal.guard", fd, "every length other than 16 returns a non-nil error before any read or store (evaluated for len in [0,15] and [17,∞))", "UnmarshalBinary must reject every length other than 16 before reading or storing anything: "+whyGuard)
		// (b) length 16 with every data bit symbolic
		ev := &peEval{p: p}
		cells := make([]bitvec, 16)
		for k := range cells {
			cells[k] = inputVec(fmt.Sprintf("data%d", k), 8)
		}
		target := &peStruct{f: map[string]peVal{"lo": word("old.lo"), "hi": word("old.hi")}}
		res, why := ev.run(fd, pePtr{target}, []peVal{peSlice{arr: &peCells{cells}, n: 16}})
		okShape := why == "" && len(res) == 1
		if okShape {
			if _, isNil := res[0].(peNil); !isNil {
				okShape, why = false, fmt.Sprintf("16 bytes return %T, want nil", res[0])
			}
		}
		lo, okLo := target.f["lo"].(peBits)
		hi, okHi := target.f["hi"].(peBits)
		if okShape && (!okLo || !okHi) {
			okShape, why = false, "the stored words are not tracked integers"
		}
		if !okShape {
			c.undecided("unmarshal.shape", fd, "UnmarshalBinary could not be evaluated on 16 symbolic bytes: "+why)
			return
		}
		c.ok("unmarshal.shape", fd, fmt.Sprintf("evaluated with all 128 data bits symbolic (%d steps): stores the receiver and returns nil on the only path", ev.steps))
		words := []bitvec{lo.bv, hi.bv}
		for w, name := range []string{"lo", "hi"} {
			var runs []run
			for j := 0; j < 8; j++ {
				k := 15 - j
				if name == "hi" {
					k = 7 - j
				}
				runs = append(runs, run{8*j + 7, 8 * j, fmt.Sprintf("data%d", k), 0})
			}
			want := expectVec(runs, nil)
			c.check(words[w] == want, "unmarshal.word."+name, fd, name+" assembled big-endian from data",
				fmt.Sprintf("UnmarshalBinary builds %s = %s; the inverse of the writer requires %s", name, words[w].describe(), want.describe()))
		}
		for k := 0; k < 16; k++ {
			w, j := 1, 7-k
			if k >= 8 {
				w, j = 0, 15-k
			}
			okb := true
			for b := 0; b < 8; b++ {
				bt := words[w][8*j+b]
				if bt.k != 'i' || bt.src != fmt.Sprintf("data%d", k) || bt.idx != b {
					okb = false
				}
			}
			c.check(okb, fmt.Sprintf("unmarshal.byte[%d]", k), fd, "inverse of the writer's table entry", fmt.Sprintf("reader byte %d is not the inverse of writer byte %d", k, k))
		}
	}
}

func isMakeBytes(p *Prog, e ast.Expr, n int64) bool {
	call, ok := ast.Unparen(e).(*ast.CallExpr)
	if !ok || p.calleeName(call) != "builtin.make" || len(call.Args) != 2 {
		return false
	}
	tv, ok := p.Info.Types[call.Args[0]]
	if !ok || !tv.IsType() {
		return false
	}
	sl, ok := tv.Type.Underlying().(*types.Slice)
	if !ok || !types.Identical(sl.Elem(), types.Typ[types.Uint8]) {
		return false
	}
	k, ok := p.constInt64(call.Args[1])
	return ok && k == n
}

// Decompose's coefficient byte table.
func ruleLayoutDecompose(c *Ctx) {
	p := c.P
	fd := c.fn("Decimal.Decompose")
	if fd == nil {
		return
	}
	// find the 16 stores sig[k] = byte(sig128[w] >> s)
	var sigObj, srcObj types.Object
	seen := map[int64]bool{}
	// the stores may have been moved into a helper `put(dst, coefficient)`: analyse its body with
	// dst standing for sig and its coefficient parameter for the decompose result
	storeBody := ast.Node(fd.Body)
	var helperSig, helperSrc types.Object // the helper's parameters
	var callerSig, callerSrc types.Object // what the caller passes for them
	direct := false
	ast.Inspect(fd.Body, func(n ast.Node) bool {
		if as, ok := n.(*ast.AssignStmt); ok && len(as.Lhs) == 1 {
			if ix, ok := as.Lhs[0].(*ast.IndexExpr); ok {
				if o := p.objOf(ix.X); o != nil && o.Name() == "sig" {
					direct = true
				}
			}
		}
		return true
	})
	if !direct {
		for _, st := range fd.Body.List {
			es, ok := st.(*ast.ExprStmt)
			if !ok {
				continue
			}
			call, ok := es.X.(*ast.CallExpr)
			if !ok {
				continue
			}
			cfd := p.Funcs[p.calleeName(call)]
			if cfd == nil || cfd.Body == nil || cfd.Name.IsExported() {
				continue
			}
			cps := paramObjs(p, cfd)
			for i, a := range call.Args {
				if i >= len(cps) {
					break
				}
				o := p.objOf(a)
				if o == nil {
					continue
				}
				if o.Name() == "sig" {
					helperSig, callerSig = cps[i], o
				} else if limbsOf(o.Type()) == 2 {
					helperSrc, callerSrc = cps[i], o
				}
			}
			if helperSig != nil && helperSrc != nil {
				storeBody = cfd.Body
				break
			}
			helperSig, helperSrc = nil, nil
		}
	}
	ast.Inspect(storeBody, func(n ast.Node) bool {
		as, ok := n.(*ast.AssignStmt)
		if !ok || as.Tok != token.ASSIGN || len(as.Lhs) != 1 || len(as.Rhs) != 1 {
			return true
		}
		ix, ok := as.Lhs[0].(*ast.IndexExpr)
		if !ok {
			return true
		}
		k, ok := p.constInt64(ix.Index)
		if !ok {
			return true
		}
		o := p.objOf(ix.X)
		if helperSig != nil {
			if o != helperSig {
				return true
			}
			sigObj, srcObj = helperSig, helperSrc
		} else if o == nil || o.Name() != "sig" {
			return true
		}
		if sigObj == nil {
			sigObj = o
		}
		// source variable: the first result of d.decompose()
		if srcObj == nil {
			ast.Inspect(as.Rhs[0], func(m ast.Node) bool {
				if iy, ok := m.(*ast.IndexExpr); ok && srcObj == nil {
					srcObj = p.objOf(iy.X)
				}
				return true
			})
		}
		env := &bvEnv{p: p, vars: map[types.Object]bitvec{}}
		env.inputs = p.leafInputs(map[types.Object]string{srcObj: "c"}, nil, nil)
		got := env.eval(as.Rhs[0])
		src, base := "c1", int(56-8*k)
		if k >= 8 {
			src, base = "c0", int(56-8*(k-8))
		}
		want := expectVec([]run{{7, 0, src, base}}, nil)
		if seen[k] {
			c.bad(fmt.Sprintf("decompose.byte[%d].dup", k), as, "coefficient byte written twice", "C14")
		}
		seen[k] = true
		c.check(got == want, fmt.Sprintf("decompose.byte[%d]", k), as, fmt.Sprintf("= %s[%d..%d]", src, base+7, base),
			fmt.Sprintf("Decompose coefficient byte %d is %s; big-endian requires %s", k, got.describe(), want.describe()), "C14")
		return true
	})
	c.check(len(seen) == 16, "decompose.complete", fd, "16 coefficient bytes written", fmt.Sprintf("%d coefficient bytes written, want 16", len(seen)), "C14")
	// the stores are unconditional: a reused buffer may hold stale bytes
	cond := 0
	if helperSig != nil {
		// in the helper every store must be a top-level statement, and the call itself is one in Decompose (found above)
		for _, st := range storeBody.(*ast.BlockStmt).List {
			if _, isAssign := st.(*ast.AssignStmt); !isAssign {
				ast.Inspect(st, func(n ast.Node) bool {
					if as, ok := n.(*ast.AssignStmt); ok && len(as.Lhs) == 1 {
						if ix, ok := as.Lhs[0].(*ast.IndexExpr); ok && p.objOf(ix.X) == helperSig {
							cond++
						}
					}
					return true
				})
			}
		}
		sigObj, srcObj = callerSig, callerSrc
	}
	for _, st := range fd.Body.List {
		if _, isAssign := st.(*ast.AssignStmt); isAssign {
			continue
		}
		ast.Inspect(st, func(n ast.Node) bool {
			as, ok := n.(*ast.AssignStmt)
			if !ok || len(as.Lhs) != 1 {
				return true
			}
			if ix, ok := as.Lhs[0].(*ast.IndexExpr); ok && p.objOf(ix.X) == sigObj && sigObj != nil {
				cond++
			}
			return true
		})
	}
	c.check(cond == 0, "decompose.unconditional", fd, "all 16 byte stores are unconditional", fmt.Sprintf("Decompose writes %d coefficient bytes only conditionally; with a caller-supplied buffer the skipped bytes keep stale contents", cond), "C14")
	// the source must be the coefficient of d.decompose()
	okSrc := false
	ast.Inspect(fd.Body, func(n ast.Node) bool {
		as, ok := n.(*ast.AssignStmt)
		if !ok || len(as.Lhs) != 2 || len(as.Rhs) != 1 {
			return true
		}
		call, ok := as.Rhs[0].(*ast.CallExpr)
		if ok && p.isPkgFunc(call, "Decimal.decompose") && p.objOf(as.Lhs[0]) == srcObj && srcObj != nil {
			if sel, ok := call.Fun.(*ast.SelectorExpr); ok && p.objOf(sel.X) == recvObj(p, fd) {
				okSrc = true
			}
		}
		return true
	})
	c.check(okSrc, "decompose.source", fd, "bytes come from the coefficient of d.decompose()", "Decompose's bytes must come from the receiver's own coefficient", "C14")
}

// Every Decimal literal outside compose decodes to what its constructor claims.
func ruleLayoutLiterals(c *Ctx) {
	p := c.P
	type lit struct {
		fn   string
		node *ast.CompositeLit
		lo   uint64
		hi   uint64
		cnst bool
		n    int
	}
	var lits []lit
	decT := p.Pkg.Types.Scope().Lookup("Decimal")
	if decT == nil {
		c.undecided("lits", nil, "type Decimal not found")
		return
	}
	isDecimalLit := func(cl *ast.CompositeLit) bool {
		tv, ok := p.Info.Types[cl]
		return ok && types.Identical(tv.Type, decT.Type())
	}
	collect := func(fn string, root ast.Node) {
		ast.Inspect(root, func(n ast.Node) bool {
			cl, ok := n.(*ast.CompositeLit)
			if !ok || !isDecimalLit(cl) {
				return true
			}
			l := lit{fn: fn, node: cl, n: len(cl.Elts)}
			if len(cl.Elts) == 0 {
				l.cnst = true
			} else if len(cl.Elts) == 2 {
				lo, ok1 := p.constUint64(cl.Elts[0])
				hi, ok2 := p.constUint64(cl.Elts[1])
				if _, kv := cl.Elts[0].(*ast.KeyValueExpr); kv {
					ok1 = false
				}
				l.lo, l.hi, l.cnst = lo, hi, ok1 && ok2
			}
			lits = append(lits, l)
			return true
		})
	}
	for _, name := range p.sortedFuncNames() {
		if fd := p.Funcs[name]; fd.Body != nil {
			collect(name, fd.Body)
		}
	}
	for _, v := range []string{"e", "phi", "pi"} {
		if init := p.pkgVarInit(v); init != nil {
			collect("var:"+v, init)
		}
	}
	// who may construct a Decimal from raw words
	allowedRaw := map[string]string{
		"compose": "the encoder", "Abs": "sign bit only (E1)", "Decimal.Neg": "sign bit only (E1)",
		"Decimal.UnmarshalBinary": "the binary reader", "nan": "payload packing (E2.payload)",
	}
	decode := func(lo, hi uint64) (class string, neg bool, coef *big.Int, exp int) {
		neg = hi>>63 == 1
		g := hi >> 58 & 0x1f
		switch {
		case g == 0x1f:
			return "nan", neg, new(big.Int).SetUint64(lo), 0
		case g == 0x1e:
			return "inf", neg, big.NewInt(0), 0
		}
		cf := new(big.Int)
		if hi>>61&3 == 3 {
			cf.SetUint64(hi&(1<<47-1) | 1<<49)
			exp = int(hi >> 47 & 0x3fff)
		} else {
			cf.SetUint64(hi & (1<<49 - 1))
			exp = int(hi >> 49 & 0x3fff)
		}
		cf.Lsh(cf, 64)
		cf.Or(cf, new(big.Int).SetUint64(lo))
		return "fin", neg, cf, exp - 6176
	}
	cnt := 0
	perFn := map[string]int{}
	for _, l := range lits {
		perFn[l.fn]++
		key := fmt.Sprintf("lit:%s#%d", l.fn, perFn[l.fn])
		if !l.cnst {
			if why, ok := allowedRaw[l.fn]; ok {
				c.ok(key, l.node, "raw-word constructor allowed: "+why)
			} else {
				c.bad(key, l.node, l.fn+" builds a Decimal from non-constant raw words; only compose, Abs, Neg, nan and UnmarshalBinary may (who-may-construct)")
			}
			continue
		}
		cnt++
		class, neg, coef, exp := decode(l.lo, l.hi)
		desc := fmt.Sprintf("%s neg=%v coef=%s exp=%d", class, neg, coef, exp)
		var ok bool
		var want string
		// position inside the function: which branch? decide by sign bit for
		// the four bool-parameter constructors (both literals must exist).
		switch l.fn {
		case "inf":
			ok, want = class == "inf" && l.lo == 0 && l.hi&^(1<<63) == 0x1e<<58, "bare ±Inf"
		case "zero":
			ok, want = class == "fin" && coef.Sign() == 0 && l.hi&^(1<<63) == 0 && l.lo == 0, "bare ±0"
		case "one":
			ok, want = class == "fin" && coef.Cmp(big.NewInt(1)) == 0 && exp == 0, "±1e0"
		case "var:e", "var:phi", "var:pi":
			digits := map[string]string{
				"var:e":   "2718281828459045235360287471352662",
				"var:phi": "1618033988749894848204586834365638",
				"var:pi":  "3141592653589793238462643383279503",
			}[l.fn]
			w, _ := new(big.Int).SetString(digits, 10)
			ok, want = class == "fin" && !neg && coef.Cmp(w) == 0 && exp == -33, digits+"e-33 (34 correctly rounded digits)"
		default:
			// Decimal{} (= +0) used as the value of an error return, etc.
			ok, want = l.n == 0, "Decimal{} only"
		}
		c.check(ok, key, l.node, "decodes to "+desc, fmt.Sprintf("literal in %s decodes to %s, want %s", l.fn, desc, want))
	}
	// both signs present for the bool constructors
	for _, fn := range []string{"inf", "zero", "one"} {
		pos, negs := 0, 0
		for _, l := range lits {
			if l.fn == fn && l.cnst {
				if l.n == 0 || l.hi>>63 == 0 {
					pos++
				} else {
					negs++
				}
			}
		}
		c.check(pos == 1 && negs == 1, "lit.signs:"+fn, nil, "one positive and one negative literal", fmt.Sprintf("%s must have exactly one positive and one negative literal (found %d/%d)", fn, pos, negs))
		// and the negative one is returned under `if neg`
		if fd := c.fn(fn); fd != nil {
			env := p.newCanonEnv(fd)
			got := env.canonStmts(fd.Body.List)
			okb := len(fd.Body.List) == 2
			if okb {
				ifs, ok := fd.Body.List[0].(*ast.IfStmt)
				okb = ok && p.objOf(ifs.Cond) == paramObjs(p, fd)[0] && ifs.Else == nil && len(ifs.Body.List) == 1
				if okb {
					r, ok := ifs.Body.List[0].(*ast.ReturnStmt)
					okb = ok && len(r.Results) == 1
					if okb {
						cl, ok := r.Results[0].(*ast.CompositeLit)
						okb = ok && len(cl.Elts) == 2
						if okb {
							hi, _ := p.constUint64(cl.Elts[1])
							okb = hi>>63 == 1
						}
					}
				}
			}
			c.check(okb, "lit.branch:"+fn, fd, "negative literal returned iff neg", fn+" must return the negative literal exactly under `if neg`: "+got)
		}
	}
	if cnt < 9 {
		c.undecided("lit.count", nil, fmt.Sprintf("only %d constant Decimal literals found", cnt))
	}
}
