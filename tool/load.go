package main

import (
	"fmt"
	"go/ast"
	"go/constant"
	"go/token"
	"go/types"
	"os"
	"path/filepath"
	"sort"
	"strings"

	"golang.org/x/tools/go/packages"
)

// Prog is the loaded, type-checked repository package.
type Prog struct {
	Dir   string
	Fset  *token.FileSet
	Pkg   *packages.Package
	Info  *types.Info
	Files []*ast.File
	// Funcs maps "Recv.Name" or "Name" to the declaration.
	Funcs map[string]*ast.FuncDecl
	// FuncObj maps a function object to its declaration.
	FuncObj      map[*types.Func]*ast.FuncDecl
	NFuncs       int
	normPost     bool
	ivFrames     []*ivFrame // interval analysis: open loops (break/continue environments)
	ivDepth      int
	ivDivK       map[string]divKInfo
	ivCurSite    ast.Node
	ivInLin      bool
	linEnv       ienv
	ivParamAssume map[*ast.FuncDecl]ienv
	ivNoIncWrap  map[string]bool
	linOpaque    map[string]ival
	ivCurFn      *ast.FuncDecl // interval analysis: the function being walked (for symbolic cancellation)
	ivCallDepth  int
	ivRets       []*ivRetFrame
	ivZeroCoef   bool // interval analysis: assume decompose returns a zero coefficient
	ivParamCache map[*ast.FuncDecl]ienv
	asMethod     map[*ast.FuncDecl]bool // functions standing in for a method of their first parameter
	Roles        map[string]string      // rule anchor name -> actual declaration name (renamed unexported helpers)
	Arch         string
}

// load type-checks the package in dir. Any failure is an error: a check must
// never pass because nothing could be analysed.
func load(dir, goarch string) (*Prog, error) {
	env := []string{}
	for _, kv := range os.Environ() {
		if strings.HasPrefix(kv, "GOWORK=") || strings.HasPrefix(kv, "GOFLAGS=") || strings.HasPrefix(kv, "GOARCH=") {
			continue
		}
		env = append(env, kv)
	}
	env = append(env, "GOWORK=off", "GOFLAGS=-mod=mod", "GOPROXY=off", "GOSUMDB=off", "GOTOOLCHAIN=local")
	if goarch != "" {
		env = append(env, "GOARCH="+goarch)
	}
	cfg := &packages.Config{
		Mode: packages.NeedName | packages.NeedFiles | packages.NeedCompiledGoFiles | packages.NeedImports |
			packages.NeedTypes | packages.NeedTypesSizes | packages.NeedSyntax | packages.NeedTypesInfo,
		Dir:   dir,
		Env:   env,
		Tests: false,
	}
	pkgs, err := packages.Load(cfg, ".")
	if err != nil {
		return nil, fmt.Errorf("load %s: %v", dir, err)
	}
	if len(pkgs) != 1 {
		return nil, fmt.Errorf("load %s: expected exactly 1 package, got %d", dir, len(pkgs))
	}
	p := pkgs[0]
	if len(p.Errors) > 0 {
		var sb strings.Builder
		for _, e := range p.Errors {
			sb.WriteString(e.Error())
			sb.WriteString("; ")
		}
		return nil, fmt.Errorf("load %s: package has errors: %s", dir, sb.String())
	}
	if p.Types == nil || p.TypesInfo == nil || len(p.Syntax) == 0 {
		return nil, fmt.Errorf("load %s: no type information", dir)
	}
	if len(p.Syntax) < 12 {
		return nil, fmt.Errorf("load %s: only %d files parsed (expected the whole library)", dir, len(p.Syntax))
	}
	pr := &Prog{Dir: dir, Fset: p.Fset, Pkg: p, Info: p.TypesInfo, Files: p.Syntax,
		Funcs: map[string]*ast.FuncDecl{}, FuncObj: map[*types.Func]*ast.FuncDecl{}, Arch: goarch}
	for _, f := range p.Syntax {
		for _, d := range f.Decls {
			fd, ok := d.(*ast.FuncDecl)
			if !ok {
				continue
			}
			pr.NFuncs++
			name := fd.Name.Name
			if fd.Recv != nil && len(fd.Recv.List) == 1 {
				name = recvTypeName(fd.Recv.List[0].Type) + "." + name
			}
			pr.Funcs[name] = fd
			if obj, ok := pr.Info.Defs[fd.Name].(*types.Func); ok {
				pr.FuncObj[obj] = fd
			}
		}
	}
	archIntBits = 64
	if p.TypesSizes != nil {
		archIntBits = int(p.TypesSizes.Sizeof(types.Typ[types.Int])) * 8
	}
	pr.normalizeAST()
	pr.resolveRoles()
	pr.computeReachTags()
	if pr.NFuncs < 150 {
		return nil, fmt.Errorf("load %s: only %d functions found (expected the whole library)", dir, pr.NFuncs)
	}
	return pr, nil
}

func recvTypeName(e ast.Expr) string {
	switch t := e.(type) {
	case *ast.StarExpr:
		return recvTypeName(t.X)
	case *ast.Ident:
		return t.Name
	case *ast.IndexExpr:
		return recvTypeName(t.X)
	case *ast.IndexListExpr:
		return recvTypeName(t.X)
	}
	return "?"
}

// funcName returns "Recv.Name" for a declaration.
func (p *Prog) funcName(fd *ast.FuncDecl) string {
	name := fd.Name.Name
	if fd.Recv != nil && len(fd.Recv.List) == 1 {
		name = recvTypeName(fd.Recv.List[0].Type) + "." + name
	}
	return name
}

// objFuncName returns "Recv.Name" for a function object of the package.
func objFuncName(f *types.Func) string {
	if f == nil {
		return "?"
	}
	sig, _ := f.Type().(*types.Signature)
	if sig != nil && sig.Recv() != nil {
		t := sig.Recv().Type()
		if pt, ok := t.(*types.Pointer); ok {
			t = pt.Elem()
		}
		if nt, ok := t.(*types.Named); ok {
			return nt.Obj().Name() + "." + f.Name()
		}
	}
	return f.Name()
}

func (p *Prog) pos(n ast.Node) token.Position {
	pp := p.Fset.Position(n.Pos())
	if rel, err := filepath.Rel(p.Dir, pp.Filename); err == nil {
		pp.Filename = rel
	}
	return pp
}

func (p *Prog) posStr(n ast.Node) string {
	pp := p.pos(n)
	return fmt.Sprintf("%s:%d", pp.Filename, pp.Line)
}

// callee resolves the called function object of a call expression (static
// functions and methods only), or nil.
func (p *Prog) callee(call *ast.CallExpr) *types.Func {
	var id *ast.Ident
	switch f := ast.Unparen(call.Fun).(type) {
	case *ast.Ident:
		id = f
	case *ast.SelectorExpr:
		id = f.Sel
	case *ast.IndexExpr: // generic instantiation f[T](..)
		switch g := ast.Unparen(f.X).(type) {
		case *ast.Ident:
			id = g
		case *ast.SelectorExpr:
			id = g.Sel
		}
	}
	if id == nil {
		return nil
	}
	if fn, ok := p.Info.Uses[id].(*types.Func); ok {
		return fn.Origin()
	}
	return nil
}

// calleeName returns "pkg.Name", "Recv.Name" or "Name" for a call, or "".
func (p *Prog) calleeName(call *ast.CallExpr) string {
	fn := p.callee(call)
	if fn == nil {
		// builtin or conversion
		if id, ok := ast.Unparen(call.Fun).(*ast.Ident); ok {
			if _, isb := p.Info.Uses[id].(*types.Builtin); isb {
				return "builtin." + id.Name
			}
		}
		if sel, ok := ast.Unparen(call.Fun).(*ast.SelectorExpr); ok {
			if _, isb := p.Info.Uses[sel.Sel].(*types.Builtin); isb {
				return "unsafe." + sel.Sel.Name
			}
		}
		return ""
	}
	if fn.Pkg() != nil && fn.Pkg() != p.Pkg.Types {
		sig, _ := fn.Type().(*types.Signature)
		if sig != nil && sig.Recv() != nil {
			t := sig.Recv().Type()
			if pt, ok := t.(*types.Pointer); ok {
				t = pt.Elem()
			}
			if nt, ok := t.(*types.Named); ok {
				return fn.Pkg().Path() + "." + nt.Obj().Name() + "." + fn.Name()
			}
		}
		return fn.Pkg().Path() + "." + fn.Name()
	}
	return objFuncName(fn)
}

// constOf returns the compile-time constant value of e, if any.
func (p *Prog) constOf(e ast.Expr) constant.Value {
	if tv, ok := p.Info.Types[e]; ok && tv.Value != nil {
		return tv.Value
	}
	return nil
}

// constInt64 returns the constant integer value of e.
func (p *Prog) constInt64(e ast.Expr) (int64, bool) {
	v := p.constOf(e)
	if v == nil {
		return 0, false
	}
	v = constant.ToInt(v)
	if v.Kind() != constant.Int {
		return 0, false
	}
	i, ok := constant.Int64Val(v)
	return i, ok
}

// constUint64 returns the constant value of e as uint64.
func (p *Prog) constUint64(e ast.Expr) (uint64, bool) {
	v := p.constOf(e)
	if v == nil {
		return 0, false
	}
	v = constant.ToInt(v)
	if v.Kind() != constant.Int {
		return 0, false
	}
	u, ok := constant.Uint64Val(v)
	return u, ok
}

// objOf returns the object an identifier expression refers to (use or def).
func (p *Prog) objOf(e ast.Expr) types.Object {
	id, ok := ast.Unparen(e).(*ast.Ident)
	if !ok {
		return nil
	}
	if o := p.Info.Uses[id]; o != nil {
		return o
	}
	return p.Info.Defs[id]
}

// pkgConst looks up a package-level constant by name and returns its value.
func (p *Prog) pkgConst(name string) (constant.Value, bool) {
	o := p.Pkg.Types.Scope().Lookup(name)
	c, ok := o.(*types.Const)
	if !ok {
		return nil, false
	}
	return c.Val(), true
}

func (p *Prog) pkgConstInt(name string) (int64, bool) {
	v, ok := p.pkgConst(name)
	if !ok {
		return 0, false
	}
	i, ok := constant.Int64Val(constant.ToInt(v))
	return i, ok
}

// pkgVarDecl finds the value expression of a package-level variable.
func (p *Prog) pkgVarInit(name string) ast.Expr {
	for _, f := range p.Files {
		for _, d := range f.Decls {
			gd, ok := d.(*ast.GenDecl)
			if !ok || gd.Tok != token.VAR {
				continue
			}
			for _, s := range gd.Specs {
				vs := s.(*ast.ValueSpec)
				for i, n := range vs.Names {
					if n.Name == name && i < len(vs.Values) {
						return vs.Values[i]
					}
				}
			}
		}
	}
	return nil
}

// sortedFuncNames returns all function names in deterministic order.
func (p *Prog) sortedFuncNames() []string {
	var ns []string
	for n := range p.Funcs {
		ns = append(ns, n)
	}
	sort.Strings(ns)
	return ns
}

// exprStr renders an expression compactly (for messages only, never for
// decisions).
func (p *Prog) exprStr(e ast.Expr) string {
	return types.ExprString(e)
}

// isPkgFunc reports whether call calls the package function/method `name`
// ("Recv.Name" or "Name").
func (p *Prog) isPkgFunc(call *ast.CallExpr, name string) bool {
	fn := p.callee(call)
	if fn == nil || fn.Pkg() != p.Pkg.Types {
		return false
	}
	return objFuncName(fn) == name
}

// Unexported helpers are anchors of several rules. When one is renamed or
// turned from a method into a function, it is found again through its role:
// the exported entry point that calls it fixes what it is.
var roleAlias = map[string]string{} // actual name -> the name the rules use

func (p *Prog) lookupFn(name string) *ast.FuncDecl {
	if fd := p.Funcs[name]; fd != nil {
		return fd
	}
	if actual, ok := p.Roles[name]; ok {
		return p.Funcs[actual]
	}
	return nil
}

func (p *Prog) resolveRoles() {
	p.Roles = map[string]string{}
	for k := range roleAlias {
		delete(roleAlias, k)
	}
	p.asMethod = map[*ast.FuncDecl]bool{}
	set := func(role, actual string) {
		if actual != "" && actual != role && p.Funcs[role] == nil && p.Funcs[actual] != nil {
			p.Roles[role] = actual
			roleAlias[actual] = role
			fd := p.Funcs[actual]
			if dot := strings.Index(role, "."); dot > 0 && fd.Recv == nil && fd.Type.Params != nil && len(fd.Type.Params.List) > 0 && len(fd.Type.Params.List[0].Names) > 0 {
				// a method turned into a function of its receiver
				if t := p.Info.Defs[fd.Type.Params.List[0].Names[0]]; t != nil && typeBaseName(t.Type()) == role[:dot] {
					p.asMethod[fd] = true
				}
			}
		}
	}
	// generic: method T.m rewritten as function m(t T, ...)
	defer func() {
		for _, role := range methodAnchors {
			dot := strings.Index(role, ".")
			if p.Funcs[role] == nil && p.Roles[role] == "" && dot > 0 {
				set(role, role[dot+1:])
			}
		}
	}()
	// the add/subtract kernel: the one package function AddWithMode returns a call of, with a constant bool flag
	if fd := p.Funcs["Decimal.AddWithMode"]; fd != nil && fd.Body != nil && p.Funcs["Decimal.add"] == nil {
		ast.Inspect(fd.Body, func(n ast.Node) bool {
			if r, ok := n.(*ast.ReturnStmt); ok && len(r.Results) == 1 {
				if call, ok := r.Results[0].(*ast.CallExpr); ok && len(call.Args) >= 1 {
					if _, isBool := p.constBool(call.Args[len(call.Args)-1]); isBool {
						set("Decimal.add", p.calleeName(call))
					}
				}
			}
			return true
		})
	}
	// the operand-class printer used by Payload.String
	if fd := p.Funcs["Payload.String"]; fd != nil && fd.Body != nil && p.Funcs["Payload.argString"] == nil {
		cands := map[string]bool{}
		ast.Inspect(fd.Body, func(n ast.Node) bool {
			if call, ok := n.(*ast.CallExpr); ok {
				name := p.calleeName(call)
				if cfd := p.Funcs[name]; cfd != nil && cfd.Body != nil && name != "Payload.String" {
					if tv, ok := p.Info.Types[call]; ok && tv.Type != nil && tv.Type.String() == "string" {
						cands[name] = true
					}
				}
			}
			return true
		})
		if len(cands) == 1 {
			for name := range cands {
				set("Payload.argString", name)
			}
		}
	}
	if p.Funcs["Decimal.isOne"] == nil && p.Funcs["isOne"] != nil {
		set("Decimal.isOne", "isOne")
	}
}

// methodAnchors are the unexported methods the rules name directly.
var methodAnchors = []string{"Decimal.add", "Payload.argString", "Decimal.isOne", "Decimal.decompose", "Decimal.isSpecial", "Decimal.isInf",
	"digits.fmtE", "digits.fmtF", "digits.round", "Decimal.digits", "Decimal.appendSpecial", "RoundingMode.round"}

func typeBaseName(t types.Type) string {
	if pt, ok := t.(*types.Pointer); ok {
		t = pt.Elem()
	}
	if n, ok := t.(*types.Named); ok {
		return n.Obj().Name()
	}
	return ""
}
