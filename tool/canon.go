package main

import (
	"go/ast"
	"go/token"
	"go/types"
	"sort"
	"strings"
)

// canonEnv maps the parameters (and receiver) of one function to positional
// names so that canonical forms do not depend on identifier spelling.
type canonEnv struct {
	p      *Prog
	params map[types.Object]string
	locals map[types.Object]string
}

func (p *Prog) newCanonEnv(fd *ast.FuncDecl) *canonEnv {
	env := &canonEnv{p: p, params: map[types.Object]string{}}
	if fd.Recv != nil {
		for _, f := range fd.Recv.List {
			for _, n := range f.Names {
				if o := p.Info.Defs[n]; o != nil {
					env.params[o] = "R"
				}
			}
		}
	}
	i := 0
	if p.asMethod[fd] {
		i = -1 // the former receiver comes first
	}
	if fd.Type.Params != nil {
		for _, f := range fd.Type.Params.List {
			for _, n := range f.Names {
				if o := p.Info.Defs[n]; o != nil {
					if i < 0 {
						env.params[o] = "R"
					} else {
						env.params[o] = "P" + itoa(i)
					}
				}
				i++
			}
			if len(f.Names) == 0 {
				i++
			}
		}
	}
	return env
}

func itoa(i int) string {
	if i == 0 {
		return "0"
	}
	neg := i < 0
	if neg {
		i = -i
	}
	var b []byte
	for i > 0 {
		b = append([]byte{byte('0' + i%10)}, b...)
		i /= 10
	}
	if neg {
		b = append([]byte{'-'}, b...)
	}
	return string(b)
}

// canon renders an expression with callees, variables and constants resolved
// through type information: constants by value, parameters by position,
// functions by object.
func (env *canonEnv) canon(e ast.Expr) string {
	p := env.p
	e = ast.Unparen(e)
	if v := p.constOf(e); v != nil {
		return "K(" + v.ExactString() + ")"
	}
	switch x := e.(type) {
	case *ast.Ident:
		if x.Name == "_" {
			return "_"
		}
		o := p.objOf(x)
		if o == nil {
			return "?" + x.Name
		}
		if n, ok := env.params[o]; ok {
			return n
		}
		switch ob := o.(type) {
		case *types.Nil:
			return "nil"
		case *types.Var:
			if ob.Parent() == p.Pkg.Types.Scope() {
				return "V:" + ob.Name()
			}
			if env.locals == nil {
				env.locals = map[types.Object]string{}
			}
			if n, ok := env.locals[o]; ok {
				return n
			}
			n := "L" + itoa(len(env.locals))
			env.locals[o] = n
			return n
		case *types.Func:
			return "F:" + objFuncName(ob)
		}
		return "?" + x.Name
	case *ast.CallExpr:
		if tv, ok := p.Info.Types[x.Fun]; ok && tv.IsType() {
			var args []string
			for _, a := range x.Args {
				args = append(args, env.canon(a))
			}
			return "conv(" + types.TypeString(tv.Type, func(*types.Package) string { return "" }) + ";" + strings.Join(args, ",") + ")"
		}
		name := p.calleeName(x)
		if name == "builtin.panic" {
			return "call(builtin.panic;*)" // the message is not part of any property
		}
		var parts []string
		if sel, ok := ast.Unparen(x.Fun).(*ast.SelectorExpr); ok {
			if s := p.Info.Selections[sel]; s != nil { // method call
				parts = append(parts, "recv="+env.canon(sel.X))
			}
		}
		for _, a := range x.Args {
			parts = append(parts, env.canon(a))
		}
		if x.Ellipsis != token.NoPos {
			parts = append(parts, "...")
		}
		return "call(" + name + ";" + strings.Join(parts, ",") + ")"
	case *ast.BinaryExpr:
		switch x.Op {
		case token.OR, token.AND, token.XOR, token.LAND, token.LOR, token.ADD, token.MUL:
			// associative-commutative chains are flattened and sorted (operands are pure)
			var ops []string
			var flat func(e ast.Expr)
			flat = func(e ast.Expr) {
				e = ast.Unparen(e)
				if b, ok := e.(*ast.BinaryExpr); ok && b.Op == x.Op && p.constOf(e) == nil {
					flat(b.X)
					flat(b.Y)
					return
				}
				ops = append(ops, env.canon(e))
			}
			flat(x)
			sort.Strings(ops)
			return "(" + strings.Join(ops, x.Op.String()) + ")"
		case token.EQL, token.NEQ:
			a, b := env.canon(x.X), env.canon(x.Y)
			if b < a {
				a, b = b, a
			}
			return "(" + a + x.Op.String() + b + ")"
		}
		return "(" + env.canon(x.X) + x.Op.String() + env.canon(x.Y) + ")"
	case *ast.UnaryExpr:
		return "(" + x.Op.String() + env.canon(x.X) + ")"
	case *ast.SelectorExpr:
		return env.canon(x.X) + "." + x.Sel.Name
	case *ast.IndexExpr:
		return env.canon(x.X) + "[" + env.canon(x.Index) + "]"
	case *ast.StarExpr:
		return "*" + env.canon(x.X)
	case *ast.CompositeLit:
		var parts []string
		for _, el := range x.Elts {
			if kv, ok := el.(*ast.KeyValueExpr); ok {
				k := ""
				if id, ok := kv.Key.(*ast.Ident); ok {
					k = id.Name
				} else {
					k = env.canon(kv.Key)
				}
				parts = append(parts, k+":"+env.canon(kv.Value))
			} else {
				parts = append(parts, env.canon(el))
			}
		}
		t := ""
		if tv, ok := p.Info.Types[x]; ok {
			t = types.TypeString(tv.Type, func(*types.Package) string { return "" })
		}
		return "lit(" + t + "{" + strings.Join(parts, ",") + "})"
	case *ast.BasicLit:
		return "K(" + x.Value + ")"
	}
	return "?expr"
}

// singleReturn returns the result expressions if the body consists of exactly
// one return statement.
func singleReturn(fd *ast.FuncDecl) []ast.Expr {
	if fd.Body == nil || len(fd.Body.List) != 1 {
		return nil
	}
	r, ok := fd.Body.List[0].(*ast.ReturnStmt)
	if !ok {
		return nil
	}
	return r.Results
}

// canonStmts renders a statement list (the small subset used by wrapper
// bodies); unknown statements render as "?stmt" and never match a pattern.
func (env *canonEnv) canonStmts(list []ast.Stmt) string {
	var parts []string
	for _, s := range list {
		if c := env.canonStmt(s); c != "" {
			parts = append(parts, c)
		}
	}
	return strings.Join(parts, ";")
}

func (env *canonEnv) canonStmt(s ast.Stmt) string {
	switch x := s.(type) {
	case *ast.ReturnStmt:
		var rs []string
		for _, r := range x.Results {
			rs = append(rs, env.canon(r))
		}
		return "return " + strings.Join(rs, ",")
	case *ast.AssignStmt:
		// x = x op y is rendered as x op= y
		if x.Tok == token.ASSIGN && len(x.Lhs) == 1 && len(x.Rhs) == 1 {
			if be, ok := ast.Unparen(x.Rhs[0]).(*ast.BinaryExpr); ok {
				switch be.Op {
				case token.ADD, token.SUB, token.MUL, token.OR, token.AND, token.SHL, token.SHR:
					if env.canon(be.X) == env.canon(x.Lhs[0]) && env.p.constOf(be.X) == nil {
						return env.canon(x.Lhs[0]) + be.Op.String() + "=" + env.canon(be.Y)
					}
				}
			}
		}
		var l, r []string
		for _, e := range x.Lhs {
			l = append(l, env.canon(e))
		}
		for _, e := range x.Rhs {
			r = append(r, env.canon(e))
		}
		return strings.Join(l, ",") + x.Tok.String() + strings.Join(r, ",")
	case *ast.ExprStmt:
		return env.canon(x.X)
	case *ast.IfStmt:
		out := "if("
		if x.Init != nil {
			out += env.canonStmt(x.Init) + ";"
		}
		out += env.canon(x.Cond) + "){" + env.canonStmts(x.Body.List) + "}"
		if x.Else != nil {
			switch e := x.Else.(type) {
			case *ast.BlockStmt:
				out += "else{" + env.canonStmts(e.List) + "}"
			case *ast.IfStmt:
				out += "else " + env.canonStmt(e)
			}
		}
		return out
	case *ast.BlockStmt:
		return "{" + env.canonStmts(x.List) + "}"
	case *ast.IncDecStmt:
		return env.canon(x.X) + x.Tok.String()
	case *ast.BranchStmt:
		if x.Label != nil {
			return x.Tok.String() + " " + x.Label.Name
		}
		return x.Tok.String()
	case *ast.DeclStmt:
		gd, ok := x.Decl.(*ast.GenDecl)
		if ok && gd.Tok == token.CONST {
			return "" // constants are folded into their uses
		}
		if !ok || gd.Tok != token.VAR {
			return "?decl"
		}
		var parts []string
		for _, sp := range gd.Specs {
			vs := sp.(*ast.ValueSpec)
			for i, n := range vs.Names {
				t := ""
				if o := env.p.Info.Defs[n]; o != nil {
					t = types.TypeString(o.Type(), func(*types.Package) string { return "" })
				}
				v := ""
				if i < len(vs.Values) {
					v = "=" + env.canon(vs.Values[i])
				}
				parts = append(parts, "var "+env.canon(n)+" "+t+v)
			}
		}
		return strings.Join(parts, ";")
	case *ast.SwitchStmt:
		out := "switch("
		if x.Init != nil {
			out += env.canonStmt(x.Init) + ";"
		}
		if x.Tag != nil {
			out += env.canon(x.Tag)
		}
		out += "){"
		for _, cc := range x.Body.List {
			cl := cc.(*ast.CaseClause)
			if cl.List == nil {
				out += "default:"
			} else {
				var es []string
				for _, e := range cl.List {
					es = append(es, env.canon(e))
				}
				out += "case " + strings.Join(es, ",") + ":"
			}
			out += env.canonStmts(cl.Body) + ";"
		}
		return out + "}"
	case *ast.ForStmt:
		out := "for("
		if x.Init != nil {
			out += env.canonStmt(x.Init)
		}
		out += ";"
		if x.Cond != nil {
			out += env.canon(x.Cond)
		}
		out += ";"
		if x.Post != nil {
			out += env.canonStmt(x.Post)
		}
		return out + "){" + env.canonStmts(x.Body.List) + "}"
	}
	return "?stmt"
}
