package main

import (
	"go/ast"
	"go/token"
	"go/types"
	"math/big"
)

// constTable is a package-level array variable whose initialiser is a literal of constants (one or
// two levels: [N]uint64 or [N][K]uint64) and which the package only ever reads.
type constTable struct {
	rows [][]*big.Int // rows[i][j]; a one-level table has one limb per row
	two  bool
}

var constTabCache = map[types.Object]*constTable{}

// constTableOf returns the table behind a package-level variable, or nil when the variable is not a
// literal table of constants or is written, sliced, or has its address taken anywhere in the package.
func (p *Prog) constTableOf(o types.Object) *constTable {
	if o == nil {
		return nil
	}
	if t, ok := constTabCache[o]; ok {
		return t
	}
	constTabCache[o] = nil
	v, ok := o.(*types.Var)
	if !ok || v.Parent() != p.Pkg.Types.Scope() {
		return nil
	}
	arr, ok := v.Type().Underlying().(*types.Array)
	if !ok {
		return nil
	}
	var init ast.Expr
	for _, f := range p.Files {
		for _, d := range f.Decls {
			gd, ok := d.(*ast.GenDecl)
			if !ok || gd.Tok != token.VAR {
				continue
			}
			for _, s := range gd.Specs {
				vs := s.(*ast.ValueSpec)
				for i, n := range vs.Names {
					if p.Info.Defs[n] == o && i < len(vs.Values) && len(vs.Values) == len(vs.Names) {
						init = vs.Values[i]
					}
				}
			}
		}
	}
	cl, ok := init.(*ast.CompositeLit)
	if !ok {
		return nil
	}
	t := &constTable{}
	_, t.two = arr.Elem().Underlying().(*types.Array)
	for _, el := range cl.Elts {
		if _, isKV := el.(*ast.KeyValueExpr); isKV {
			return nil
		}
		if !t.two {
			k, ok := constBig(p.constOf(el))
			if !ok {
				return nil
			}
			t.rows = append(t.rows, []*big.Int{k})
			continue
		}
		rl, ok := el.(*ast.CompositeLit)
		if !ok {
			return nil
		}
		inner := arr.Elem().Underlying().(*types.Array)
		row := make([]*big.Int, inner.Len())
		for j := range row {
			row[j] = big.NewInt(0)
		}
		for j, re := range rl.Elts {
			if _, isKV := re.(*ast.KeyValueExpr); isKV || j >= len(row) {
				return nil
			}
			k, ok := constBig(p.constOf(re))
			if !ok {
				return nil
			}
			row[j] = k
		}
		t.rows = append(t.rows, row)
	}
	if int64(len(t.rows)) != arr.Len() {
		return nil
	}
	// read-only: every mention is the base of an index chain in a value position, len(T) or range T
	readonly := true
	for _, f := range p.Files {
		var stack []ast.Node
		ast.Inspect(f, func(n ast.Node) bool {
			if n == nil {
				stack = stack[:len(stack)-1]
				return true
			}
			stack = append(stack, n)
			id, ok := n.(*ast.Ident)
			if !ok || p.Info.Uses[id] != o {
				return true
			}
			// climb the index chain
			i := len(stack) - 2
			var top ast.Node = id
			for ; i >= 0; i-- {
				if ix, ok := stack[i].(*ast.IndexExpr); ok && ix.X == top {
					top = ix
					continue
				}
				if pe, ok := stack[i].(*ast.ParenExpr); ok {
					top = pe
					continue
				}
				break
			}
			if i < 0 {
				readonly = false
				return true
			}
			switch par := stack[i].(type) {
			case *ast.AssignStmt:
				for _, l := range par.Lhs {
					if l == top {
						readonly = false
					}
				}
			case *ast.IncDecStmt:
				readonly = false
			case *ast.UnaryExpr:
				if par.Op == token.AND {
					readonly = false
				}
			case *ast.SliceExpr:
				if par.X == top {
					readonly = false
				}
			case *ast.RangeStmt:
				if par.Key == top || par.Value == top {
					readonly = false
				}
			case *ast.SelectorExpr:
				// a pointer-receiver method on an element could write through it
				if sel, ok := p.Info.Selections[par]; ok && sel.Kind() == types.MethodVal {
					if sig, ok := sel.Obj().Type().(*types.Signature); ok && sig.Recv() != nil {
						if _, isPtr := sig.Recv().Type().(*types.Pointer); isPtr {
							readonly = false
						}
					}
				}
			}
			return true
		})
	}
	if !readonly {
		return nil
	}
	constTabCache[o] = t
	return t
}

// tableLookup bounds T[i] or T[i][j] (j constant) for a read-only constant table T and an index
// interval: the smallest and largest entry over the indices the interval admits (an index outside the
// table panics, so only in-range entries count).
func (p *Prog) tableLookup(e *ast.IndexExpr, env ienv) (ival, bool) {
	limb := int64(0)
	row := e
	base := ast.Unparen(e.X)
	if inner, ok := base.(*ast.IndexExpr); ok {
		j, ok := p.constInt64(e.Index)
		if !ok {
			return ival{}, false
		}
		limb, row, base = j, inner, ast.Unparen(inner.X)
	}
	id, ok := base.(*ast.Ident)
	if !ok {
		return ival{}, false
	}
	t := p.constTableOf(p.Info.Uses[id])
	if t == nil || t.two != (row != e) {
		return ival{}, false
	}
	idx := p.evalI(row.Index, env)
	lo, hi := int64(0), int64(len(t.rows)-1)
	if idx.lo != nil && idx.lo.IsInt64() && idx.lo.Int64() > lo {
		lo = idx.lo.Int64()
	}
	if idx.hi != nil && idx.hi.IsInt64() && idx.hi.Int64() < hi {
		hi = idx.hi.Int64()
	}
	if lo > hi {
		return ival{}, false
	}
	var out ival
	for i := lo; i <= hi; i++ {
		r := t.rows[i]
		if limb < 0 || limb >= int64(len(r)) {
			return ival{}, false
		}
		v := r[limb]
		if out.lo == nil || v.Cmp(out.lo) < 0 {
			out.lo = v
		}
		if out.hi == nil || v.Cmp(out.hi) > 0 {
			out.hi = v
		}
	}
	return ival{lo: new(big.Int).Set(out.lo), hi: new(big.Int).Set(out.hi)}, true
}
