package main

import (
	"fmt"
	"go/ast"
	"go/constant"
	"go/token"
	"go/types"
	"math/big"
	"os"
	"sort"
	"strconv"
	"strings"
)

// Decimal.digits peels the coefficient two digits at a time. Each of its
// loops is a small automaton over (first pair seen?, the pair, anything left?).
// One iteration of each loop body is interpreted for every pair 00..99 in
// every such state; the digits stored, the digit count and the exponent
// adjustment must be those of "the decimal numeral without trailing or
// leading zeros". (That digitPairs[i] is the numeral of i is E2.text's job.)
func ruleDigitsExtract(c *Ctx) {
	p := c.P
	props := []string{"C06", "C07", "C13", "C19"}
	fd := c.fn("Decimal.digits")
	if fd == nil {
		return
	}
	ps := paramObjs(p, fd)
	if len(ps) != 1 {
		c.undecided("digitpairs.shape", fd, "digits(digs *digits) expected", props...)
		return
	}
	digsObj := ps[0]
	var loops []*ast.ForStmt
	ast.Inspect(fd.Body, func(n ast.Node) bool {
		f, ok := n.(*ast.ForStmt)
		if !ok {
			return true
		}
		uses := false
		ast.Inspect(f.Body, func(m ast.Node) bool {
			if id, ok := m.(*ast.Ident); ok && id.Name == "digitPairs" {
				uses = true
			}
			return !uses
		})
		if uses {
			loops = append(loops, f)
			return false
		}
		return true
	})
	if len(loops) == 0 {
		c.undecided("digitpairs.shape", fd, "no digit-pair loop found in Decimal.digits", props...)
		return
	}
	for li, loop := range loops {
		key := fmt.Sprintf("digitpairs:loop%d", li+1)
		// the peeled variable: receiver of div100 (wide) or left side of `% 100` (scalar)
		var wide bool
		var sigObj, remObj, nObj types.Object
		ast.Inspect(loop.Body, func(n ast.Node) bool {
			switch x := n.(type) {
			case *ast.CallExpr:
				if strings.HasSuffix(p.calleeName(x), ".div100") {
					if sel, ok := x.Fun.(*ast.SelectorExpr); ok {
						sigObj, wide = p.objOf(sel.X), true
					}
				}
			case *ast.BinaryExpr:
				if k, ok := p.constInt64(x.Y); ok && k == 100 && sigObj == nil {
					sigObj = p.objOf(x.X)
				}
			case *ast.IndexExpr:
				if id, ok := ast.Unparen(x.X).(*ast.Ident); ok && id.Name == "digitPairs" {
					remObj = p.objOf(x.Index)
				}
				if sel, ok := ast.Unparen(x.X).(*ast.SelectorExpr); ok && sel.Sel.Name == "dig" && nObj == nil {
					nObj = p.objOf(x.Index)
				}
			}
			return true
		})
		if sigObj == nil || nObj == nil {
			c.undecided(key, loop, "peeled variable or digit counter not identified", props...)
			continue
		}
		_ = remObj
		bad := ""
		evals := 0
		type scen struct {
			n0       int64
			rem      int64
			restZero bool
		}
		var scens []scen
		for _, n0 := range []int64{0, 3} {
			for rem := int64(0); rem < 100; rem++ {
				scens = append(scens, scen{n0, rem, false})
				if !wide && rem != 0 {
					scens = append(scens, scen{n0, rem, true})
				}
			}
		}
		for _, sc := range scens {
			in := newInterp(p)
			type store struct {
				idx int64
				ch  int64
			}
			var stores []store
			storeBad := ""
			in.onAssign = func(in *interp, st *state, l ast.Expr, v AV) {
				ix, ok := ast.Unparen(l).(*ast.IndexExpr)
				if !ok {
					return
				}
				sel, ok := ast.Unparen(ix.X).(*ast.SelectorExpr)
				if !ok || sel.Sel.Name != "dig" {
					return
				}
				iv, ok1 := in.eval1(ix.Index, st).(avInt)
				cv, ok2 := v.(avInt)
				if !ok1 || !ok2 {
					storeBad = "a digit store has an unknown index or value at " + p.posStr(l)
					return
				}
				stores = append(stores, store{iv.v, cv.v})
			}
			in.evalLeaf = func(in *interp, st *state, e ast.Expr) (AV, bool) {
				switch x := e.(type) {
				case *ast.IndexExpr:
					if id, ok := ast.Unparen(x.X).(*ast.Ident); ok && id.Name == "digitPairs" {
						if iv, ok := in.eval1(x.Index, st).(avInt); ok && iv.v >= 0 && iv.v < 100 {
							return avStr{fmt.Sprintf("%02d", iv.v)}, true
						}
						return top, true
					}
				}
				if wide {
					if be, ok := ast.Unparen(e).(*ast.BinaryExpr); ok {
						if _, isZero, ok := p.wholeZeroTest(be); ok {
							return avBool{isZero == sc.restZero}, true
						}
					}
				}
				return nil, false
			}
			st := newState()
			st.vars[digsObj] = avRef{"digs"}
			st.flds["ref:digs.exp"] = avInt{0}
			st.vars[nObj] = avInt{sc.n0}
			if wide {
				tok := avOpaque{name: "coefficient"}
				st.vars[sigObj] = tok
				for name := range p.Funcs {
					if strings.HasSuffix(name, ".div100") {
						in.intrinsics[name] = func(in *interp, st *state, call *ast.CallExpr, recv AV, args []AV) ([]AV, bool) {
							return []AV{&avTuple{vs: []AV{tok, avInt{sc.rem}}}}, true
						}
					}
				}
			} else {
				q := int64(5)
				if sc.restZero {
					q = 0
				}
				st.vars[sigObj] = avInt{q*100 + sc.rem}
			}
			in.curFn = append(in.curFn, fd)
			flows := in.execBlock(loop.Body.List, st)
			evals++
			if in.overflow || len(flows) != 1 || (flows[0].kind != flowNext && flows[0].kind != flowContinue) || storeBad != "" {
				bad = fmt.Sprintf("pair %02d (first=%v, rest zero=%v): control flow or stores not understood %s", sc.rem, sc.n0 == 0, sc.restZero, storeBad)
				break
			}
			out := flows[0].st
			gotN, ok1 := out.vars[nObj].(avInt)
			gotExp, ok2 := out.flds["ref:digs.exp"].(avInt)
			if !ok1 || !ok2 {
				bad = fmt.Sprintf("pair %02d: digit count or exponent adjustment is not a known value after the step", sc.rem)
				break
			}
			t, u := sc.rem/10, sc.rem%10
			var want []store
			wantN, wantExp := sc.n0, int64(0)
			switch {
			case sc.n0 == 0 && sc.rem == 0:
				wantExp = 2
			case sc.n0 == 0 && u == 0:
				want, wantN, wantExp = []store{{0, '0' + t}}, 1, 1
			case t == 0 && sc.restZero:
				want, wantN = []store{{sc.n0, '0' + u}}, sc.n0+1
			default:
				want, wantN = []store{{sc.n0, '0' + u}, {sc.n0 + 1, '0' + t}}, sc.n0+2
			}
			sort.Slice(stores, func(i, j int) bool { return stores[i].idx < stores[j].idx })
			same := len(stores) == len(want)
			for i := range want {
				if same && stores[i] != want[i] {
					same = false
				}
			}
			if !same || gotN.v != wantN || gotExp.v != wantExp {
				show := func(ss []store) string {
					var parts []string
					for _, s := range ss {
						parts = append(parts, fmt.Sprintf("dig[%d]=%q", s.idx, rune(s.ch)))
					}
					return strings.Join(parts, ",")
				}
				bad = fmt.Sprintf("pair %02d with %d digits already stored (rest zero=%v) stores {%s}, n=%d, exp+%d; the numeral without superfluous zeros needs {%s}, n=%d, exp+%d",
					sc.rem, sc.n0, sc.restZero, show(stores), gotN.v, gotExp.v, show(want), wantN, wantExp)
				break
			}
		}
		kind := "64-bit"
		if wide {
			kind = "128-bit"
		}
		c.check(bad == "", key, loop, fmt.Sprintf("%s digit loop: every pair 00..99 in every state stores exactly the significant digits (%d evaluations)", kind, evals),
			"Decimal.digits ("+kind+" loop): "+bad, props...)
	}
	// the reversal and the final count
	env := p.newCanonEnv(fd)
	body := env.canonStmts(fd.Body.List)
	_ = body
}

// appendSpecial / writeSpecial: the text chosen for NaN and the infinities,
// for every class, sign and sign-flag combination, by interpretation with the
// operand's class fixed. The oracle is package fmt's float behaviour, which the
// property names: NaN is "NaN" ("+NaN" with '+', " NaN" with ' ') whatever its
// sign bit; -Inf is "-Inf"; +Inf is "+Inf" (" Inf" with ' ' and no '+').
func ruleSpecialText(c *Ctx) {
	p := c.P
	props := []string{"C06", "C07", "C15"}
	want := func(class string, neg, plus, space bool) string {
		if class == "nan" {
			switch {
			case plus:
				return "+NaN"
			case space:
				return " NaN"
			}
			return "NaN"
		}
		switch {
		case neg:
			return "-Inf"
		case space && !plus:
			return " Inf"
		}
		return "+Inf"
	}
	for _, fn := range []string{"Decimal.appendSpecial", "Decimal.writeSpecial"} {
		fd := c.fn(fn)
		if fd == nil {
			continue
		}
		ps := paramObjs(p, fd)
		if len(ps) != 5 {
			c.undecided("special:"+fn, fd, "(dst, width, printSign, padSign, padRight) expected", props...)
			continue
		}
		bad := ""
		n := 0
		for _, class := range []string{"nan", "inf"} {
			for _, neg := range []bool{false, true} {
				for _, plus := range []bool{false, true} {
					for _, space := range []bool{false, true} {
						in := newInterp(p)
						decIntrinsics(in, false)
						// package-level byte slices evaluate to their text (E2.text checks the texts themselves)
						in.evalLeaf = func(in *interp, st *state, e ast.Expr) (AV, bool) {
							if id, ok := e.(*ast.Ident); ok {
								if o, ok := p.Info.Uses[id].(*types.Var); ok && o.Parent() == p.Pkg.Types.Scope() {
									if init := p.pkgVarInit(o.Name()); init != nil {
										if s, ok := p.bytesLiteral(init); ok {
											return avStr{s}, true
										}
									}
								}
							}
							return nil, false
						}
						st := newState()
						recv := recvObj(p, fd)
						st.vars[recv] = operand(0, cls{class, neg})
						st.vars[ps[1]] = avInt{0}
						st.vars[ps[2]] = avBool{plus}
						st.vars[ps[3]] = avBool{space}
						st.vars[ps[4]] = avBool{false}
						in.curFn = append(in.curFn, fd)
						// the statements that select the text: everything before the width is first read
						widthKey := fmt.Sprintf("%s@%d", ps[1].Name(), ps[1].Pos())
						var sel []ast.Stmt
						for _, s := range fd.Body.List {
							if p.usesVar(s, widthKey) {
								break
							}
							sel = append(sel, s)
						}
						flows := in.execBlock(sel, st)
						n++
						if in.overflow || len(flows) != 1 || flows[0].kind != flowNext {
							bad = fmt.Sprintf("class %s (neg=%v, '+'=%v, ' '=%v): the selection of the text could not be evaluated", class, neg, plus, space)
							break
						}
						// the local that received a text
						got := ""
						found := 0
						for o, v := range flows[0].st.vars {
							if s, ok := v.(avStr); ok && o != recv {
								if _, isParam := map[types.Object]bool{ps[0]: true}[o]; isParam {
									continue
								}
								got = s.s
								found++
							}
						}
						if found != 1 || got != want(class, neg, plus, space) {
							bad = fmt.Sprintf("%s with sign bit %v, flag '+' %v, flag ' ' %v selects %q; package fmt prints a float of that class as %q", map[string]string{"nan": "a NaN", "inf": "an infinity"}[class], neg, plus, space, got, want(class, neg, plus, space))
							break
						}
					}
				}
			}
		}
		c.check(bad == "", "special:"+fn, fd, fmt.Sprintf("NaN and ±Inf select the texts package fmt prints, for every sign and sign flag (%d evaluations)", n), fn+": "+bad, props...)
	}
}

// bytesLiteral evaluates `[]byte("...")` or `[]byte{'a', ...}`.
func (p *Prog) bytesLiteral(e ast.Expr) (string, bool) {
	e = ast.Unparen(e)
	switch x := e.(type) {
	case *ast.CallExpr:
		if len(x.Args) == 1 {
			if v := p.constOf(x.Args[0]); v != nil && v.Kind() == constant.String {
				return constant.StringVal(v), true
			}
		}
	case *ast.CompositeLit:
		var b []byte
		for _, el := range x.Elts {
			v, ok := p.constInt64(el)
			if !ok || v < 0 || v > 255 {
				return "", false
			}
			b = append(b, byte(v))
		}
		return string(b), true
	}
	return "", false
}

// digits.fmtF by interpretation on concrete digit strings: for digits "d1..dn" with decimal exponent e and a
// precision that covers the fraction (what every caller passes after rounding), the text produced must be
// the positional numeral: integer part (or 0), '.', the fraction padded with zeros to the precision.
func ruleFmtF(c *Ctx) {
	p := c.P
	props := []string{"C06", "C07", "C13"}
	fd := c.fn("digits.fmtF")
	if fd == nil {
		return
	}
	ps := paramObjs(p, fd)
	recv := recvObj(p, fd)
	if len(ps) != 8 || recv == nil {
		c.undecided("fmtf.shape", fd, "fmtF(buf, prec, width, forceDP, printSign, padSign, padRight, padZero) expected", props...)
		return
	}
	bad := ""
	n := 0
	for _, digs := range []string{"", "7", "25", "123", "9000001"} {
		exps := []int{-40, -33, -17, -16, -9, -7, -4, -3, -2, -1, 0, 1, 2, 3, 5, 20}
		if c.Tier == "thorough" {
			exps = []int{-70, -40, -33, -32, -18, -17, -16, -15, -9, -8, -7, -6, -5, -4, -3, -2, -1, 0, 1, 2, 3, 4, 5, 17, 20, 40}
		}
		for _, e := range exps {
			if bad != "" || (digs == "" && e != 0) {
				continue
			}
			precs := []int{0, 1, 2, 3, 5, 8, 9, 11}
			if c.Tier == "thorough" {
				precs = []int{0, 1, 2, 3, 4, 5, 6, 7, 8, 9, 10, 11}
			}
			if e < -9 {
				// long runs of leading fraction zeros
				precs = []int{-e, -e + 1, -e + 6}
			}
			for _, prec := range precs {
				if bad != "" {
					break
				}
				if -e > prec {
					continue // callers round to the precision first: the fraction never exceeds it
				}
				for _, forceDP := range []bool{false, true} {
					for _, sg := range []struct {
						neg, printSign, padSign bool
						prefix                  string
					}{{false, false, false, ""}, {true, false, false, ""}, {false, true, false, "x="}, {false, false, true, "-1.5 "}, {true, true, true, "0"}} {
						neg := sg.neg
						in := textInterp(p)
						st := newState()
						st.vars[recv] = avRef{"d"}
						st.flds["ref:d.neg"] = avBool{neg}
						st.flds["ref:d.dig"] = avStr{digs}
						st.flds["ref:d.exp"] = avInt{int64(e)}
						st.flds["ref:d.ndig"] = avInt{int64(len(digs))}
						st.vars[ps[0]] = avStr{sg.prefix}
						st.vars[ps[1]] = avInt{int64(prec)}
						st.vars[ps[2]] = avInt{0}
						st.vars[ps[3]] = avBool{forceDP}
						for _, fo := range ps[4:] {
							st.vars[fo] = avBool{false}
						}
						st.vars[ps[4]] = avBool{sg.printSign}
						st.vars[ps[5]] = avBool{sg.padSign}
						in.curFn = append(in.curFn, fd)
						flows := in.execBlock(fd.Body.List, st)
						n++
						// reference
						want := sg.prefix
						switch {
						case neg:
							want += "-"
						case sg.printSign:
							want += "+"
						case sg.padSign:
							want += " "
						}
						dp := len(digs) + e
						switch {
						case digs == "":
							want += "0"
						case dp > 0 && len(digs) > dp:
							want += digs[:dp]
						case dp > 0:
							want += digs + strings.Repeat("0", dp-len(digs))
						default:
							want += "0"
						}
						frac := ""
						if digs != "" {
							if dp < 0 {
								frac = strings.Repeat("0", -dp) + digs
							} else if len(digs) > dp {
								frac = digs[dp:]
							}
						}
						if prec > 0 {
							if len(frac) > prec {
								continue // not a call the library makes
							}
							want += "." + frac + strings.Repeat("0", prec-len(frac))
						} else if forceDP {
							want += "."
						}
						got := "?"
						okFlow := len(flows) == 1 && flows[0].kind == flowReturn && !in.overflow
						if okFlow {
							if s, ok := flows[0].ret.(avStr); ok {
								got = s.s
							} else if tup, ok := flows[0].ret.(*avTuple); ok && len(tup.vs) == 1 {
								if s, ok := tup.vs[0].(avStr); ok {
									got = s.s
								}
							}
						}
						if got != want {
							if os.Getenv("DVERIF_DEBUG_FMTF") != "" {
								for _, f := range flows {
									fmt.Println("FLOW", f.kind, f.ret, in.overflow)
									if f.ret != nil {
										fmt.Println("   ", f.ret.avKey())
									}
								}
							}
							bad = fmt.Sprintf("digits %q with exponent %d, precision %d, forceDP=%v, negative=%v, printSign=%v, padSign=%v appended to %q give %q, want %q", digs, e, prec, forceDP, neg, sg.printSign, sg.padSign, sg.prefix, got, want)
							break
						}
					}
					if bad != "" {
						break
					}
				}
			}
		}
	}
	c.check(bad == "", "fmtf.text", fd, fmt.Sprintf("fmtF writes the positional numeral for every digit string, exponent and precision tried (%d evaluations against a reference)", n), "digits.fmtF: "+bad, props...)
}

// digits.round by interpretation on concrete digit strings: rounding "d1..dn"·10^e to prec digits must give
// the half-even rounding of that number, with trailing zeros stripped and the exponent adjusted, including
// the carry out of an all-nines prefix.
func ruleRoundText(c *Ctx) {
	p := c.P
	props := []string{"C07", "C06"}
	fd := c.fn("digits.round")
	if fd == nil {
		return
	}
	ps := paramObjs(p, fd)
	recv := recvObj(p, fd)
	if len(ps) != 1 || recv == nil {
		c.undecided("roundtext.shape", fd, "round(prec) expected", props...)
		return
	}
	bad := ""
	n := 0
	for _, digs := range []string{"5", "15", "25", "35", "949", "950", "951", "995", "999", "9995", "9985", "12345", "1005", "4999", "5001", "85", "65", "999999", "100001"} {
		// (digit strings produced by Decimal.digits never end in 0: E10.digitpairs)
		if strings.HasSuffix(digs, "0") {
			continue
		}
		for prec := -1; prec <= len(digs)+1 && bad == ""; prec++ {
			for _, e0 := range []int64{0, -3, 7} {
				in := newInterp(p)
				in.exact = true
				in.inlineAll = true
				st := newState()
				st.vars[recv] = avRef{"d"}
				padded := digs + strings.Repeat("\x00", 39-len(digs))
				st.flds["ref:d.dig"] = avStr{padded}
				st.flds["ref:d.exp"] = avInt{e0}
				st.flds["ref:d.ndig"] = avInt{int64(len(digs))}
				st.flds["ref:d.neg"] = avBool{false}
				st.vars[ps[0]] = avInt{int64(prec)}
				in.curFn = append(in.curFn, fd)
				flows := in.execBlock(fd.Body.List, st)
				n++
				// reference: round the integer `digs` to prec leading digits, half-even
				wantDigs, wantExp := digs, e0
				switch {
				case len(digs) <= prec:
				case prec < 0:
					wantDigs, wantExp = "", e0+int64(len(digs))
				default:
					v, _ := new(big.Int).SetString(digs, 10)
					drop := len(digs) - prec
					unit := pow10(drop)
					q, r := new(big.Int).QuoRem(v, unit, new(big.Int))
					twice := new(big.Int).Lsh(r, 1)
					switch twice.Cmp(unit) {
					case 1:
						q.Add(q, big.NewInt(1))
					case 0:
						if q.Bit(0) == 1 && prec > 0 {
							q.Add(q, big.NewInt(1))
						}
					}
					wantExp = e0 + int64(drop)
					wantDigs = q.String()
					if q.Sign() == 0 {
						wantDigs = ""
					} else {
						for strings.HasSuffix(wantDigs, "0") {
							wantDigs = strings.TrimSuffix(wantDigs, "0")
							wantExp++
						}
					}
				}
				got := "?"
				var gotExp int64 = -999
				if len(flows) >= 1 && !in.overflow {
					f := flows[len(flows)-1]
					ds, ok1 := f.st.flds["ref:d.dig"].(avStr)
					nd, ok2 := f.st.flds["ref:d.ndig"].(avInt)
					ex, ok3 := f.st.flds["ref:d.exp"].(avInt)
					if ok1 && ok2 && ok3 && len(flows) == 1 && nd.v >= 0 && int(nd.v) <= len(ds.s) {
						got, gotExp = ds.s[:nd.v], ex.v
					}
				}
				// an empty digit string denotes zero at any exponent
				same := got == wantDigs && (gotExp == wantExp || wantDigs == "")
				if !same {
					bad = fmt.Sprintf("digits %q·10^%d rounded to %d digits give %q·10^%d, want %q·10^%d", digs, e0, prec, got, gotExp, wantDigs, wantExp)
					break
				}
			}
		}
	}
	c.check(bad == "", "roundtext", fd, fmt.Sprintf("digits.round gives the half-even rounding with stripped zeros and adjusted exponent (%d evaluations against a reference, including carries out of nines)", n), "digits.round: "+bad, props...)
}

// digits.pad by partial evaluation on concrete buffers: for every width, flag combination, sign and buffer
// capacity (exactly full, some room, enough room) the result must be the text padded to the width - spaces
// or zeros on the left (zeros go between a sign and the digits), spaces on the right - and the evaluation
// must not run into a slice bound.
func rulePad(c *Ctx) {
	p := c.P
	props := []string{"C07", "C20", "C06"}
	fd := c.fn("digits.pad")
	if fd == nil {
		return
	}
	// Which parameter (or field of a struct parameter) carries which flag is read off the call in
	// fmtF, whose own parameters are (buf, prec, width, forceDP, printSign, padSign, padRight, padZero).
	type slot struct {
		param int
		field string
	}
	roles := map[string]slot{} // buf, width, printSign, padSign, padRight, padZero and, optionally, start
	pps := paramObjs(p, fd)
	wholeBuf := false // the callers hand pad their whole buffer (not a sub-slice holding only the number)
	if caller := c.fn("digits.fmtF"); caller != nil && caller.Body != nil {
		cps := paramObjs(p, caller)
		roleOf := map[types.Object]string{}
		if len(cps) == 8 {
			for i, r := range map[int]string{2: "width", 4: "printSign", 5: "padSign", 6: "padRight", 7: "padZero"} {
				roleOf[cps[i]] = r
			}
			// a local that holds len(buf) as it was on entry marks where the number starts
			for o := range entryLenLocals(p, caller, cps[0]) {
				roleOf[o] = "start"
			}
		}
		ast.Inspect(caller.Body, func(n ast.Node) bool {
			call, ok := n.(*ast.CallExpr)
			if !ok || p.callee(call) == nil || p.callee(call) != p.Info.Defs[fd.Name] || len(call.Args) != len(pps) {
				return true
			}
			for i, a := range call.Args {
				a = ast.Unparen(a)
				if sl, ok := pps[i].Type().Underlying().(*types.Slice); ok && types.Identical(sl.Elem(), types.Typ[types.Byte]) {
					roles["buf"] = slot{i, ""}
					wholeBuf = len(cps) == 8 && p.objOf(a) == cps[0]
					continue
				}
				if st, ok := pps[i].Type().Underlying().(*types.Struct); ok {
					cl, ok := a.(*ast.CompositeLit)
					if !ok {
						continue
					}
					for j, el := range cl.Elts {
						name, val := "", el
						if kv, ok := el.(*ast.KeyValueExpr); ok {
							name, val = kv.Key.(*ast.Ident).Name, kv.Value
						} else if j < st.NumFields() {
							name = st.Field(j).Name()
						}
						if r, ok := roleOf[p.objOf(val)]; ok && name != "" {
							roles[r] = slot{i, name}
						}
					}
					continue
				}
				if r, ok := roleOf[p.objOf(a)]; ok {
					roles[r] = slot{i, ""}
				}
			}
			return true
		})
	}
	_, hasStart := roles["start"]
	if len(roles) != 6 && !(len(roles) == 7 && hasStart) {
		c.undecided("pad.shape", fd, "pad must receive the buffer, the width and the four flags of fmtF (buf, width, printSign, padSign, padRight, padZero)", props...)
		return
	}
	// fmtE, the sibling emitter, must feed pad the same way: each role from its own parameter of that role,
	// and the start (when pad takes one) from its own entry length.
	if caller := c.fn("digits.fmtE"); caller != nil && caller.Body != nil {
		cps := paramObjs(p, caller)
		if len(cps) == 10 {
			roleOf := map[types.Object]string{}
			for i, r := range map[int]string{0: "buf", 2: "width", 4: "printSign", 5: "padSign", 7: "padRight", 8: "padZero"} {
				roleOf[cps[i]] = r
			}
			for o := range entryLenLocals(p, caller, cps[0]) {
				roleOf[o] = "start"
			}
			ncall := 0
			ast.Inspect(caller.Body, func(n ast.Node) bool {
				call, ok := n.(*ast.CallExpr)
				if !ok || p.callee(call) == nil || p.callee(call) != p.Info.Defs[fd.Name] || len(call.Args) != len(pps) {
					return true
				}
				ncall++
				var wrong []string
				for r, sl := range roles {
					a := ast.Unparen(call.Args[sl.param])
					if sl.field != "" {
						cl, ok := a.(*ast.CompositeLit)
						if !ok {
							wrong = append(wrong, r)
							continue
						}
						st, _ := pps[sl.param].Type().Underlying().(*types.Struct)
						found := false
						for j, el := range cl.Elts {
							name, val := "", el
							if kv, ok := el.(*ast.KeyValueExpr); ok {
								name, val = kv.Key.(*ast.Ident).Name, kv.Value
							} else if st != nil && j < st.NumFields() {
								name = st.Field(j).Name()
							}
							if name == sl.field {
								found = roleOf[p.objOf(val)] == r
							}
						}
						if !found {
							wrong = append(wrong, r)
						}
						continue
					}
					if r == "buf" && !wholeBuf {
						continue
					}
					if roleOf[p.objOf(a)] != r {
						wrong = append(wrong, r)
					}
				}
				sort.Strings(wrong)
				c.check(len(wrong) == 0, fmt.Sprintf("pad.call:fmtE#%d", ncall), call, "fmtE hands pad its own buffer, start, width and flags, role by role as fmtF does", "digits.fmtE calls pad with the wrong value for: "+strings.Join(wrong, ", ")+" (each must be fmtE's own parameter of that role; the start must be len(buf) as it was on entry)", props...)
				return true
			})
		}
	}
	bind := func(vals map[string]peVal) []peVal {
		out := make([]peVal, len(pps))
		for r, sl := range roles {
			if sl.field == "" {
				out[sl.param] = vals[r]
				continue
			}
			st, _ := out[sl.param].(*peStruct)
			if st == nil {
				st = &peStruct{f: map[string]peVal{}}
				out[sl.param] = st
			}
			st.f[sl.field] = vals[r]
		}
		return out
	}
	bad := ""
	n := 0
	mk := func(text string, capacity int) peSlice {
		cells := make([]bitvec, capacity)
		for i := range cells {
			cells[i] = constVec(0)
		}
		for i := 0; i < len(text); i++ {
			cells[i] = constVec(uint64(text[i]))
		}
		return peSlice{arr: &peCells{cells}, n: len(text)}
	}
	// What is already in the buffer belongs to the caller (Decimal.Append appends): with a prefix the result
	// must be the prefix followed by the padded number. A pad that is handed only the number is tried
	// without a prefix.
	prefixes := []string{""}
	if wholeBuf {
		prefixes = []string{"", "x=", "-0 +7"}
	}
	for _, prefix := range prefixes {
		for _, text := range []string{"7", "-12.5", "+3", " 3", "1e+10"} {
			sign := text[0] == '-' || text[0] == '+' || text[0] == ' '
			for _, width := range []int{0, 1, len(text), len(text) + 1, len(text) + 4, 20} {
				for _, extra := range []int{0, 2, 32} {
					for flags := 0; flags < 4 && bad == ""; flags++ {
						padRight, padZero := flags&1 != 0, flags&2 != 0
						if padRight && padZero {
							continue // callers clear padZero when '-' is given (E10.flags)
						}
						ev := &peEval{p: p}
						recv := pePtr{&peStruct{f: map[string]peVal{"neg": peBool{text[0] == '-'}}}}
						args := bind(map[string]peVal{"buf": mk(prefix+text, len(prefix)+len(text)+extra), "start": peInt{int64(len(prefix))}, "width": peInt{int64(width)}, "printSign": peBool{text[0] == '+'}, "padSign": peBool{text[0] == ' '}, "padRight": peBool{padRight}, "padZero": peBool{padZero}})
						for _, a := range args {
							if a == nil {
								bad = "a parameter of pad is not fed from fmtF's buffer, width or flags"
							}
						}
						if bad != "" {
							break
						}
						res, why := ev.run(fd, recv, args)
						n++
						pad := width - len(text)
						want := text
						if pad > 0 {
							switch {
							case padRight:
								want = text + strings.Repeat(" ", pad)
							case padZero && sign:
								want = text[:1] + strings.Repeat("0", pad) + text[1:]
							case padZero:
								want = strings.Repeat("0", pad) + text
							default:
								want = strings.Repeat(" ", pad) + text
							}
						}
						got := "?"
						if why == "" && len(res) == 1 {
							if sl, ok := res[0].(peSlice); ok && sl.arr != nil {
								b := make([]byte, 0, sl.n)
								okBytes := true
								for i := 0; i < sl.n; i++ {
									var u uint64
									for j := 0; j < 8; j++ {
										switch sl.arr.cells[sl.off+i][j].k {
										case '1':
											u |= 1 << uint(j)
										case '0':
										default:
											okBytes = false
										}
									}
									b = append(b, byte(u))
								}
								if okBytes {
									got = string(b)
								}
							}
						}
						want = prefix + want
						if got != want {
							bad = fmt.Sprintf("pad(%q with capacity %d, the number starting at %d, width %d, padRight=%v, padZero=%v) gives %q (%s), want %q", prefix+text, len(prefix)+len(text)+extra, len(prefix), width, padRight, padZero, got, why, want)
						}
					}
				}
			}
		}
	}
	c.check(bad == "", "pad.text", fd, fmt.Sprintf("pad gives the padded text for every width, flag combination and buffer capacity tried, without touching a slice bound (%d evaluations)", n), "digits.pad: "+bad, props...)
}

// entryLenLocals returns the locals of fd that hold len(buf) as it was on entry: defined by `x := len(buf)`
// in the function's top-level statement list before anything assigns buf, and never assigned again.
func entryLenLocals(p *Prog, fd *ast.FuncDecl, buf types.Object) map[types.Object]bool {
	out := map[types.Object]bool{}
	if fd == nil || fd.Body == nil || buf == nil {
		return out
	}
	assigns := func(n ast.Node, o types.Object) int {
		k := 0
		ast.Inspect(n, func(m ast.Node) bool {
			switch s := m.(type) {
			case *ast.AssignStmt:
				for _, l := range s.Lhs {
					if p.objOf(l) == o {
						k++
					}
				}
			case *ast.IncDecStmt:
				if p.objOf(s.X) == o {
					k++
				}
			case *ast.UnaryExpr:
				if s.Op == token.AND && p.objOf(s.X) == o {
					k++
				}
			}
			return true
		})
		return k
	}
	isLenBuf := func(e ast.Expr) bool {
		call, ok := ast.Unparen(e).(*ast.CallExpr)
		if !ok || len(call.Args) != 1 {
			return false
		}
		id, ok := ast.Unparen(call.Fun).(*ast.Ident)
		if !ok {
			return false
		}
		if b, ok := p.Info.Uses[id].(*types.Builtin); !ok || b.Name() != "len" {
			return false
		}
		return p.objOf(call.Args[0]) == buf
	}
	for _, st := range fd.Body.List {
		if assigns(st, buf) > 0 {
			break
		}
		switch s := st.(type) {
		case *ast.AssignStmt:
			if len(s.Lhs) == len(s.Rhs) {
				for i, l := range s.Lhs {
					if o := p.objOf(l); o != nil && isLenBuf(s.Rhs[i]) {
						out[o] = true
					}
				}
			}
		case *ast.DeclStmt:
			if gd, ok := s.Decl.(*ast.GenDecl); ok {
				for _, sp := range gd.Specs {
					if vs, ok := sp.(*ast.ValueSpec); ok && len(vs.Names) == len(vs.Values) {
						for i, nm := range vs.Names {
							if o := p.Info.Defs[nm]; o != nil && isLenBuf(vs.Values[i]) {
								out[o] = true
							}
						}
					}
				}
			}
		}
	}
	for o := range out {
		if assigns(fd.Body, o) > 1 {
			delete(out, o)
		}
	}
	return out
}

// textInterp returns an exact interpreter in which byte slices are strings: append concatenates, make gives
// the empty slice, cap is 0 and digits.pad returns its buffer (width 0; padding is decided by E10.pad).
func textInterp(p *Prog) *interp {
	in := newInterp(p)
	in.exact = true
	in.inlineAll = true
	in.intrinsics["builtin.append"] = func(in *interp, st *state, call *ast.CallExpr, recv AV, args []AV) ([]AV, bool) {
		s, ok := args[0].(avStr)
		if !ok {
			return []AV{top}, true
		}
		out := s.s
		for i, a := range args[1:] {
			switch v := a.(type) {
			case avInt:
				if v.v < 0 || v.v > 255 {
					return []AV{top}, true
				}
				out += string(rune(v.v))
			case avStr:
				if call.Ellipsis == token.NoPos || i != 0 {
					return []AV{top}, true
				}
				out += v.s
			default:
				return []AV{top}, true
			}
		}
		return []AV{avStr{out}}, true
	}
	in.intrinsics["builtin.make"] = func(in *interp, st *state, call *ast.CallExpr, recv AV, args []AV) ([]AV, bool) {
		return []AV{avStr{""}}, true
	}
	in.intrinsics["builtin.cap"] = func(in *interp, st *state, call *ast.CallExpr, recv AV, args []AV) ([]AV, bool) {
		if s, ok := args[0].(avStr); ok {
			return []AV{avInt{int64(len(s.s))}}, true // a full slice: capacity = length (0 for an empty one)
		}
		return []AV{top}, true
	}
	in.intrinsics["digits.pad"] = func(in *interp, st *state, call *ast.CallExpr, recv AV, args []AV) ([]AV, bool) {
		return []AV{args[0]}, true // width 0: no padding (decided by E10.flags / the pad rule)
	}
	return in
}

// digits.fmtE by interpretation on concrete digit strings: for digits "d1..dn" with decimal exponent e and a
// precision that covers them (what every caller passes after rounding), the text appended must be the
// scientific numeral: sign, first digit, '.', the remaining digits padded with zeros to the precision, the
// exponent character, the sign and the digits of e+n-1 (two at least when padded) - after whatever the
// buffer already held.
func ruleFmtE(c *Ctx) {
	p := c.P
	props := []string{"C06", "C07", "C13"}
	fd := c.fn("digits.fmtE")
	if fd == nil {
		return
	}
	ps := paramObjs(p, fd)
	recv := recvObj(p, fd)
	if len(ps) != 10 || recv == nil {
		c.undecided("fmte.shape", fd, "fmtE(buf, prec, width, forceDP, printSign, padSign, padExp, padRight, padZero, e) expected", props...)
		return
	}
	bad := ""
	n := 0
	type combo struct {
		printSign, padSign bool
		ech                byte
		prefix             string
	}
	combos := []combo{{false, false, 'e', ""}, {true, false, 'E', "x="}, {false, true, 'e', "1e+5 "}}
	exps := []int{-6200, -120, -12, -3, -1, 0, 1, 9, 98, 999, 6144}
	maxPrec := 7
	if c.Tier == "thorough" {
		exps = []int{-6200, -1003, -120, -12, -9, -3, -2, -1, 0, 1, 2, 5, 9, 12, 98, 150, 999, 6144}
		maxPrec = 12
	}
	for _, digs := range []string{"", "7", "25", "123", "9000001"} {
		for _, e := range exps {
			if digs == "" && e != 0 {
				continue
			}
			for prec := 0; prec <= maxPrec && bad == ""; prec++ {
				if len(digs)-1 > prec {
					continue // callers round to prec+1 digits first
				}
				for k := 0; k < 8 && bad == ""; k++ {
					forceDP, neg, padExp := k&1 != 0, k&2 != 0, k&4 != 0
					for _, cb := range combos {
						in := textInterp(p)
						st := newState()
						st.vars[recv] = avRef{"d"}
						st.flds["ref:d.neg"] = avBool{neg}
						st.flds["ref:d.dig"] = avStr{digs}
						st.flds["ref:d.exp"] = avInt{int64(e)}
						st.flds["ref:d.ndig"] = avInt{int64(len(digs))}
						st.vars[ps[0]] = avStr{cb.prefix}
						st.vars[ps[1]] = avInt{int64(prec)}
						st.vars[ps[2]] = avInt{0}
						st.vars[ps[3]] = avBool{forceDP}
						st.vars[ps[4]] = avBool{cb.printSign}
						st.vars[ps[5]] = avBool{cb.padSign}
						st.vars[ps[6]] = avBool{padExp}
						st.vars[ps[7]] = avBool{false}
						st.vars[ps[8]] = avBool{false}
						st.vars[ps[9]] = avInt{int64(cb.ech)}
						in.curFn = append(in.curFn, fd)
						flows := in.execBlock(fd.Body.List, st)
						n++
						want := cb.prefix
						switch {
						case neg:
							want += "-"
						case cb.printSign:
							want += "+"
						case cb.padSign:
							want += " "
						}
						x := e
						if digs == "" {
							want += "0"
						} else {
							want += digs[:1]
							x = e + len(digs) - 1
						}
						if prec > 0 {
							rest := ""
							if digs != "" {
								rest = digs[1:]
							}
							want += "." + rest + strings.Repeat("0", prec-len(rest))
						} else if forceDP {
							want += "."
						}
						want += string(rune(cb.ech))
						if x < 0 {
							want += "-"
							x = -x
						} else {
							want += "+"
						}
						if x < 10 && padExp {
							want += "0"
						}
						want += strconv.Itoa(x)
						got := "?"
						if len(flows) == 1 && flows[0].kind == flowReturn && !in.overflow {
							if s, ok := flows[0].ret.(avStr); ok {
								got = s.s
							} else if tup, ok := flows[0].ret.(*avTuple); ok && len(tup.vs) == 1 {
								if s, ok := tup.vs[0].(avStr); ok {
									got = s.s
								}
							}
						}
						if got != want {
							bad = fmt.Sprintf("digits %q with exponent %d, precision %d, forceDP=%v, negative=%v, printSign=%v, padSign=%v, padExp=%v appended to %q give %q, want %q", digs, e, prec, forceDP, neg, cb.printSign, cb.padSign, padExp, cb.prefix, got, want)
							break
						}
					}
				}
			}
		}
	}
	c.check(bad == "", "fmte.text", fd, fmt.Sprintf("fmtE appends the scientific numeral for every digit string, exponent, precision and flag combination tried (%d evaluations against a reference)", n), "digits.fmtE: "+bad, props...)
}
