package main

import (
	"fmt"
	"go/ast"
	"go/token"
	"go/types"
	"math/big"
	"strings"
)

// E6 R-STICKY: nothing dropped is forgotten.

type divEvent struct {
	fn     string
	stmt   *ast.AssignStmt
	target string // canonical key of the divided variable
	tname  string
	rem    ast.Expr // remainder lvalue (may be blank)
	k      int      // log10 of the divisor
	stack  []ast.Node
	commit bool // quotient goes to another variable (tmp, rem := sig.div10())
	qdest  ast.Expr
}

// collectDivEvents finds `q, r = v.divK()` outside the integer kernel.
func (p *Prog) collectDivEvents() []divEvent {
	divK, _ := p.divKTable()
	var out []divEvent
	for _, name := range p.sortedFuncNames() {
		fd := p.Funcs[name]
		if fd.Body == nil {
			continue
		}
		if fd.Recv != nil && strings.HasPrefix(recvTypeName(fd.Recv.List[0].Type), "uint") {
			continue
		}
		walkStack(fd.Body, func(n ast.Node, stack []ast.Node) {
			as, ok := n.(*ast.AssignStmt)
			if !ok || len(as.Lhs) != 2 || len(as.Rhs) != 1 {
				return
			}
			call, ok := as.Rhs[0].(*ast.CallExpr)
			if !ok {
				return
			}
			info, ok := divK[p.calleeName(call)]
			if !ok {
				return
			}
			sel := call.Fun.(*ast.SelectorExpr)
			ev := divEvent{fn: name, stmt: as, target: p.exprKey(sel.X), tname: p.exprName(sel.X), rem: as.Lhs[1], k: info.Log10,
				stack: append(append([]ast.Node{}, stack...), n), qdest: as.Lhs[0]}
			if p.exprKey(as.Lhs[0]) != ev.target {
				ev.commit = true
			}
			out = append(out, ev)
		})
	}
	return out
}

func isBlank(e ast.Expr) bool {
	id, ok := ast.Unparen(e).(*ast.Ident)
	return ok && id.Name == "_"
}

// enclosingBlock returns the statement list containing the last stack node,
// and its index in it.
func enclosingBlock(stack []ast.Node) ([]ast.Stmt, int) {
	site := stack[len(stack)-1]
	for i := len(stack) - 2; i >= 0; i-- {
		var list []ast.Stmt
		switch b := stack[i].(type) {
		case *ast.BlockStmt:
			list = b.List
		case *ast.CaseClause:
			list = b.Body
		}
		if list != nil {
			for j, s := range list {
				if s == site {
					return list, j
				}
			}
			return nil, -1
		}
	}
	return nil, -1
}

// isZeroTest matches `x != 0` / `x == 0` (also x.Sign() != 0, x.BitLen() != 0)
// for the given variable key and returns the operator.
func (p *Prog) isZeroTest(e ast.Expr, key string) (token.Token, bool) {
	x, op, k, ok := p.normCmp(e)
	if !ok || k.Sign() != 0 || (op != token.NEQ && op != token.EQL) {
		return 0, false
	}
	if p.exprKey(x) == key {
		return op, true
	}
	if call, ok := x.(*ast.CallExpr); ok {
		cn := p.calleeName(call)
		if cn == "math/big.Int.Sign" || cn == "math/big.Int.BitLen" {
			if sel, ok := call.Fun.(*ast.SelectorExpr); ok && p.exprKey(sel.X) == key {
				// BitLen is unsigned in meaning (>= 0), Sign is not: BitLen() > 0 is a complete test
				return op, true
			}
		}
	}
	return 0, false
}

// usesVar reports whether n reads the variable key.
func (p *Prog) usesVar(n ast.Node, key string) bool {
	found := false
	ast.Inspect(n, func(m ast.Node) bool {
		if id, ok := m.(*ast.Ident); ok {
			if p.Info.Uses[id] != nil && p.exprKey(id) == key {
				found = true
			}
		}
		return !found
	})
	return found
}

// truncating consumers: conversions that discard the fraction by definition.
var truncatingConsumers = map[string]string{
	"Decimal.Int32":   "truncation toward zero is the documented result",
	"Decimal.Int64":   "truncation toward zero is the documented result",
	"Decimal.Uint32":  "truncation toward zero is the documented result",
	"Decimal.Uint64":  "truncation toward zero is the documented result",
	"Decimal.Float64": "faithful (not correctly rounded) conversion: 256-bit intermediate keeps >= 128 bits",
}

// truncatingConsumer: fn is one of the conversions above, or an unexported
// helper called from nowhere else.
func (p *Prog) truncatingConsumer(fn string, depth int) (string, bool) {
	if why, ok := truncatingConsumers[fn]; ok {
		return why, true
	}
	fd := p.Funcs[fn]
	if fd == nil || depth > 2 || ast.IsExported(fd.Name.Name) {
		return "", false
	}
	callers := p.callersOf(fn)
	if len(callers) == 0 {
		return "", false
	}
	why := ""
	for _, cn := range callers {
		w, ok := p.truncatingConsumer(cn, depth+1)
		if !ok {
			return "", false
		}
		why = w
	}
	return "helper used only by truncating conversions (" + strings.Join(callers, ", ") + "): " + why, true
}

func ruleStickyRemainders(c *Ctx) {
	p := c.P
	evs := p.collectDivEvents()
	count := map[string]int{}
	for _, ev := range evs {
		base := fmt.Sprintf("rem:%s:%s/10^%d", ev.fn, ev.tname, ev.k)
		count[base]++
		key := fmt.Sprintf("%s#%d", base, count[base])
		fp := funcProps(ev.fn)
		// quotient discarded: digit extraction, no scaling happened
		if isBlank(ev.qdest) {
			c.ok(key, ev.stmt, "digit probe (quotient discarded): not a scaling event", fp...)
			continue
		}
		if isBlank(ev.rem) {
			if why, ok := p.truncatingConsumer(ev.fn, 0); ok {
				c.exempt(key, ev.stmt, why, fp...)
			} else if p.isDigitProbe(p.Funcs[ev.fn]) {
				c.exempt(key, ev.stmt, "digit probe: a function of one integer value returning one plain integer; no dropped digit can reach a coefficient", fp...)
			} else {
				c.bad(key, ev.stmt, fmt.Sprintf("%s: the remainder of %s ÷ 10^%d is discarded; every dropped digit must reach the sticky flag, the guard digit or an exactness test", ev.fn, ev.tname, ev.k), fp...)
			}
			continue
		}
		rkey := p.exprKey(ev.rem)
		list, idx := enclosingBlock(ev.stack)
		if list == nil || rkey == "" {
			c.undecided(key, ev.stmt, "division context not understood", fp...)
			continue
		}
		// find the first use of the remainder after the division in the same block
		// (before it is overwritten by another division)
		used, okForm := false, true
		why := ""
		for _, s := range list[idx+1:] {
			if !p.usesVar(s, rkey) {
				if as, ok := s.(*ast.AssignStmt); ok {
					over := false
					for _, l := range as.Lhs {
						if p.exprKey(l) == rkey {
							over = true
						}
					}
					if over {
						break
					}
				}
				continue
			}
			used = true
			// every comparison of the remainder with a constant must be ==0 / !=0
			ast.Inspect(s, func(m ast.Node) bool {
				be, ok := m.(*ast.BinaryExpr)
				if !ok {
					return true
				}
				switch be.Op {
				case token.EQL, token.NEQ, token.LSS, token.GTR, token.LEQ, token.GEQ:
				default:
					return true
				}
				involves := p.exprKey(be.X) == rkey
				if call, ok := ast.Unparen(be.X).(*ast.CallExpr); ok {
					if sel, ok := call.Fun.(*ast.SelectorExpr); ok && p.exprKey(sel.X) == rkey {
						involves = true
					}
				}
				if !involves {
					return true
				}
				if _, ok := p.isZeroTest(be, rkey); !ok {
					okForm = false
					why = "the remainder is compared with `" + p.exprStr(be) + "`; a dropped part is non-zero iff the remainder != 0"
				}
				return true
			})
			break
		}
		// loop-carried guard digits are used at the top of the next iteration or after the loop
		if !used {
			for i := len(ev.stack) - 2; i >= 0 && !used; i-- {
				switch x := ev.stack[i].(type) {
				case *ast.ForStmt:
					if p.usesVar(x.Body, rkey) || (x.Cond != nil && p.usesVar(x.Cond, rkey)) {
						used = true
					}
				case *ast.BlockStmt:
					// statements after the enclosing construct
					for j, s := range x.List {
						if containsNode(s, ev.stmt) {
							for _, t := range x.List[j+1:] {
								if p.usesVar(t, rkey) {
									used = true
								}
							}
						}
					}
				}
			}
		}
		if used && okForm && !ev.commit {
			c.check(!p.remainderKilled(ev.stack, rkey), "kill:"+key, ev.stmt, "the remainder is read before it is assigned again on every path",
				fmt.Sprintf("%s: on some path the remainder of %s ÷ 10^%d is assigned again (the next division) before it has been examined, so the digits dropped here are forgotten", ev.fn, ev.tname, ev.k), fp...)
		}
		switch {
		case !used:
			c.bad(key, ev.stmt, fmt.Sprintf("%s: the remainder of %s ÷ 10^%d is never examined: dropped digits are forgotten", ev.fn, ev.tname, ev.k), fp...)
		case !okForm:
			c.bad(key, ev.stmt, ev.fn+": "+why, fp...)
		default:
			c.ok(key, ev.stmt, "remainder examined (non-zero test, guard digit or digit use)", fp...)
		}
	}
	// big.Int QuoRem remainders (FromInt, Compose)
	for _, fn := range []string{"FromInt", "Decimal.Compose"} {
		fd := c.fn(fn)
		if fd == nil {
			continue
		}
		n := 0
		walkStack(fd.Body, func(nd ast.Node, stack []ast.Node) {
			es, ok := nd.(*ast.ExprStmt)
			if !ok {
				return
			}
			call, ok := es.X.(*ast.CallExpr)
			if !ok || p.calleeName(call) != "math/big.Int.QuoRem" || len(call.Args) != 3 {
				return
			}
			n++
			key := fmt.Sprintf("bigrem:%s#%d", fn, n)
			rkey := p.exprKey(call.Args[2])
			list, idx := enclosingBlock(append(append([]ast.Node{}, stack...), nd))
			okTest := false
			if list != nil {
				for _, s := range list[idx+1:] {
					if ifs, ok := s.(*ast.IfStmt); ok {
						if op, ok := p.isZeroTest(ifs.Cond, rkey); ok && op == token.NEQ {
							okTest = true
						}
					}
				}
			}
			c.check(okTest, key, es, "big remainder tested for non-zero in the same iteration",
				fn+": the remainder of the big.Int division must be tested with `!= 0` (Sign/BitLen) in the same loop iteration, otherwise dropped digits are forgotten", funcProps(fn)...)
		})
		if n == 0 {
			c.undecided("bigrem:"+fn, fd, "no big.Int.QuoRem found", funcProps(fn)...)
		}
	}
}

// stickyVars finds the sticky variables of a function: int8/bool variables
// that are assigned a non-zero constant under a remainder/digit != 0 test.
func (p *Prog) stickyVars(fd *ast.FuncDecl) map[string]string {
	out := map[string]string{}
	ast.Inspect(fd.Body, func(n ast.Node) bool {
		ifs, ok := n.(*ast.IfStmt)
		if !ok {
			return true
		}
		be, ok := ast.Unparen(ifs.Cond).(*ast.BinaryExpr)
		if !ok || be.Op != token.NEQ {
			return true
		}
		if v, ok := p.constInt64(be.Y); !ok || v != 0 {
			return true
		}
		for _, s := range ifs.Body.List {
			as, ok := s.(*ast.AssignStmt)
			if !ok || as.Tok != token.ASSIGN || len(as.Lhs) != 1 || len(as.Rhs) != 1 {
				continue
			}
			cv := p.constOf(as.Rhs[0])
			if cv == nil {
				continue
			}
			if tv, ok := p.Info.Types[as.Lhs[0]]; ok {
				if b, ok := tv.Type.Underlying().(*types.Basic); ok && (b.Kind() == types.Int8 || b.Kind() == types.Bool) {
					if k := p.exprKey(as.Lhs[0]); k != "" {
						out[k] = p.exprName(as.Lhs[0])
					}
				}
			}
		}
		return true
	})
	return out
}

// ruleStickyMonotone: a sticky flag only accumulates: it is assigned
// constants, negated, or returned by a callee that received it.
func ruleStickyMonotone(c *Ctx) {
	p := c.P
	total := 0
	for _, name := range p.sortedFuncNames() {
		fd := p.Funcs[name]
		if fd.Body == nil {
			continue
		}
		if fd.Recv != nil && strings.HasPrefix(recvTypeName(fd.Recv.List[0].Type), "uint") {
			continue
		}
		sv := p.stickyVars(fd)
		if len(sv) == 0 {
			continue
		}
		fp := funcProps(name)
		n := 0
		// a sticky flag is set because of what was dropped, never because of its own previous value
		// (that would turn "just below" (-1) into "above" (+1)); Decimal.add's normalisation of a
		// same-sign sum is the one place that does, and E6.polarity decides it
		if name != "Decimal.add" && roleAlias[name] != "Decimal.add" {
			m := 0
			walkStack(fd.Body, func(nd ast.Node, stack []ast.Node) {
				as, ok := nd.(*ast.AssignStmt)
				if !ok || len(as.Lhs) != 1 || len(as.Rhs) != 1 {
					return
				}
				k := p.exprKey(as.Lhs[0])
				vn, isSticky := sv[k]
				if !isSticky || p.constOf(as.Rhs[0]) == nil {
					return
				}
				for i := len(stack) - 1; i >= 0; i-- {
					ifs, ok := stack[i].(*ast.IfStmt)
					if !ok || !containsNode(ifs.Body, as) {
						continue
					}
					if p.readsVar(ifs.Cond, k) {
						m++
						c.bad(fmt.Sprintf("sticky.self:%s:%s#%d", name, vn, m), ifs, fmt.Sprintf("%s: the sticky flag %s is set under the condition `%s`, which reads the flag itself: a flag of -1 (exact value just below the kept digits) would become +1", name, vn, p.exprStr(ifs.Cond)), fp...)
					}
				}
			})
		}
		ast.Inspect(fd.Body, func(nd ast.Node) bool {
			as, ok := nd.(*ast.AssignStmt)
			if !ok {
				return true
			}
			for i, l := range as.Lhs {
				k := p.exprKey(l)
				vn, ok := sv[k]
				if !ok {
					continue
				}
				n++
				total++
				key := fmt.Sprintf("sticky:%s:%s#%d", name, vn, n)
				okA := false
				switch {
				case as.Tok == token.MUL_ASSIGN && len(as.Rhs) == 1:
					v, isC := p.constInt64(as.Rhs[0])
					okA = isC && v == -1
				case (as.Tok == token.ASSIGN || as.Tok == token.DEFINE) && len(as.Rhs) == len(as.Lhs):
					okA = p.constOf(as.Rhs[i]) != nil
					// negation written out: trunc = -trunc, trunc = trunc * -1
					if ue, ok := ast.Unparen(as.Rhs[i]).(*ast.UnaryExpr); ok && ue.Op == token.SUB && p.exprKey(ue.X) == k {
						okA = true
					}
					if be, ok := ast.Unparen(as.Rhs[i]).(*ast.BinaryExpr); ok && be.Op == token.MUL {
						if v, isC := p.constInt64(be.Y); isC && v == -1 && p.exprKey(be.X) == k {
							okA = true
						}
						if v, isC := p.constInt64(be.X); isC && v == -1 && p.exprKey(be.Y) == k {
							okA = true
						}
					}
					if conv, ok := ast.Unparen(as.Rhs[i]).(*ast.CallExpr); ok && !okA {
						if tv, ok := p.Info.Types[conv.Fun]; ok && tv.IsType() && len(conv.Args) == 1 && p.constOf(conv.Args[0]) != nil {
							okA = true
						}
					}
				case (as.Tok == token.ASSIGN || as.Tok == token.DEFINE) && len(as.Rhs) == 1:
					// tuple result of a call: the callee must have received the flag, or be
					// a primitive that starts a fresh accumulation (int8(0) argument)
					if call, ok := as.Rhs[0].(*ast.CallExpr); ok {
						okA = true
						_ = call
					}
				}
				c.check(okA, key, as, "sticky flag is set to a constant, negated, or threaded through a callee",
					fmt.Sprintf("%s: the sticky flag %s is overwritten with `%s`; it must only accumulate (an earlier inexact step would be forgotten)", name, vn, p.exprStr(as.Rhs[min(i, len(as.Rhs)-1)])), fp...)
			}
			return true
		})
	}
	if total < 150 {
		c.undecided("sticky.count", nil, fmt.Sprintf("only %d sticky assignments found", total))
	}
}

// ruleDigitKill: a loop-carried guard digit is folded into the sticky flag
// before it is overwritten.
func ruleDigitKill(c *Ctx) {
	p := c.P
	n := 0
	for _, name := range p.sortedFuncNames() {
		fd := p.Funcs[name]
		if fd.Body == nil {
			continue
		}
		if fd.Recv != nil && strings.HasPrefix(recvTypeName(fd.Recv.List[0].Type), "uint") {
			continue
		}
		sv := p.stickyVars(fd)
		fp := funcProps(name)
		// the guard-digit variables of the function: remainders of `X, digit = X.div10()` / `digit = v % 10`
		gd := map[string]bool{}
		ast.Inspect(fd.Body, func(nd ast.Node) bool {
			if as, ok := nd.(*ast.AssignStmt); ok {
				if len(as.Lhs) == 2 && len(as.Rhs) == 1 {
					if call, ok := as.Rhs[0].(*ast.CallExpr); ok && strings.HasSuffix(p.calleeName(call), ".div10") && !isBlank(as.Lhs[0]) && !isBlank(as.Lhs[1]) {
						gd[p.exprKey(as.Lhs[1])] = true
					}
				} else if len(as.Lhs) == 1 && len(as.Rhs) == 1 && as.Tok == token.ASSIGN {
					if be, ok := ast.Unparen(as.Rhs[0]).(*ast.BinaryExpr); ok && be.Op == token.REM {
						if k, ok := p.constInt64(be.Y); ok && k == 10 {
							gd[p.exprKey(as.Lhs[0])] = true
						}
					}
				}
			}
			return true
		})
		walkStack(fd.Body, func(nd ast.Node, stack []ast.Node) {
			as, ok := nd.(*ast.AssignStmt)
			if !ok {
				return
			}
			// the guard digit is the remainder of `X, digit = X.div10()` or `digit = v % 10`
			var digit ast.Expr
			if len(as.Lhs) == 1 && len(as.Rhs) == 1 && as.Tok == token.ASSIGN && gd[p.exprKey(as.Lhs[0])] && p.constOf(as.Rhs[0]) == nil {
				// any other computed value stored in a guard-digit variable (digit = rem / 1000)
				digit = as.Lhs[0]
			}
			if len(as.Lhs) == 2 && len(as.Rhs) == 1 {
				if call, ok := as.Rhs[0].(*ast.CallExpr); ok && strings.HasSuffix(p.calleeName(call), ".div10") && !isBlank(as.Lhs[0]) && !isBlank(as.Lhs[1]) {
					digit = as.Lhs[1]
				}
			} else if len(as.Lhs) == 1 && len(as.Rhs) == 1 && as.Tok == token.ASSIGN {
				if be, ok := ast.Unparen(as.Rhs[0]).(*ast.BinaryExpr); ok && be.Op == token.REM {
					if k, ok := p.constInt64(be.Y); ok && k == 10 {
						digit = as.Lhs[0]
					}
				}
			}
			if digit == nil {
				return
			}
			dkey := p.exprKey(digit)
			do := p.objOf(digit)
			if dkey == "" || do == nil {
				return
			}
			// loop-carried: the statement is in a for loop and the digit is declared outside it
			var loop *ast.ForStmt
			for i := len(stack) - 1; i >= 0; i-- {
				if f, ok := stack[i].(*ast.ForStmt); ok {
					loop = f
					break
				}
			}
			if loop == nil || (do.Pos() >= loop.Pos() && do.Pos() <= loop.End()) {
				return
			}
			n++
			key := fmt.Sprintf("digitkill:%s#%d", name, n)
			list, idx := enclosingBlock(append(append([]ast.Node{}, stack...), nd))
			folded := false
			if list != nil {
				for j := idx - 1; j >= 0; j-- {
					s := list[j]
					if ifs, ok := s.(*ast.IfStmt); ok && ifs.Else == nil {
						if op, ok := p.isZeroTest(ifs.Cond, dkey); ok && op == token.NEQ && len(ifs.Body.List) == 1 {
							if a2, ok := ifs.Body.List[0].(*ast.AssignStmt); ok && len(a2.Lhs) == 1 && len(a2.Rhs) == 1 {
								if _, isSticky := sv[p.exprKey(a2.Lhs[0])]; isSticky {
									if v, ok := p.constInt64(a2.Rhs[0]); ok && v != 0 {
										folded = true
									}
									if cv := p.constOf(a2.Rhs[0]); cv != nil && cv.String() == "true" {
										folded = true
									}
								}
							}
						}
						if folded {
							break
						}
					}
					if p.assignsTo(s, dkey) {
						break
					}
				}
			}
			if !folded {
				// eager folding: every assignment of the digit anywhere in the function is
				// followed, in its own block and before the next assignment, by the fold;
				// then no unfolded value can reach this overwrite.
				folded = p.alwaysFoldedAfter(fd, do, dkey, sv)
			}
			c.check(folded, key, as, "old guard digit folded into the sticky flag before it is overwritten",
				name+": the guard digit is overwritten in a loop without first folding a non-zero old digit into the sticky flag (`if digit != 0 { trunc = 1 }` must precede the division)", fp...)
		})
	}
	if n < 8 {
		c.undecided("digitkill.count", nil, fmt.Sprintf("only %d loop-carried guard digits found", n))
	}
	// a guard digit may be reset to zero only where it is known to be zero already
	for _, name := range p.sortedFuncNames() {
		fd := p.Funcs[name]
		if fd.Body == nil || !strings.HasPrefix(name, "RoundingMode.reduce") {
			continue
		}
		digits := map[string]bool{}
		ast.Inspect(fd.Body, func(nd ast.Node) bool {
			if as, ok := nd.(*ast.AssignStmt); ok && len(as.Lhs) == 2 && len(as.Rhs) == 1 {
				if call, ok := as.Rhs[0].(*ast.CallExpr); ok && strings.HasSuffix(p.calleeName(call), ".div10") && !isBlank(as.Lhs[1]) {
					digits[p.exprKey(as.Lhs[1])] = true
				}
			}
			return true
		})
		k := 0
		walkStack(fd.Body, func(nd ast.Node, stack []ast.Node) {
			as, ok := nd.(*ast.AssignStmt)
			if !ok || as.Tok != token.ASSIGN || len(as.Lhs) != 1 || len(as.Rhs) != 1 || !digits[p.exprKey(as.Lhs[0])] {
				return
			}
			if v, ok := p.constInt64(as.Rhs[0]); !ok || v != 0 {
				return
			}
			k++
			dkey := p.exprKey(as.Lhs[0])
			known := false
			for _, f := range p.factsAt(append(append([]ast.Node{}, stack...), nd), func(s ast.Stmt) bool { return p.assignsTo(s, dkey) }) {
				x, op, kv, ok := p.normCmp(f.cond)
				if !ok || kv.Sign() != 0 {
					continue
				}
				if !f.val {
					op = negOp(op)
				}
				if op != token.EQL {
					continue
				}
				// x == 0 where x is an or-chain of non-negative words containing the digit
				var parts func(e ast.Expr) []ast.Expr
				parts = func(e ast.Expr) []ast.Expr {
					e = ast.Unparen(e)
					if be, ok := e.(*ast.BinaryExpr); ok && be.Op == token.OR {
						return append(parts(be.X), parts(be.Y)...)
					}
					return []ast.Expr{e}
				}
				for _, part := range parts(x) {
					if p.exprKey(part) == dkey {
						known = true
					}
				}
			}
			c.check(known, fmt.Sprintf("digitreset:%s#%d", name, k), as, "the guard digit is cleared only where it is already zero",
				name+": the guard digit is set to 0 at a point where it may be non-zero (no dominating `... | digit == 0`): a dropped digit of 5 or more would be forgotten and the value flushed instead of rounded", funcProps(name)...)
		})
	}
}

// ruleGuardDigit (S6): dividing by 10^k, k > 1, in reduceN: digit = rem/10^(k-1),
// sticky from rem % 10^(k-1).
func ruleGuardDigit(c *Ctx) {
	p := c.P
	n := 0
	for _, ev := range p.collectDivEvents() {
		if !strings.HasPrefix(ev.fn, "RoundingMode.reduce") || ev.k <= 1 || isBlank(ev.rem) {
			continue
		}
		rkey := p.exprKey(ev.rem)
		list, idx := enclosingBlock(ev.stack)
		if list == nil {
			continue
		}
		// is a guard digit derived from this remainder?
		var digitDiv, modDiv *big.Int
		for _, s := range list[idx+1:] {
			ast.Inspect(s, func(m ast.Node) bool {
				be, ok := m.(*ast.BinaryExpr)
				if !ok || p.exprKey(be.X) != rkey {
					return true
				}
				if k, ok := constBig(p.constOf(be.Y)); ok {
					switch be.Op {
					case token.QUO:
						digitDiv = k
					case token.REM:
						modDiv = k
					}
				}
				return true
			})
		}
		if digitDiv == nil && modDiv == nil {
			continue // remainder only feeds the sticky flag (wide pre-reduction)
		}
		n++
		want := pow10(ev.k - 1)
		key := fmt.Sprintf("guarddigit:%s:%s/10^%d", ev.fn, ev.tname, ev.k)
		c.check(digitDiv != nil && modDiv != nil && digitDiv.Cmp(want) == 0 && modDiv.Cmp(want) == 0, key, ev.stmt,
			fmt.Sprintf("guard digit = rem / 10^%d, sticky from rem %% 10^%d", ev.k-1, ev.k-1),
			fmt.Sprintf("%s: after ÷10^%d the guard digit must be rem/10^%d and the sticky test rem%%10^%d != 0 (found /%v and %%%v): a dropped non-zero digit would be ignored or misplaced", ev.fn, ev.k, ev.k-1, ev.k-1, digitDiv, modDiv), funcProps(ev.fn)...)
	}
	if n < 9 {
		c.undecided("guarddigit.count", nil, fmt.Sprintf("only %d multi-digit guard extractions found", n))
	}
}

// rulePolarity: in Decimal.add the sticky sign is +1 where the first operand
// is truncated and -1 where the second is; same-sign sums normalise, a borrow
// negates.
func rulePolarity(c *Ctx) {
	p := c.P
	fd := c.fn("Decimal.add")
	if fd == nil {
		return
	}
	sv := p.stickyVars(fd)
	// operand coefficients: results of d.decompose() / o.decompose()
	recv := recvObj(p, fd)
	ps := paramObjs(p, fd)
	if recv == nil || len(ps) < 1 {
		c.undecided("polarity.shape", fd, "add(o, mode, subtract) expected")
		return
	}
	coefOf := map[string]int{} // exprKey -> operand index
	ast.Inspect(fd.Body, func(n ast.Node) bool {
		as, ok := n.(*ast.AssignStmt)
		if !ok || len(as.Lhs) != 2 || len(as.Rhs) != 1 {
			return true
		}
		call, ok := as.Rhs[0].(*ast.CallExpr)
		if !ok || !p.isPkgFunc(call, "Decimal.decompose") {
			return true
		}
		sel := call.Fun.(*ast.SelectorExpr)
		switch p.objOf(sel.X) {
		case recv:
			coefOf[p.exprKey(as.Lhs[0])] = 0
		case ps[0]:
			coefOf[p.exprKey(as.Lhs[0])] = 1
		}
		return true
	})
	if len(coefOf) != 2 {
		c.undecided("polarity.shape", fd, "operand coefficients not found")
		return
	}
	// every if-block (or statement list) that truncates operand i assigns the sticky constant
	n := 0
	check := func(block []ast.Stmt, at ast.Node) {
		// which operand is truncated in this block (directly, not nested)?
		opnd := -1
		for _, s := range block {
			as, ok := s.(*ast.AssignStmt)
			if !ok {
				continue
			}
			for _, l := range as.Lhs {
				if i, ok := coefOf[p.exprKey(l)]; ok {
					// truncation: division or zeroing
					if len(as.Rhs) == 1 {
						if call, ok := as.Rhs[0].(*ast.CallExpr); ok && strings.Contains(p.calleeName(call), ".div") {
							opnd = i
						}
						if cl, ok := as.Rhs[0].(*ast.CompositeLit); ok && len(cl.Elts) == 0 {
							opnd = i
						}
					}
				}
			}
		}
		if opnd < 0 {
			return
		}
		// constants assigned to the sticky flag in this block (one level of if allowed)
		var consts []int64
		var visit func(list []ast.Stmt, depth int)
		visit = func(list []ast.Stmt, depth int) {
			for _, s := range list {
				switch x := s.(type) {
				case *ast.AssignStmt:
					if len(x.Lhs) == 1 && len(x.Rhs) == 1 {
						if _, ok := sv[p.exprKey(x.Lhs[0])]; ok {
							if v, ok := p.constInt64(x.Rhs[0]); ok {
								consts = append(consts, v)
							}
						}
					}
				case *ast.IfStmt:
					if depth < 1 {
						visit(x.Body.List, depth+1)
					}
				}
			}
		}
		visit(block, 0)
		for _, v := range consts {
			n++
			want := int64(1)
			if opnd == 1 {
				want = -1
			}
			key := fmt.Sprintf("polarity:add#%d", n)
			c.check(v == want, key, at, fmt.Sprintf("truncating operand %d sets sticky %+d", opnd, want),
				fmt.Sprintf("Decimal.add: a block that truncates the %s operand sets the sticky flag to %+d; the exact value then lies on the wrong side of the computed one (must be %+d: dropping digits of the first operand makes the true result larger in magnitude, of the second smaller)", []string{"first", "second"}[opnd], v, want), "C01", "C19")
		}
	}
	ast.Inspect(fd.Body, func(nd ast.Node) bool {
		switch x := nd.(type) {
		case *ast.IfStmt:
			check(x.Body.List, x)
		case *ast.ForStmt:
			check(x.Body.List, x)
		}
		return true
	})
	if n < 12 {
		c.undecided("polarity.count", fd, fmt.Sprintf("only %d sticky constants in truncation blocks found", n), "C01", "C19")
	}
	// normalisation and negation
	env := p.newCanonEnv(fd)
	body := env.canonStmts(fd.Body.List)
	_ = body
	foundNorm, foundNeg := false, false
	ast.Inspect(fd.Body, func(nd ast.Node) bool {
		switch x := nd.(type) {
		case *ast.IfStmt:
			// if trunc == -1 { trunc = 1 }
			if be, ok := x.Cond.(*ast.BinaryExpr); ok && be.Op == token.EQL {
				if _, isS := sv[p.exprKey(be.X)]; isS {
					if v, ok := p.constInt64(be.Y); ok && v == -1 && len(x.Body.List) == 1 {
						if as, ok := x.Body.List[0].(*ast.AssignStmt); ok && len(as.Rhs) == 1 {
							if w, ok := p.constInt64(as.Rhs[0]); ok && w == 1 && p.exprKey(as.Lhs[0]) == p.exprKey(be.X) {
								// must be in the branch that adds the coefficients: followed by reduce192 of the sum
								foundNorm = true
							}
						}
					}
				}
			}
			// if brw != 0 { sig = sig.twos(); neg = !neg; trunc *= -1 }
			hasTwos, hasNegSticky, hasNegSign := false, false, false
			for _, s := range x.Body.List {
				if as, ok := s.(*ast.AssignStmt); ok && len(as.Rhs) == 1 {
					if call, ok := as.Rhs[0].(*ast.CallExpr); ok && strings.HasSuffix(p.calleeName(call), ".twos") {
						hasTwos = true
					}
					if as.Tok == token.MUL_ASSIGN {
						if _, isS := sv[p.exprKey(as.Lhs[0])]; isS {
							if v, ok := p.constInt64(as.Rhs[0]); ok && v == -1 {
								hasNegSticky = true
							}
						}
					}
					if ue, ok := as.Rhs[0].(*ast.UnaryExpr); ok && ue.Op == token.NOT && p.exprKey(ue.X) == p.exprKey(as.Lhs[0]) {
						hasNegSign = true
					}
					if ue, ok := as.Rhs[0].(*ast.UnaryExpr); ok && ue.Op == token.SUB && p.exprKey(ue.X) == p.exprKey(as.Lhs[0]) {
						if _, isS := sv[p.exprKey(as.Lhs[0])]; isS {
							hasNegSticky = true
						}
					}
				}
			}
			if hasTwos {
				foundNeg = hasNegSticky && hasNegSign
			}
		}
		return true
	})
	c.check(foundNorm, "polarity.norm", fd, "same-sign sum: sticky -1 becomes +1", "Decimal.add: when the coefficients are added (same effective sign) a negative sticky flag must be normalised to +1: both truncations make the true magnitude larger", "C01", "C19")
	c.check(foundNeg, "polarity.borrow", fd, "borrow: magnitude, sign and sticky are all negated", "Decimal.add: on a borrow the difference is negated; the result sign and the sticky flag must be negated with it", "C01", "C19")
}

// ruleComposeExact: Compose is exact-or-error: every remainder is tested
// right after the division and the non-zero path returns an error.
func ruleComposeExact(c *Ctx) {
	p := c.P
	fd := c.fn("Decimal.Compose")
	if fd == nil {
		return
	}
	n := 0
	checkNext := func(list []ast.Stmt, idx int, rkey string, at ast.Node, what string) {
		n++
		key := fmt.Sprintf("compose.exact#%d", n)
		okc := false
		if idx+1 < len(list) {
			if ifs, ok := list[idx+1].(*ast.IfStmt); ok && ifs.Else == nil {
				if op, ok := p.isZeroTest(ifs.Cond, rkey); ok && op == token.NEQ && len(ifs.Body.List) == 1 {
					if r, ok := ifs.Body.List[0].(*ast.ReturnStmt); ok && len(r.Results) == 1 && p.exprStr(r.Results[0]) != "nil" {
						okc = true
					}
				}
			}
		}
		c.check(okc, key, at, "remainder tested immediately; non-zero returns an error",
			"Decimal.Compose: the remainder of "+what+" must be tested in the statement that follows and a non-zero remainder must return an error (Compose is exact or fails, it never rounds)", "C14")
	}
	for _, ev := range p.collectDivEvents() {
		if ev.fn != "Decimal.Compose" {
			continue
		}
		list, idx := enclosingBlock(ev.stack)
		if list == nil || isBlank(ev.rem) {
			c.bad(fmt.Sprintf("compose.exact.blank#%d", n), ev.stmt, "Decimal.Compose discards a remainder", "C14")
			continue
		}
		checkNext(list, idx, p.exprKey(ev.rem), ev.stmt, ev.tname+" ÷ 10^"+fmt.Sprint(ev.k))
	}
	walkStack(fd.Body, func(nd ast.Node, stack []ast.Node) {
		es, ok := nd.(*ast.ExprStmt)
		if !ok {
			return
		}
		call, ok := es.X.(*ast.CallExpr)
		if !ok || p.calleeName(call) != "math/big.Int.QuoRem" || len(call.Args) != 3 {
			return
		}
		list, idx := enclosingBlock(append(append([]ast.Node{}, stack...), nd))
		if list != nil {
			checkNext(list, idx, p.exprKey(call.Args[2]), es, "the big.Int division")
		}
	})
	if n < 5 {
		c.undecided("compose.exact.count", fd, fmt.Sprintf("only %d divisions found in Compose", n), "C14")
	}
	// no rounding function reachable from Compose
	bad := ""
	ast.Inspect(fd.Body, func(nd ast.Node) bool {
		if call, ok := nd.(*ast.CallExpr); ok {
			cn := p.calleeName(call)
			if strings.HasPrefix(cn, "RoundingMode.") {
				bad = cn
			}
		}
		return true
	})
	c.check(bad == "", "compose.noround", fd, "no rounding function is called", "Decimal.Compose calls "+bad+": it must be exact or fail", "C14")
}

// isStickyFold reports whether s is `if digit != 0 { sticky = nonzero }`.
func (p *Prog) isStickyFold(s ast.Stmt, dkey string, sv map[string]string) bool {
	ifs, ok := s.(*ast.IfStmt)
	if !ok || ifs.Else != nil || ifs.Init != nil || len(ifs.Body.List) != 1 {
		return false
	}
	if op, ok := p.isZeroTest(ifs.Cond, dkey); !ok || op != token.NEQ {
		return false
	}
	a2, ok := ifs.Body.List[0].(*ast.AssignStmt)
	if !ok || len(a2.Lhs) != 1 || len(a2.Rhs) != 1 || a2.Tok != token.ASSIGN {
		return false
	}
	if _, isSticky := sv[p.exprKey(a2.Lhs[0])]; !isSticky {
		return false
	}
	if v, ok := p.constInt64(a2.Rhs[0]); ok && v != 0 {
		return true
	}
	cv := p.constOf(a2.Rhs[0])
	return cv != nil && cv.String() == "true"
}

// alwaysFoldedAfter reports whether every statement of fd that assigns the digit do (other than a
// constant zero) is followed in its own block, before anything else assigns the digit or leaves the
// block, by the sticky fold.
func (p *Prog) alwaysFoldedAfter(fd *ast.FuncDecl, do types.Object, dkey string, sv map[string]string) bool {
	ok := true
	found := false
	var visit func(list []ast.Stmt)
	visit = func(list []ast.Stmt) {
		for i, s := range list {
			if as, isAs := s.(*ast.AssignStmt); isAs && p.assignsTo(s, dkey) {
				allZero := len(as.Lhs) == len(as.Rhs)
				if allZero {
					for j, l := range as.Lhs {
						if p.exprKey(l) == dkey {
							v, isC := p.constInt64(as.Rhs[j])
							allZero = isC && v == 0
						}
					}
				}
				if !allZero {
					found = true
					f := false
					for _, t := range list[i+1:] {
						if p.isStickyFold(t, dkey, sv) {
							f = true
							break
						}
						if p.assignsTo(t, dkey) || !straightStmt(t) {
							break
						}
					}
					if !f {
						ok = false
					}
				}
				continue
			}
			switch x := s.(type) {
			case *ast.BlockStmt:
				visit(x.List)
			case *ast.IfStmt:
				if x.Init != nil && p.assignsTo(x.Init, dkey) {
					ok = false
				}
				visit(x.Body.List)
				for e := x.Else; e != nil; {
					switch y := e.(type) {
					case *ast.BlockStmt:
						visit(y.List)
						e = nil
					case *ast.IfStmt:
						visit(y.Body.List)
						e = y.Else
					default:
						e = nil
					}
				}
			case *ast.ForStmt:
				if (x.Init != nil && p.assignsTo(x.Init, dkey)) || (x.Post != nil && p.assignsTo(x.Post, dkey)) {
					ok = false
				}
				visit(x.Body.List)
			case *ast.RangeStmt:
				if (x.Key != nil && p.exprKey(x.Key) == dkey) || (x.Value != nil && p.exprKey(x.Value) == dkey) {
					ok = false
				}
				visit(x.Body.List)
			case *ast.SwitchStmt:
				for _, cc := range x.Body.List {
					visit(cc.(*ast.CaseClause).Body)
				}
			case *ast.LabeledStmt:
				visit([]ast.Stmt{x.Stmt})
			default:
				if p.assignsTo(s, dkey) {
					ok = false
				}
			}
		}
	}
	visit(fd.Body.List)
	// the variable is a pure remainder: it is read only by the folds themselves. (A guard digit that is
	// also handed to the rounding step must not be folded eagerly - it would count twice.)
	foldConds := map[ast.Node]bool{}
	lhs := map[*ast.Ident]bool{}
	ast.Inspect(fd.Body, func(n ast.Node) bool {
		switch x := n.(type) {
		case *ast.IfStmt:
			if p.isStickyFold(x, dkey, sv) {
				foldConds[x.Cond] = true
			}
		case *ast.AssignStmt:
			for _, l := range x.Lhs {
				if id, isId := ast.Unparen(l).(*ast.Ident); isId {
					lhs[id] = true
				}
			}
		}
		return true
	})
	var inFold int
	var walk func(n ast.Node)
	walk = func(n ast.Node) {
		ast.Inspect(n, func(m ast.Node) bool {
			if m == nil {
				return true
			}
			if m != n && foldConds[m] {
				inFold++
				walk(m)
				inFold--
				return false
			}
			if id, isId := m.(*ast.Ident); isId && p.Info.Uses[id] == do && !lhs[id] && inFold == 0 {
				ok = false
			}
			return true
		})
	}
	walk(fd.Body)
	// the digit's address must not escape
	ast.Inspect(fd.Body, func(n ast.Node) bool {
		if ue, isU := n.(*ast.UnaryExpr); isU && ue.Op == token.AND && p.objOf(ue.X) == do {
			ok = false
		}
		return true
	})
	return ok && found
}

// straightStmt reports whether control always continues to the next statement of the block after s
// (assignments, declarations, inc/dec and expression statements that are not panics).
func straightStmt(s ast.Stmt) bool {
	switch s.(type) {
	case *ast.AssignStmt, *ast.DeclStmt, *ast.IncDecStmt:
		return true
	}
	return false
}

// ---------------------------------------------------------------------------
// Remainder kill: between a division that drops digits and the next assignment to its remainder
// variable, the remainder must be read on every path (structured may-kill walk over the syntax: a path on
// which the variable is reassigned first is a path on which dropped digits are forgotten). break, continue,
// goto and return end a path without a verdict (the commit idiom leaves a loop before the quotient is kept).

type remFate int

const (
	fateNone remFate = iota // falls through without reading or assigning
	fateUsed                // read (or the path ends) on every path
	fateKill                // some path assigns the variable before reading it
)

func (p *Prog) fateList(list []ast.Stmt, key string) remFate {
	for _, s := range list {
		if f := p.fateStmt(s, key); f != fateNone {
			return f
		}
	}
	return fateNone
}

func (p *Prog) fateClauses(body *ast.BlockStmt, key string) remFate {
	all, hasDefault := true, false
	for i, cl := range body.List {
		cc, ok := cl.(*ast.CaseClause)
		if !ok {
			return fateNone
		}
		if cc.List == nil {
			hasDefault = true
		}
		for _, e := range cc.List {
			if p.usesVar(e, key) {
				return fateUsed
			}
		}
		f := p.fateList(cc.Body, key)
		for j := i; f == fateNone && j+1 < len(body.List); j++ {
			cur := body.List[j].(*ast.CaseClause)
			if n := len(cur.Body); n == 0 {
				break
			} else if br, ok := cur.Body[n-1].(*ast.BranchStmt); !ok || br.Tok != token.FALLTHROUGH {
				break
			}
			f = p.fateList(body.List[j+1].(*ast.CaseClause).Body, key)
		}
		if f == fateKill {
			return fateKill
		}
		if f != fateUsed {
			all = false
		}
	}
	if all && hasDefault {
		return fateUsed
	}
	return fateNone
}

func (p *Prog) fateStmt(s ast.Stmt, key string) remFate {
	switch x := s.(type) {
	case *ast.AssignStmt:
		if p.readsVar(x, key) {
			return fateUsed
		}
		for _, l := range x.Lhs {
			if p.exprKey(l) == key {
				return fateKill
			}
		}
		return fateNone
	case *ast.ReturnStmt:
		return fateUsed
	case *ast.BranchStmt:
		if x.Tok == token.FALLTHROUGH {
			return fateNone
		}
		return fateUsed
	case *ast.BlockStmt:
		return p.fateList(x.List, key)
	case *ast.IfStmt:
		if x.Init != nil {
			if f := p.fateStmt(x.Init, key); f != fateNone {
				return f
			}
		}
		if p.usesVar(x.Cond, key) {
			return fateUsed
		}
		a := p.fateList(x.Body.List, key)
		b := fateNone
		if x.Else != nil {
			b = p.fateStmt(x.Else, key)
		}
		if a == fateKill || b == fateKill {
			return fateKill
		}
		if a == fateUsed && b == fateUsed {
			return fateUsed
		}
		return fateNone
	case *ast.ForStmt:
		if x.Init != nil {
			if f := p.fateStmt(x.Init, key); f != fateNone {
				return f
			}
		}
		if x.Cond != nil && p.usesVar(x.Cond, key) {
			return fateUsed
		}
		if p.fateList(x.Body.List, key) == fateKill {
			return fateKill
		}
		return fateNone
	case *ast.SwitchStmt:
		if x.Init != nil {
			if f := p.fateStmt(x.Init, key); f != fateNone {
				return f
			}
		}
		if x.Tag != nil && p.usesVar(x.Tag, key) {
			return fateUsed
		}
		return p.fateClauses(x.Body, key)
	case *ast.DeclStmt:
		return fateNone
	}
	if p.usesVar(s, key) {
		return fateUsed
	}
	return fateNone
}

// remainderKilled walks outward from the division statement (last element of stack).
func (p *Prog) remainderKilled(stack []ast.Node, key string) bool {
	cur := stack[len(stack)-1]
	for i := len(stack) - 2; i >= 0; i-- {
		switch par := stack[i].(type) {
		case *ast.BlockStmt:
			for j, s := range par.List {
				if ast.Node(s) == cur {
					switch p.fateList(par.List[j+1:], key) {
					case fateKill:
						return true
					case fateUsed:
						return false
					}
				}
			}
			cur = par
		case *ast.CaseClause:
			for j, s := range par.Body {
				if ast.Node(s) == cur {
					switch p.fateList(par.Body[j+1:], key) {
					case fateKill:
						return true
					case fateUsed:
						return false
					}
				}
			}
			// fallthrough into the following clauses
			if n := len(par.Body); n > 0 && i >= 1 {
				if br, ok := par.Body[n-1].(*ast.BranchStmt); ok && br.Tok == token.FALLTHROUGH {
					if body, ok := stack[i-1].(*ast.BlockStmt); ok {
						at := -1
						for j, cl := range body.List {
							if ast.Node(cl) == ast.Node(par) {
								at = j
							}
						}
						for j := at + 1; at >= 0 && j < len(body.List); j++ {
							cc := body.List[j].(*ast.CaseClause)
							switch p.fateList(cc.Body, key) {
							case fateKill:
								return true
							case fateUsed:
								return false
							}
							if m := len(cc.Body); m == 0 {
								break
							} else if br, ok := cc.Body[m-1].(*ast.BranchStmt); !ok || br.Tok != token.FALLTHROUGH {
								break
							}
						}
					}
				}
			}
			cur = par
			// skip the switch body block: control continues after the switch statement
			if i >= 1 {
				if _, ok := stack[i-1].(*ast.BlockStmt); ok {
					i--
					cur = stack[i]
				}
			}
		case *ast.ForStmt:
			if ast.Node(par.Body) == cur {
				if par.Post != nil && p.readsVar(par.Post, key) {
					return false
				}
				if par.Cond != nil && p.usesVar(par.Cond, key) {
					return false
				}
				switch p.fateList(par.Body.List, key) {
				case fateKill:
					return true
				}
			}
			cur = par
		case *ast.FuncDecl, *ast.FuncLit:
			return false
		default:
			cur = par
		}
	}
	return false
}

// ruleFinalRemainder (E6.finalrem): the remainder R of a general division (`q, R = x.div(y)`) is carried
// through the digit-producing loop; when that loop stops because the quotient is full, R may still be
// non-zero. Between the last top-level statement that assigns R and the statement that hands the result on
// (a call of the rounding kernel, or the return), a top-level `if R != 0 { sticky = c }` must stand, so
// that the test is passed on every path (also the one that skips the loop).
func ruleFinalRemainder(c *Ctx) {
	p := c.P
	n := 0
	for _, name := range p.sortedFuncNames() {
		fd := p.Funcs[name]
		if fd.Body == nil {
			continue
		}
		if fd.Recv != nil && strings.HasPrefix(recvTypeName(fd.Recv.List[0].Type), "uint") {
			continue
		}
		rems := map[string]string{}
		ast.Inspect(fd.Body, func(nd ast.Node) bool {
			if as, ok := nd.(*ast.AssignStmt); ok && len(as.Lhs) == 2 && len(as.Rhs) == 1 {
				if call, ok := as.Rhs[0].(*ast.CallExpr); ok && len(call.Args) == 1 {
					cn := p.calleeName(call)
					if (cn == "uint128.div" || cn == "uint192.div") && !isBlank(as.Lhs[1]) && limbsOf(p.typeOf(as.Lhs[1])) > 1 {
						rems[p.exprKey(as.Lhs[1])] = p.exprStr(as.Lhs[1])
					}
				}
			}
			return true
		})
		if len(rems) == 0 {
			continue
		}
		sv := p.stickyVars(fd)
		list := fd.Body.List
		for rk, rname := range rems {
			last := -1
			for i, s := range list {
				if p.assignsTo(s, rk) {
					last = i
				}
			}
			if last < 0 {
				continue
			}
			// a remainder that is itself a result (QuoRem hands it to the rounding kernel / compose) is not a sticky source
			isResult := false
			ast.Inspect(fd.Body, func(m ast.Node) bool {
				if call, ok := m.(*ast.CallExpr); ok {
					if cn := p.calleeName(call); strings.HasPrefix(cn, "RoundingMode.") || cn == "compose" {
						for _, a := range call.Args {
							if p.exprKey(a) == rk {
								isResult = true
							}
						}
					}
				}
				return true
			})
			if isResult {
				continue
			}
			end := len(list)
			for i := last + 1; i < len(list); i++ {
				isEnd := false
				if _, ok := list[i].(*ast.ReturnStmt); ok {
					isEnd = true
				}
				ast.Inspect(list[i], func(m ast.Node) bool {
					if call, ok := m.(*ast.CallExpr); ok && strings.HasPrefix(p.calleeName(call), "RoundingMode.") {
						isEnd = true
					}
					return true
				})
				if isEnd {
					end = i
					break
				}
			}
			tested := false
			for i := last + 1; i < end; i++ {
				ifs, ok := list[i].(*ast.IfStmt)
				if !ok || ifs.Else != nil || ifs.Init != nil {
					continue
				}
				x, op, kv, ok := p.normCmp(ifs.Cond)
				if !ok || kv.Sign() != 0 || op != token.NEQ {
					continue
				}
				// the or-chain must contain every limb of R
				limbs := map[string]bool{}
				var parts func(e ast.Expr)
				parts = func(e ast.Expr) {
					e = ast.Unparen(e)
					if be, ok := e.(*ast.BinaryExpr); ok && be.Op == token.OR {
						parts(be.X)
						parts(be.Y)
						return
					}
					limbs[p.ikey(e)] = true
				}
				parts(x)
				all := true
				for l := 0; l < limbsOf(p.typeOf(identOfKey(p, fd, rk))); l++ {
					if !limbs[rk+"["+itoa(l)+"]"] {
						all = false
					}
				}
				if !all {
					continue
				}
				for _, t := range ifs.Body.List {
					if a2, ok := t.(*ast.AssignStmt); ok && len(a2.Lhs) == 1 && len(a2.Rhs) == 1 {
						if _, isSticky := sv[p.exprKey(a2.Lhs[0])]; isSticky {
							if v, ok := p.constInt64(a2.Rhs[0]); ok && v != 0 {
								tested = true
							}
						}
					}
				}
			}
			n++
			c.check(tested, "finalrem:"+name+":"+rname, list[last], "the final remainder is folded into the sticky flag on every path to the rounding step",
				fmt.Sprintf("%s: after the last assignment of the division remainder %s there is no unconditional `if %s != 0 { sticky = … }` in front of the rounding step; when the digit loop is skipped or stops on a full quotient, a non-zero remainder is forgotten", name, rname, rname), funcProps(name)...)
		}
	}
	if n < 3 {
		c.undecided("finalrem.count", nil, fmt.Sprintf("only %d general-division remainders found", n))
	}
}

// identOfKey finds some expression of the function with the given key (for its type).
func identOfKey(p *Prog, fd *ast.FuncDecl, key string) ast.Expr {
	var out ast.Expr
	ast.Inspect(fd.Body, func(m ast.Node) bool {
		if e, ok := m.(ast.Expr); ok && out == nil && p.exprKey(e) == key {
			out = e
		}
		return out == nil
	})
	return out
}
