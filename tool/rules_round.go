package main

import (
	"fmt"
	"go/ast"
	"go/token"
	"go/types"
	"math/big"
	"strings"
)

// E8 R-ROUND: decision tables over values that the code touches only through
// comparisons with literals.

// coefLimitHi is floor((5·2^111 - 1) / 2^64): the largest high word of a
// valid coefficient, computed here from the format definition.
func coefLimitHi() uint64 {
	v := new(big.Int).Lsh(big.NewInt(5), 111)
	v.Sub(v, big.NewInt(1))
	v.Rsh(v, 64)
	return v.Uint64()
}

func ruleRoundTable(c *Ctx) {
	p := c.P
	fd := c.fn("RoundingMode.round")
	if fd == nil {
		return
	}
	// locate: for { var adjust int; switch rm {...}; if adjust != 0 {...}; return sig, exp }
	var loop *ast.ForStmt
	for _, s := range fd.Body.List {
		if f, ok := s.(*ast.ForStmt); ok && loop == nil {
			loop = f
		}
	}
	if loop == nil || len(fd.Body.List) != 1 || loop.Cond != nil || len(loop.Body.List) < 4 {
		c.undecided("round.shape", fd, "round must be: for { decide adjust (switch on the mode); if adjust != 0 {...}; return }")
		return
	}
	// the statement `if adjust != 0 {...}` splits the body: everything before it decides the adjustment
	recv := recvObj(p, fd)
	ps := paramObjs(p, fd) // shift, neg, sig, exp, trunc, digit
	idxIf := -1
	var adjObj types.Object
	for i, s := range loop.Body.List {
		if ifs, ok := s.(*ast.IfStmt); ok && ifs.Init == nil {
			if x, op, k, ok := p.normCmp(ifs.Cond); ok && op == token.NEQ && k.Sign() == 0 {
				if o := p.objOf(x); o != nil && isIntType(o.Type()) && idxIf < 0 {
					isParam := false
					for _, po := range ps {
						if po == o {
							isParam = true
						}
					}
					if !isParam {
						idxIf, adjObj = i, o
					}
				}
			}
		}
	}
	var sw *ast.SwitchStmt
	var ifAdj *ast.IfStmt
	var ret *ast.ReturnStmt
	if idxIf > 0 && idxIf == len(loop.Body.List)-2 {
		ifAdj = loop.Body.List[idxIf].(*ast.IfStmt)
		ret, _ = loop.Body.List[idxIf+1].(*ast.ReturnStmt)
		for _, s := range loop.Body.List[:idxIf] {
			if x, ok := s.(*ast.SwitchStmt); ok && x.Tag != nil && p.objOf(x.Tag) == recv {
				sw = x
			}
		}
	}
	if sw == nil || ifAdj == nil || ret == nil || len(ps) != 6 {
		c.undecided("round.shape", fd, "round(shift, neg, sig, exp, trunc, digit) must be: for { decide adjust with a switch on the mode; if adjust != 0 {...}; return }")
		return
	}
	decide := loop.Body.List[:idxIf]
	modes := []string{"ToNearestEven", "ToNearestAway", "ToZero", "AwayFromZero", "ToNegativeInf", "ToPositiveInf"}
	digitClasses := []struct {
		name string
		vals []int64
	}{{"0", []int64{0}}, {"1-4", []int64{1, 2, 3, 4}}, {"5", []int64{5}}, {"6-9", []int64{6, 7, 8, 9}}}
	sigObj := ps[2]
	for _, mn := range modes {
		mv, ok := p.pkgConstInt(mn)
		if !ok {
			c.undecided("round.mode:"+mn, fd, "rounding mode constant "+mn+" not found")
			continue
		}
		for _, t := range []int64{-1, 0, 1} {
			for _, dc := range digitClasses {
				for _, neg := range []bool{false, true} {
					for _, odd := range []bool{false, true} {
						key := fmt.Sprintf("round.cell:%s,trunc=%d,digit=%s,neg=%v,odd=%v", mn, t, dc.name, neg, odd)
						want := roundSpec(mn, t, dc.vals[0], neg, odd)
						in := newInterp(p)
						in.evalLeaf = func(in *interp, st *state, e ast.Expr) (AV, bool) {
							// parity of the kept coefficient: sig[0]%2 or sig[0]&1
							be, ok := e.(*ast.BinaryExpr)
							if !ok || (be.Op != token.REM && be.Op != token.AND) {
								return nil, false
							}
							ix, ok := ast.Unparen(be.X).(*ast.IndexExpr)
							if !ok || p.objOf(ix.X) != sigObj {
								return nil, false
							}
							i, ok1 := p.constInt64(ix.Index)
							k, ok2 := p.constInt64(be.Y)
							if !ok1 || !ok2 || i != 0 || !((be.Op == token.REM && k == 2) || (be.Op == token.AND && k == 1)) {
								return nil, false
							}
							if odd {
								return avInt{1}, true
							}
							return avInt{0}, true
						}
						st := newState()
						st.vars[recv] = avInt{mv}
						st.vars[ps[0]] = top
						st.vars[ps[1]] = avBool{neg}
						st.vars[ps[4]] = avInt{t}
						st.vars[ps[5]] = normSet(append([]int64{}, dc.vals...))
						in.curFn = append(in.curFn, fd)
						flows := in.execBlock(decide, st)
						got := map[string]bool{}
						for _, f := range flows {
							if f.kind != flowNext {
								got["exit"] = true
								continue
							}
							got[f.st.vars[adjObj].avKey()] = true
						}
						var gs []string
						for g := range got {
							gs = append(gs, g)
						}
						wk := fmt.Sprintf("i%d", want)
						c.check(len(gs) == 1 && gs[0] == wk && !in.overflow, key, sw, fmt.Sprintf("adjust = %+d", want),
							fmt.Sprintf("round: mode %s, sticky %+d, guard digit %s, negative=%v, kept coefficient odd=%v: the code adjusts by %v, the rounding definition requires %+d", mn, t, dc.name, neg, odd, strings.Join(gs, "/"), want),
							"C01", "C02", "C03", "C05", "C08", "C09", "C10", "C11", "C16", "C17", "C18")
					}
				}
			}
		}
	}
	// the carry path: fold the old guard digit, divide, bump the exponent, re-decide
	env := p.newCanonEnv(fd)
	got := env.canonStmt(ifAdj)
	lim := coefLimitHi()
	carry := fmt.Sprintf("if((L1[K(1)]>K(%d))){if((K(0)!=P5)){P4=K(1)};P2,P5=call(uint128.div10;recv=P2);P3++;continue};P2=L1", lim)
	wantHead := "if((K(0)!=L0)){var L1 uint128;if((K(1)==L0)){"
	okCarry := strings.HasPrefix(got, wantHead) && strings.HasSuffix(got, carry+"}")
	c.check(okCarry, "round.carry", ifAdj, "on coefficient overflow: fold guard digit into sticky, sig/10, exp++, re-decide",
		"round: after the adjustment overflows the coefficient limit the code must fold the old guard digit into the sticky flag, divide by ten, increment the exponent and decide again; found "+got,
		funcProps("RoundingMode.round")...)
	// tsig = sig ± 1 in the two arms
	nAdd, nSub := 0, 0
	ast.Inspect(ifAdj, func(n ast.Node) bool {
		as, ok := n.(*ast.AssignStmt)
		if !ok || len(as.Rhs) != 1 {
			return true
		}
		switch env.canon(as.Rhs[0]) {
		case "call(uint128.add64;recv=P2,K(1))":
			nAdd++
		case "call(uint128.sub64;recv=P2,K(1))":
			nSub++
		}
		return true
	})
	c.check(nAdd == 1 && nSub == 1, "round.step", ifAdj, "adjust +1 adds one unit, -1 subtracts one unit", fmt.Sprintf("round must apply exactly one sig.add64(1) and one sig.sub64(1) (found %d/%d)", nAdd, nSub), funcProps("RoundingMode.round")...)
	// which arm: if adjust == 1 {... add64} else {... sub64}
	okArms := false
	dbgArm := ""
	if len(ifAdj.Body.List) >= 2 {
		if arm, ok := ifAdj.Body.List[1].(*ast.IfStmt); ok && arm.Else != nil {
			a := env.canon(arm.Cond)
			dbgArm = a
			th := env.canonStmts(arm.Body.List)
			el := ""
			if eb, ok := arm.Else.(*ast.BlockStmt); ok {
				el = env.canonStmts(eb.List)
			}
			const add, sub = "call(uint128.add64;recv=P2,K(1))", "call(uint128.sub64;recv=P2,K(1))"
			okArms = a == "(K(1)==L0)" && strings.Contains(th, add) && !strings.Contains(th, sub) && strings.Contains(el, sub) && !strings.Contains(el, add)
		}
	}
	c.check(okArms, "round.arms", ifAdj, "adjust == 1 adds, otherwise subtracts", "round: the +1 arm must add and the other arm subtract: "+dbgArm, funcProps("RoundingMode.round")...)
	// every path through the adjustment block applies exactly the unit step its sign calls for, never returns
	// from inside, and moves a zero coefficient to the minimum exponent only when shifting was requested
	{
		bad := ""
		nPaths := 0
		minExp, _ := p.pkgConstInt("minBiasedExponent")
		for _, adj := range []int64{1, -1} {
			for _, shift := range []bool{true, false} {
				for _, zero := range []bool{true, false} {
					in := newInterp(p)
					mk := func(tag string) intrinsicFn {
						return func(in *interp, st *state, call *ast.CallExpr, recv AV, args []AV) ([]AV, bool) {
							if len(args) == 1 {
								if one, ok := args[0].(avInt); ok && one.v == 1 {
									return []AV{avOpaque{tag}}, true
								}
							}
							return []AV{avOpaque{"other"}}, true
						}
					}
					in.intrinsics["uint128.add64"] = mk("plus-one")
					in.intrinsics["uint128.sub64"] = mk("minus-one")
					in.intrinsics["uint128.mul64"] = func(in *interp, st *state, call *ast.CallExpr, recv AV, args []AV) ([]AV, bool) {
						return []AV{avOpaque{"scaled"}}, true
					}
					in.intrinsics["uint128.div10"] = func(in *interp, st *state, call *ast.CallExpr, recv AV, args []AV) ([]AV, bool) {
						return []AV{&avTuple{vs: []AV{avOpaque{"tenth"}, top}}}, true
					}
					zeroNow := zero
					in.evalLeaf = func(in *interp, st *state, e ast.Expr) (AV, bool) {
						if be, ok := ast.Unparen(e).(*ast.BinaryExpr); ok {
							if k, isZero, ok := p.wholeZeroTest(be); ok && k == p.exprKey(&ast.Ident{Name: ps[2].Name()}) || ok && strings.HasPrefix(k, ps[2].Name()+"@") {
								// the coefficient is zero or not as the scenario says, as long as it was not rescaled
								if o, isOp := st.vars[ps[2]].(avOpaque); isOp && o.name == "sig0" {
									return avBool{isZero == zeroNow}, true
								}
								return top, true
							}
						}
						return nil, false
					}
					st := newState()
					st.vars[adjObj] = avInt{adj}
					st.vars[ps[0]] = avBool{shift}
					st.vars[ps[2]] = avOpaque{"sig0"}
					st.vars[ps[3]] = avOpaque{"exp0"}
					in.curFn = append(in.curFn, fd)
					flows := in.execStmt(ifAdj, st)
					if in.overflow || len(flows) == 0 {
						bad = "the adjustment block could not be evaluated"
						continue
					}
					for _, f := range flows {
						nPaths++
						if f.kind != flowNext && f.kind != flowContinue {
							bad = fmt.Sprintf("with adjust=%+d, shift=%v, zero coefficient=%v a path leaves the function from inside the adjustment block: the unit step is skipped", adj, shift, zero)
							continue
						}
						// the stepped value
						stepped := ""
						for _, v := range f.st.vars {
							if o, ok := v.(avOpaque); ok && (o.name == "plus-one" || o.name == "minus-one") {
								stepped = o.name
							}
						}
						want := "plus-one"
						if adj < 0 {
							want = "minus-one"
						}
						if stepped != want {
							bad = fmt.Sprintf("with adjust=%+d, shift=%v, zero coefficient=%v a path ends with the coefficient stepped by %q, want %s", adj, shift, zero, stepped, want)
						}
						if ev, ok := f.st.vars[ps[3]].(avInt); ok && ev.v == minExp && f.kind == flowNext {
							if !(shift && zero) {
								bad = fmt.Sprintf("with adjust=%+d, shift=%v, zero coefficient=%v the exponent is forced to the minimum: only a zero coefficient under shift may be moved there", adj, shift, zero)
							}
						}
					}
				}
			}
		}
		c.check(bad == "" && nPaths >= 8, "round.paths", ifAdj, fmt.Sprintf("every path through the adjustment block applies the unit step of its sign and stays inside (%d paths over adjust × shift × zero)", nPaths),
			"round: "+bad, funcProps("RoundingMode.round")...)
	}
	okRet := len(ret.Results) == 2 && p.objOf(ret.Results[0]) == ps[2] && p.objOf(ret.Results[1]) == ps[3]
	c.check(okRet, "round.ret", ret, "returns (sig, exp)", "round must return (sig, exp)", funcProps("RoundingMode.round")...)
}

// roundSpec is the rounding definition (DESIGN.md Appendix B): the discarded
// part is g/10 + t·ε of one unit of the kept coefficient.
func roundSpec(mode string, t, g int64, neg, odd bool) int64 {
	half := int64(-1)
	switch {
	case g > 5 || (g == 5 && t > 0):
		half = 1
	case g == 5 && t == 0:
		half = 0
	}
	exact := g == 0 && t == 0
	below := g == 0 && t < 0
	toZero := func() int64 {
		if below {
			return -1
		}
		return 0
	}
	away := func() int64 {
		if exact || below {
			return 0
		}
		return 1
	}
	switch mode {
	case "ToNearestEven":
		if half > 0 || (half == 0 && odd) {
			return 1
		}
		return 0
	case "ToNearestAway":
		if half >= 0 {
			return 1
		}
		return 0
	case "ToZero":
		return toZero()
	case "AwayFromZero":
		return away()
	case "ToPositiveInf":
		if neg {
			return toZero()
		}
		return away()
	case "ToNegativeInf":
		if neg {
			return away()
		}
		return toZero()
	}
	return 99
}

// digits.round: half-to-even on a digit buffer without trailing zeros.
func ruleDigitsRound(c *Ctx) {
	p := c.P
	fd := c.fn("digits.round")
	if fd == nil {
		return
	}
	recv := recvObj(p, fd)
	ps := paramObjs(p, fd)
	if len(ps) != 1 {
		c.undecided("dround.shape", fd, "digits.round(prec) expected")
		return
	}
	// statements up to the first top-level `if <bool local> {` (or `if !<bool local>`): the decision
	var upObj types.Object
	cut := -1
	for i, s := range fd.Body.List {
		ifs, ok := s.(*ast.IfStmt)
		if !ok || ifs.Init != nil {
			continue
		}
		cond := ast.Unparen(ifs.Cond)
		if ue, ok := cond.(*ast.UnaryExpr); ok && ue.Op == token.NOT {
			cond = ast.Unparen(ue.X)
		}
		id, ok := cond.(*ast.Ident)
		if !ok {
			continue
		}
		o := p.objOf(id)
		v, ok := o.(*types.Var)
		if !ok || v.Parent() == p.Pkg.Types.Scope() {
			continue
		}
		if b, ok := v.Type().Underlying().(*types.Basic); !ok || b.Kind() != types.Bool {
			continue
		}
		upObj, cut = o, i
		break
	}
	if cut < 0 {
		c.undecided("dround.shape", fd, "round-up decision (a boolean local tested by a top-level if) not found")
		return
	}
	type vec struct{ ndig, prec int }
	vecs := []vec{{1, 0}, {2, 0}, {5, 0}, {2, 1}, {3, 1}, {4, 3}, {6, 3}, {39, 38}, {39, 20}}
	for _, v := range vecs {
		for cd := 0; cd <= 9; cd++ { // first dropped digit
			for kd := 0; kd <= 9; kd++ { // last kept digit
				if v.prec == 0 && kd != 0 {
					continue // no kept digit exists
				}
				if v.ndig == v.prec+1 && cd == 0 {
					continue // the buffer never ends in '0'
				}
				key := fmt.Sprintf("dround.cell:ndig=%d,prec=%d,drop=%d,keep=%d", v.ndig, v.prec, cd, kd)
				want := cd > 5 || (cd == 5 && v.ndig > v.prec+1) || (cd == 5 && v.ndig == v.prec+1 && v.prec >= 1 && kd%2 == 1)
				in := newInterp(p)
				in.evalLeaf = func(in *interp, st *state, e ast.Expr) (AV, bool) {
					ix, ok := e.(*ast.IndexExpr)
					if !ok {
						return nil, false
					}
					sel, ok := ast.Unparen(ix.X).(*ast.SelectorExpr)
					if !ok || sel.Sel.Name != "dig" || p.objOf(sel.X) != recv {
						return nil, false
					}
					k, ok := in.eval1(ix.Index, st).(avInt)
					if !ok {
						return top, true
					}
					switch int(k.v) {
					case v.prec:
						return avInt{int64('0' + cd)}, true
					case v.prec - 1:
						return avInt{int64('0' + kd)}, true
					}
					if k.v < 0 || int(k.v) >= v.ndig {
						return avPanic{}, true // out of the buffer: must not be read
					}
					return avInt{int64('1')}, true
				}
				st := newState()
				st.vars[ps[0]] = avInt{int64(v.prec)}
				st.vars[recv] = avRef{"d"}
				st.flds["ref:d.ndig"] = avInt{int64(v.ndig)}
				in.inlineAll = true
				in.curFn = append(in.curFn, fd)
				flows := in.execBlock(fd.Body.List[:cut], st)
				got := map[string]bool{}
				for _, f := range flows {
					if f.kind != flowNext {
						got["exit"] = true
						continue
					}
					got[f.st.vars[upObj].avKey()] = true
				}
				var gs []string
				for g := range got {
					gs = append(gs, g)
				}
				c.check(len(gs) == 1 && gs[0] == fmt.Sprint(want) && !in.overflow, key, fd, fmt.Sprintf("round up = %v", want),
					fmt.Sprintf("digits.round with %d digits kept of %d, first dropped digit %d, last kept digit %d: rounds up = %v, half-to-even requires %v", v.prec, v.ndig, cd, kd, strings.Join(gs, "/"), want))
			}
		}
	}
	// early exits: ndig <= prec keeps everything; prec < 0 drops everything and adds the digit count
	// to the exponent (constant propagation through the function and its helpers)
	for _, t := range []struct {
		key                 string
		ndig, prec, exp     int64
		wantNdig, wantExp   int64
		okDetail, badDetail string
	}{
		{"dround.keep", 5, 7, -3, 5, -3, "ndig <= prec: nothing changes", "digits.round must leave the digits and the exponent unchanged when no digit is dropped"},
		{"dround.keep.eq", 5, 5, -3, 5, -3, "ndig == prec: nothing changes", "digits.round must leave the digits and the exponent unchanged when no digit is dropped"},
		{"dround.dropall", 5, -1, -3, 0, 2, "prec < 0: all digits dropped, exponent + ndig", "digits.round with a negative position must drop all digits and add their count to the exponent"},
		{"dround.dropall.far", 7, -20, 10, 0, 17, "prec < 0: all digits dropped, exponent + ndig", "digits.round with a negative position must drop all digits and add their count to the exponent"},
	} {
		in := newInterp(p)
		in.inlineAll = true
		stored := false
		in.onAssign = func(in *interp, st *state, lhs ast.Expr, v AV) {
			if ix, ok := lhs.(*ast.IndexExpr); ok {
				if sel, ok := ast.Unparen(ix.X).(*ast.SelectorExpr); ok && sel.Sel.Name == "dig" {
					stored = true
				}
			}
		}
		st := newState()
		st.vars[ps[0]] = avInt{t.prec}
		st.vars[recv] = avRef{"d"}
		st.flds["ref:d.ndig"] = avInt{t.ndig}
		st.flds["ref:d.exp"] = avInt{t.exp}
		in.curFn = append(in.curFn, fd)
		flows := in.execBlock(fd.Body.List, st)
		okk := len(flows) > 0 && !in.overflow && !stored
		got := ""
		for _, f := range flows {
			n, e := f.st.flds["ref:d.ndig"], f.st.flds["ref:d.exp"]
			if n == nil || e == nil || n.avKey() != fmt.Sprintf("i%d", t.wantNdig) || e.avKey() != fmt.Sprintf("i%d", t.wantExp) {
				okk = false
			}
			if n != nil && e != nil {
				got = "ndig=" + n.avKey() + " exp=" + e.avKey()
			}
		}
		c.check(okk, t.key, fd, t.okDetail, fmt.Sprintf("%s (ndig %d, exp %d, prec %d gives %s, want ndig=%d exp=%d, digit stores=%v)", t.badDetail, t.ndig, t.exp, t.prec, got, t.wantNdig, t.wantExp, stored))
	}
}

// Ceil/Floor: increment iff the value was inexact and the sign points away.
func ruleCeilFloor(c *Ctx) {
	p := c.P
	lim := coefLimitHi()
	for _, t := range []struct {
		fn      string
		negCond string
	}{{"Decimal.Ceil", "(!%s)"}, {"Decimal.Floor", "%s"}} {
		fd := c.fn(t.fn)
		if fd == nil {
			continue
		}
		// find: neg := d.Signbit(); exp = int16(iexp); if <cond on neg> { for trunc != 0 {...} }
		env := p.newCanonEnv(fd)
		var negName string
		var incr *ast.IfStmt
		for _, s := range fd.Body.List {
			switch x := s.(type) {
			case *ast.AssignStmt:
				if x.Tok == token.DEFINE && len(x.Lhs) == 1 && len(x.Rhs) == 1 && env.canon(x.Rhs[0]) == "call(Decimal.Signbit;recv=R)" {
					negName = env.canon(x.Lhs[0])
				}
			case *ast.IfStmt:
				if negName != "" && incr == nil {
					cs := env.canon(x.Cond)
					if cs == negName || cs == "(!"+negName+")" {
						incr = x
					}
				}
			}
		}
		if incr == nil {
			c.undecided("incr:"+t.fn, fd, "increment block `if neg`/`if !neg` not found")
			continue
		}
		gotCond := env.canon(incr.Cond)
		wantCond := fmt.Sprintf(t.negCond, negName)
		c.check(gotCond == wantCond, "incr.dir:"+t.fn, incr, "increments only when the sign points away from the result ("+wantCond+")",
			fmt.Sprintf("%s must increment the magnitude only for %s values: condition is %s, want %s", t.fn, map[string]string{"Decimal.Ceil": "positive", "Decimal.Floor": "negative"}[t.fn], gotCond, wantCond))
		// the loop, directly in the block or inside a helper called from it
		var loop *ast.ForStmt
		lenv := env
		find := func(root ast.Node) *ast.ForStmt {
			var f *ast.ForStmt
			ast.Inspect(root, func(n ast.Node) bool {
				if x, ok := n.(*ast.ForStmt); ok && f == nil {
					f = x
				}
				return f == nil
			})
			return f
		}
		loop = find(incr.Body)
		if loop == nil {
			ast.Inspect(incr.Body, func(n ast.Node) bool {
				call, ok := n.(*ast.CallExpr)
				if !ok || loop != nil {
					return true
				}
				if fn := p.callee(call); fn != nil && fn.Pkg() == p.Pkg.Types {
					if hd := p.FuncObj[fn]; hd != nil && hd.Body != nil && !fn.Exported() {
						if f := find(hd.Body); f != nil {
							loop = f
							lenv = p.newCanonEnv(hd)
						}
					}
				}
				return true
			})
		}
		body := ""
		if loop != nil {
			body = lenv.canonStmt(loop)
		}
		okBody := loop != nil && strings.HasPrefix(body, "for(;(K(0)!=") &&
			strings.Contains(body, "=call(uint128.add64;recv=") && strings.Contains(body, ",K(1));") &&
			strings.Contains(body, fmt.Sprintf(">K(%d))){", lim)) && strings.Contains(body, "call(uint128.div10;recv=") && strings.HasSuffix(body, "++}}")
		c.check(okBody, "incr.body:"+t.fn, incr, "while inexact: add one unit, clear sticky, renormalise on overflow with exponent +1",
			t.fn+": the increment loop must add exactly one unit while the sticky flag is set and renormalise (÷10, exp++) above the coefficient limit; found "+body)
	}
}
