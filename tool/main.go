// dverif decides structural properties of woodsbury/decimal128 from its
// source, without running it. See /verif/DESIGN.md.
package main

import (
	"encoding/json"
	"flag"
	"fmt"
	"os"
	"path/filepath"
	"runtime/debug"
	"sort"
	"strconv"
	"strings"
	"time"
)

func usage() {
	fmt.Fprintln(os.Stderr, `usage:
  dverif check  -prop Cnn [-tier quick|thorough] [-repo /repo] [-verif /verif]
  dverif replay <replay.json> [-repo /repo]
  dverif list   [-prop Cnn] [-repo /repo]      print every obligation
  dverif manifest [-verif /verif]              regenerate MANIFEST.json`)
	os.Exit(2)
}

func main() {
	if len(os.Args) < 2 {
		usage()
	}
	switch os.Args[1] {
	case "check":
		os.Exit(cmdCheck(os.Args[2:]))
	case "list":
		os.Exit(cmdList(os.Args[2:]))
	case "replay":
		os.Exit(cmdReplay(os.Args[2:]))
	case "manifest":
		os.Exit(cmdManifest(os.Args[2:]))
	default:
		usage()
	}
}

func defaultVerifDir() string {
	if exe, err := os.Executable(); err == nil {
		d := filepath.Dir(filepath.Dir(exe))
		if _, err := os.Stat(filepath.Join(d, "properties.jsonl")); err == nil {
			return d
		}
	}
	return "/verif"
}

// runRules runs every rule serving prop ("" = all) and returns the context.
func runRules(p *Prog, prop, tier string) *Ctx {
	c := &Ctx{P: p, Tier: tier}
	for i := range rules {
		r := &rules[i]
		// Every rule runs: obligations carry their own property tags (a kernel construct serves every
		// property whose operations reach it through the call graph), and the caller filters by tag.
		if r.ThoroughOnly && tier != "thorough" {
			continue
		}
		c.rule = r
		before := len(c.Obls)
		t0 := time.Now()
		func() {
			defer func() {
				if e := recover(); e != nil {
					c.undecided("panic", nil, fmt.Sprintf("analyser panic in rule %s: %v\n%s", r.ID, e, debug.Stack()))
				}
			}()
			r.Run(c)
		}()
		n := len(c.Obls) - before
		if os.Getenv("DVERIF_TIMING") != "" {
			fmt.Fprintf(os.Stderr, "timing %-18s %6d ms %5d obligations\n", r.ID, time.Since(t0).Milliseconds(), n)
		}
		// Floor is the instance count confirmed by reading today's tree. Helper extraction and
		// similar refactorings move a few instances, so the alarm threshold is 85 % of it: it
		// guards against a rule that silently stopped matching, not against exact counts.
		if n < r.Floor*85/100 {
			c.undecided("floor", nil, fmt.Sprintf("rule %s produced %d obligations, far fewer than the %d confirmed by hand: the rule lost its subjects", r.ID, n, r.Floor))
		}
	}
	sortObls(c.Obls)
	return c
}

func cmdCheck(args []string) int {
	fs := flag.NewFlagSet("check", flag.ExitOnError)
	prop := fs.String("prop", "", "property id")
	tier := fs.String("tier", os.Getenv("VERIF_TIER"), "quick|thorough")
	repo := fs.String("repo", "/repo", "repository directory")
	verif := fs.String("verif", defaultVerifDir(), "verif directory")
	noEv := fs.Bool("noevidence", false, "do not write evidence (used for seeded variants)")
	fs.Parse(args)
	if *tier == "" {
		*tier = "quick"
	}
	pm, ok := propMetaByID[*prop]
	if !ok {
		fmt.Fprintf(os.Stderr, "unknown or unclaimed property %q\n", *prop)
		return 2
	}
	seed, _ := strconv.ParseInt(os.Getenv("VERIF_SEED"), 10, 64)
	start := time.Now()

	p, err := load(*repo, "")
	if err != nil {
		return failHard(*verif, pm, *tier, seed, start, *noEv, "load: "+err.Error())
	}
	c := runRules(p, *prop, *tier)

	var extraNotes []string
	extraCov := map[string]interface{}{}
	if *tier == "thorough" {
		thoroughExtras(c, *prop, *repo, *verif, seed, extraCov, &extraNotes)
	}
	return finish(c, pm, *tier, seed, start, *verif, *noEv, extraCov, extraNotes)
}

func failHard(verif string, pm *propMeta, tier string, seed int64, start time.Time, noEv bool, msg string) int {
	rp := replayPath(verif, pm.ID, "hard:"+msg)
	if !noEv {
		writeJSON(rp, map[string]string{"property": pm.ID, "key": "hard-failure", "detail": msg})
		ev := evidence{PropertyID: pm.ID, Tier: tier, Seed: seed, Level: pm.Level,
			Coverage: map[string]interface{}{
				"obligations": 1, "discharged": 0, "evaluations": 1, "distinct_nontrivial": 0,
				"explanation": "the repository could not be analysed: " + msg,
				"checker_cmd": "dverif check -prop " + pm.ID, "trusted_base": []string{},
				"samples": []string{msg},
			},
			Assumptions: []string{}, WallS: time.Since(start).Seconds(), Violations: 1}
		writeJSON(filepath.Join(verif, "evidence", pm.ID+".json"), ev)
	}
	fmt.Printf("%s: analysis failed: %s\n", pm.ID, msg)
	fmt.Printf("VIOLATION property=%s replay=%s\n", pm.ID, rp)
	return 1
}

func finish(c *Ctx, pm *propMeta, tier string, seed int64, start time.Time, verif string, noEv bool, extraCov map[string]interface{}, extraNotes []string) int {
	kfs, err := loadKnownFindings(filepath.Join(verif, "known_findings.txt"))
	if err != nil {
		return failHard(verif, pm, tier, seed, start, noEv, "known findings: "+err.Error())
	}
	var mine []Obligation
	for _, o := range c.Obls {
		if hasProp(o.Props, pm.ID) {
			mine = append(mine, o)
		}
	}
	total, discharged, nontrivial := 0, 0, 0
	perRule := map[string]int{}
	distinct := map[string]bool{}
	var viol []Obligation
	var known []string
	for _, o := range mine {
		total++
		perRule[o.Rule]++
		if !o.Trivial && !distinct[o.Key] {
			distinct[o.Key] = true
			nontrivial++
		}
		if o.Verdict == vOK {
			discharged++
			continue
		}
		isKnown := false
		for _, k := range kfs {
			if k.Prop == pm.ID && k.Key == o.Key && o.Verdict == vViolation {
				isKnown = true
				known = append(known, fmt.Sprintf("KNOWN-FINDING: property=%s %s [%s at %s: %s]", pm.ID, k.Text, o.Key, o.Pos, o.Detail))
			}
		}
		if !isKnown {
			viol = append(viol, o)
		}
	}
	for _, k := range known {
		fmt.Println(k)
	}
	exit := 0
	var violSamples []interface{}
	for _, o := range viol {
		rp := replayPath(verif, pm.ID, o.Key)
		if !noEv {
			writeJSON(rp, map[string]interface{}{"property": pm.ID, "rule": o.Rule, "key": o.Key, "pos": o.Pos, "verdict": o.Verdict, "detail": o.Detail})
		}
		fmt.Printf("%s: [%s] %s: %s (%s)\n", o.Pos, o.Rule, o.Verdict, o.Detail, o.Key)
		fmt.Printf("VIOLATION property=%s replay=%s\n", pm.ID, rp)
		violSamples = append(violSamples, o)
		exit = 1
	}
	if total == 0 {
		fmt.Printf("%s: no obligations were produced\n", pm.ID)
		fmt.Printf("VIOLATION property=%s replay=%s\n", pm.ID, replayPath(verif, pm.ID, "empty"))
		exit = 1
	}

	// samples: a deterministic spread over rules, rotated by seed
	var samples []interface{}
	byRule := map[string][]Obligation{}
	var ruleIDs []string
	for _, o := range mine {
		if _, ok := byRule[o.Rule]; !ok {
			ruleIDs = append(ruleIDs, o.Rule)
		}
		byRule[o.Rule] = append(byRule[o.Rule], o)
	}
	sort.Strings(ruleIDs)
	for _, r := range ruleIDs {
		l := byRule[r]
		for k := 0; k < 2 && k < len(l); k++ {
			o := l[(int(seed%int64(len(l)))+len(l)+k*7)%len(l)]
			samples = append(samples, map[string]string{"rule": o.Rule, "key": o.Key, "pos": o.Pos, "verdict": o.Verdict, "detail": o.Detail})
		}
	}
	samples = append(samples, violSamples...)

	var ruleDocs []string
	for _, r := range ruleIDs {
		for i := range rules {
			if rules[i].ID == r {
				ruleDocs = append(ruleDocs, fmt.Sprintf("%s (%d obligations, floor %d): %s", r, perRule[r], rules[i].Floor, rules[i].Doc))
			}
		}
	}
	cov := map[string]interface{}{
		"obligations":         total,
		"discharged":          discharged + len(known),
		"evaluations":         total,
		"distinct_nontrivial": nontrivial,
		"rule":                "one obligation per (rule, construct) pair found in the type-checked source of /repo; keys are semantic (function, variable, operation, ordinal), never line numbers; an obligation is non-trivial unless it is a frozen exemption",
		"samples":             samples,
		"explanation":         pm.Explanation,
		"not_decided":         pm.NotDecided,
		"rules_applied":       ruleDocs,
		"obligations_by_rule": perRule,
		"exemptions_used":     c.Exemptions,
		"known_findings":      known,
		"units_analysed":      map[string]interface{}{"dir": c.P.Dir, "files": len(c.P.Files), "functions": c.P.NFuncs},
		"checker_cmd":         "/verif/bin/dverif check -prop " + pm.ID + " -tier " + tier,
		"trusted_base":        pm.Trusted,
		"exhaustive":          false,
		"notes":               append(c.Notes, extraNotes...),
	}
	for k, v := range extraCov {
		cov[k] = v
	}
	ev := evidence{PropertyID: pm.ID, Tier: tier, Seed: seed, Level: pm.Level, Coverage: cov,
		Assumptions: pm.Assumptions, WallS: time.Since(start).Seconds(), Violations: len(viol)}
	if !noEv {
		if err := writeJSON(filepath.Join(verif, "evidence", pm.ID+".json"), ev); err != nil {
			fmt.Printf("cannot write evidence: %v\n", err)
			return 1
		}
	}
	if exit == 0 {
		fmt.Printf("%s %s: %d obligations over %d rules discharged (%d known findings) in %.1fs\n", pm.ID, tier, total, len(ruleIDs), len(known), time.Since(start).Seconds())
	}
	return exit
}

func cmdList(args []string) int {
	fs := flag.NewFlagSet("list", flag.ExitOnError)
	prop := fs.String("prop", "", "property id (default all)")
	repo := fs.String("repo", "/repo", "repository directory")
	bad := fs.Bool("bad", false, "only non-ok")
	fs.Parse(args)
	p, err := load(*repo, "")
	if err != nil {
		fmt.Println(err)
		return 1
	}
	c := runRules(p, *prop, "quick")
	n := 0
	for _, o := range c.Obls {
		if *prop != "" && !hasProp(o.Props, *prop) {
			continue
		}
		if *bad && o.Verdict == vOK {
			continue
		}
		n++
		fmt.Printf("%-9s %-6s %s  %s  [%s] %s\n", o.Verdict, strings.Join(o.Props, ","), o.Key, o.Pos, o.Rule, o.Detail)
	}
	fmt.Printf("%d obligations\n", n)
	return 0
}

func cmdReplay(args []string) int {
	fs := flag.NewFlagSet("replay", flag.ExitOnError)
	repo := fs.String("repo", "/repo", "repository directory")
	if len(args) < 1 {
		usage()
	}
	file := args[0]
	fs.Parse(args[1:])
	b, err := os.ReadFile(file)
	if err != nil {
		fmt.Println(err)
		return 2
	}
	var r struct{ Property, Key string }
	if err := json.Unmarshal(b, &r); err != nil {
		fmt.Println(err)
		return 2
	}
	p, err := load(*repo, "")
	if err != nil {
		fmt.Println(err)
		fmt.Printf("VIOLATION property=%s replay=%s\n", r.Property, file)
		return 1
	}
	c := runRules(p, r.Property, "quick")
	found := false
	for _, o := range c.Obls {
		if o.Key == r.Key {
			found = true
			fmt.Printf("%s: [%s] %s: %s (%s)\n", o.Pos, o.Rule, o.Verdict, o.Detail, o.Key)
			if o.Verdict != vOK {
				fmt.Printf("VIOLATION property=%s replay=%s\n", r.Property, file)
				return 1
			}
		}
	}
	if !found {
		fmt.Printf("obligation %s no longer exists on this tree\n", r.Key)
	}
	return 0
}
