package main

import (
	"fmt"
	"os"
	"go/ast"
	"go/token"
	"go/types"
	"math/big"
	"strings"
)

// A multi-variable interval analysis over structured Go syntax: every integer
// scalar variable (and tracked field path) of one function carries an interval;
// assignments evaluate their right-hand side in the current environment,
// conditions refine both sides (also relationally: `a < b - 34` bounds b from
// a's interval and a from b's), branches join, loops forget what their body
// assigns except for the clamping/counting idioms that ivalLoop understands.
// It is deliberately simple: no widening sequences, no relational domain.

type ienv map[string]ival

func (e ienv) clone() ienv {
	n := ienv{}
	for k, v := range e {
		n[k] = v
	}
	return n
}

const ivBottom = "\x00bottom"

func (e ienv) isBottom() bool { _, b := e[ivBottom]; return b }

func bottomEnv() ienv { return ienv{ivBottom: ival{}} }

func joinEnv(a, b ienv) ienv {
	if a.isBottom() {
		return b
	}
	if b.isBottom() {
		return a
	}
	out := ienv{}
	for k, va := range a {
		if vb, ok := b[k]; ok {
			j := joinIval(va, vb)
			if j.lo != nil || j.hi != nil {
				out[k] = j
			}
		}
	}
	return out
}

func typeRangeOf(t types.Type) ival {
	if t == nil {
		return ival{}
	}
	b, ok := t.Underlying().(*types.Basic)
	if !ok || b.Info()&types.IsInteger == 0 {
		return ival{}
	}
	w, okw := typeWidth(t)
	if !okw || w < 2 {
		return ival{}
	}
	if b.Info()&types.IsUnsigned != 0 {
		return ival{lo: big.NewInt(0), hi: new(big.Int).Sub(new(big.Int).Lsh(big.NewInt(1), uint(w)), big.NewInt(1))}
	}
	return ival{lo: new(big.Int).Neg(new(big.Int).Lsh(big.NewInt(1), uint(w-1))), hi: new(big.Int).Sub(new(big.Int).Lsh(big.NewInt(1), uint(w-1)), big.NewInt(1))}
}

func meetIval(a, b ival) ival {
	out := a
	if b.lo != nil && (out.lo == nil || b.lo.Cmp(out.lo) > 0) {
		out.lo = b.lo
	}
	if b.hi != nil && (out.hi == nil || b.hi.Cmp(out.hi) < 0) {
		out.hi = b.hi
	}
	return out
}

func (iv ival) point() (*big.Int, bool) {
	if iv.lo != nil && iv.hi != nil && iv.lo.Cmp(iv.hi) == 0 {
		return iv.lo, true
	}
	return nil, false
}

// ikey: exprKey, extended to constant-indexed elements of local arrays (sig[0]).
func (p *Prog) ikey(e ast.Expr) string {
	e = ast.Unparen(e)
	if ix, ok := e.(*ast.IndexExpr); ok {
		if i, ok := p.constInt64(ix.Index); ok {
			if b := p.exprKey(ix.X); b != "" {
				if t := p.typeOf(ix.X); t != nil {
					if _, isArr := t.Underlying().(*types.Array); isArr {
						return b + "[" + itoa(int(i)) + "]"
					}
				}
			}
		}
		return ""
	}
	return p.exprKey(e)
}

// assignedKeys lists the keys assigned anywhere in n (an assignment to v also kills v.f and v[i]).
func (p *Prog) assignedKeys(n ast.Node) map[string]bool {
	out := map[string]bool{}
	ast.Inspect(n, func(m ast.Node) bool {
		switch x := m.(type) {
		case *ast.AssignStmt:
			for _, l := range x.Lhs {
				if k := p.ikey(l); k != "" {
					out[k] = true
				}
				// an element store with a variable index kills every element
				if ix, ok := ast.Unparen(l).(*ast.IndexExpr); ok {
					if b := p.exprKey(ix.X); b != "" && p.ikey(l) == "" {
						out[b] = true
					}
				}
			}
		case *ast.IncDecStmt:
			if k := p.ikey(x.X); k != "" {
				out[k] = true
			}
		case *ast.RangeStmt:
			for _, l := range []ast.Expr{x.Key, x.Value} {
				if l != nil {
					if k := p.ikey(l); k != "" {
						out[k] = true
					}
				}
			}
		case *ast.UnaryExpr:
			if x.Op == token.AND {
				if k := p.ikey(x.X); k != "" {
					out[k] = true // address taken: anything may happen
				}
			}
		case *ast.CallExpr:
			// a method with a pointer receiver, or a pointer argument, may modify what it points to
			if sel, ok := x.Fun.(*ast.SelectorExpr); ok {
				if s := p.Info.Selections[sel]; s != nil {
					if f, ok := s.Obj().(*types.Func); ok {
						if sig, ok := f.Type().(*types.Signature); ok && sig.Recv() != nil {
							if _, isPtr := sig.Recv().Type().(*types.Pointer); isPtr {
								if k := p.exprKey(sel.X); k != "" {
									out[k] = true
								}
							}
						}
					}
				}
			}
			for _, a := range x.Args {
				if t := p.typeOf(a); t != nil {
					if _, isPtr := t.Underlying().(*types.Pointer); isPtr {
						if k := p.exprKey(a); k != "" {
							// every field path below the pointer is killed, the pointer variable itself is not
							out[k+".\x00any"] = true
						}
					}
				}
			}
		}
		return true
	})
	return out
}

func killed(assigned map[string]bool, k string) bool {
	if assigned[k] {
		return true
	}
	for a := range assigned {
		if strings.HasSuffix(a, ".\x00any") {
			// every field below the pointer
			if strings.HasPrefix(k, strings.TrimSuffix(a, "\x00any")) {
				return true
			}
			continue
		}
		if strings.HasPrefix(k, a+".") || strings.HasPrefix(k, a+"[") {
			return true
		}
	}
	return false
}

// knownResult: intervals of results of package functions that are established elsewhere.
func (p *Prog) knownResult(cn string, idx int) (ival, bool) {
	switch {
	case cn == "Decimal.decompose" && idx == 1:
		// a 14-bit field (E3.codec checks the masks)
		return ival{lo: big.NewInt(0), hi: big.NewInt(16383)}, true
	case strings.HasSuffix(cn, ".log10") && idx == 0:
		return ival{lo: big.NewInt(0), hi: big.NewInt(77)}, true
	case strings.HasSuffix(cn, ".msd2") && idx == 0:
		return ival{lo: big.NewInt(0), hi: big.NewInt(99)}, true
	case (strings.HasPrefix(cn, "math/bits.LeadingZeros") || strings.HasPrefix(cn, "math/bits.TrailingZeros") || strings.HasPrefix(cn, "math/bits.Len")) && idx == 0:
		return ival{lo: big.NewInt(0), hi: big.NewInt(64)}, true
	case idx == 0 && p.Funcs[cn] != nil:
		// a package function all of whose returns are integer constants
		fd := p.Funcs[cn]
		if fd.Body == nil || fd.Type.Results == nil || fd.Type.Results.NumFields() != 1 {
			return ival{}, false
		}
		var lo, hi *big.Int
		okAll := true
		ast.Inspect(fd.Body, func(n ast.Node) bool {
			if _, isLit := n.(*ast.FuncLit); isLit {
				return false
			}
			r, ok := n.(*ast.ReturnStmt)
			if !ok {
				return true
			}
			if len(r.Results) != 1 {
				okAll = false
				return true
			}
			k, ok := constBig(p.constOf(r.Results[0]))
			if !ok {
				okAll = false
				return true
			}
			if lo == nil || k.Cmp(lo) < 0 {
				lo = k
			}
			if hi == nil || k.Cmp(hi) > 0 {
				hi = k
			}
			return true
		})
		if okAll && lo != nil {
			return ival{lo: lo, hi: hi}, true
		}
		return ival{}, false
	}
	return ival{}, false
}

// evalI bounds an integer expression in env.
func (p *Prog) evalI(e ast.Expr, env ienv) ival {
	e = ast.Unparen(e)
	if k, ok := constBig(p.constOf(e)); ok {
		return ival{lo: k, hi: new(big.Int).Set(k)}
	}
	tr := typeRangeOf(p.typeOf(e))
	switch x := e.(type) {
	case *ast.CallExpr:
		if tv, ok := p.Info.Types[x.Fun]; ok && tv.IsType() && len(x.Args) == 1 {
			in := p.evalI(x.Args[0], env)
			to := typeRangeOf(tv.Type)
			if in.lo != nil && in.hi != nil && to.lo != nil && in.lo.Cmp(to.lo) >= 0 && in.hi.Cmp(to.hi) <= 0 {
				return in
			}
			return to
		}
		cn := p.calleeName(x)
		if r, ok := p.knownResult(cn, 0); ok {
			return meetIval(tr, r)
		}
		if (cn == "builtin.min" || cn == "builtin.max") && len(x.Args) >= 1 {
			acc := p.evalI(x.Args[0], env)
			for _, a := range x.Args[1:] {
				b := p.evalI(a, env)
				var r ival
				pick := func(u, v *big.Int, wantMax bool) *big.Int {
					if u == nil || v == nil {
						return nil
					}
					if (u.Cmp(v) > 0) == wantMax {
						return u
					}
					return v
				}
				isMax := cn == "builtin.max"
				r.lo = pick(acc.lo, b.lo, isMax)
				r.hi = pick(acc.hi, b.hi, isMax)
				// max(a,b) >= each lower bound even when the other is unknown; min(a,b) <= each upper bound
				if isMax && r.lo == nil {
					if acc.lo != nil {
						r.lo = acc.lo
					} else {
						r.lo = b.lo
					}
				}
				if !isMax && r.hi == nil {
					if acc.hi != nil {
						r.hi = acc.hi
					} else {
						r.hi = b.hi
					}
				}
				acc = r
			}
			return meetIval(tr, acc)
		}
		if cn == "builtin.len" || cn == "builtin.cap" {
			if t := p.typeOf(x.Args[0]); t != nil {
				if arr, ok := t.Underlying().(*types.Array); ok {
					return ival{lo: big.NewInt(arr.Len()), hi: big.NewInt(arr.Len())}
				}
			}
			return ival{lo: big.NewInt(0), hi: tr.hi}
		}
		return tr
	case *ast.UnaryExpr:
		if x.Op == token.SUB {
			in := p.evalI(x.X, env)
			out := ival{}
			if in.hi != nil {
				out.lo = new(big.Int).Neg(in.hi)
			}
			if in.lo != nil {
				out.hi = new(big.Int).Neg(in.lo)
			}
			return out
		}
		return tr
	case *ast.BinaryExpr:
		l, r := p.evalI(x.X, env), p.evalI(x.Y, env)
		switch x.Op {
		case token.ADD, token.SUB, token.MUL:
			// machine arithmetic wraps: a mathematical result outside the type's range says nothing
			out := p.combine(x.Op, l, r)
			if x.Op == token.MUL && out.lo == nil && out.hi == nil {
				break
			}
			if tr.lo != nil && (out.lo == nil || out.hi == nil || out.lo.Cmp(tr.lo) < 0 || out.hi.Cmp(tr.hi) > 0) {
				// half-bounded results are kept only on the side that cannot have wrapped
				if out.lo != nil && out.hi != nil {
					return tr
				}
				return p.halfBounded(out, l, r, tr)
			}
			if p.ivCurFn != nil && p.ivCurSite != nil && x.Op != token.MUL && !p.ivInLin {
				p.ivInLin = true
				out = p.linRefine(p.ivCurFn, x, p.ivCurSite, env, out)
				p.ivInLin = false
			}
			return out
		}
		switch x.Op {
		case token.ADD:
			out := ival{}
			if l.lo != nil && r.lo != nil {
				out.lo = new(big.Int).Add(l.lo, r.lo)
			}
			if l.hi != nil && r.hi != nil {
				out.hi = new(big.Int).Add(l.hi, r.hi)
			}
			return out
		case token.SUB:
			out := ival{}
			if l.lo != nil && r.hi != nil {
				out.lo = new(big.Int).Sub(l.lo, r.hi)
			}
			if l.hi != nil && r.lo != nil {
				out.hi = new(big.Int).Sub(l.hi, r.lo)
			}
			return out
		case token.MUL:
			if l.lo != nil && l.hi != nil && r.lo != nil && r.hi != nil {
				var lo, hi *big.Int
				for _, a := range []*big.Int{l.lo, l.hi} {
					for _, b := range []*big.Int{r.lo, r.hi} {
						m := new(big.Int).Mul(a, b)
						if lo == nil || m.Cmp(lo) < 0 {
							lo = m
						}
						if hi == nil || m.Cmp(hi) > 0 {
							hi = m
						}
					}
				}
				return ival{lo: lo, hi: hi}
			}
			// one side a constant, the other half-bounded
			if k, ok := r.point(); ok {
				l, r = r, l
				_ = k
			}
			if k, ok := l.point(); ok {
				out := ival{}
				if k.Sign() > 0 {
					if r.lo != nil {
						out.lo = new(big.Int).Mul(k, r.lo)
					}
					if r.hi != nil {
						out.hi = new(big.Int).Mul(k, r.hi)
					}
				} else if k.Sign() < 0 {
					if r.hi != nil {
						out.lo = new(big.Int).Mul(k, r.hi)
					}
					if r.lo != nil {
						out.hi = new(big.Int).Mul(k, r.lo)
					}
				} else {
					out = ival{lo: big.NewInt(0), hi: big.NewInt(0)}
				}
				return out
			}
			return ival{}
		case token.QUO:
			if k, ok := r.point(); ok && k.Sign() > 0 {
				out := ival{}
				if l.lo != nil {
					out.lo = new(big.Int).Quo(l.lo, k)
				}
				if l.hi != nil {
					out.hi = new(big.Int).Quo(l.hi, k)
				}
				return out
			}
			return tr
		case token.REM:
			if k, ok := r.point(); ok && k.Sign() > 0 {
				m := new(big.Int).Sub(k, big.NewInt(1))
				if l.lo != nil && l.lo.Sign() >= 0 {
					return ival{lo: big.NewInt(0), hi: m}
				}
				return ival{lo: new(big.Int).Neg(m), hi: m}
			}
			return tr
		case token.AND:
			for _, s := range []ival{l, r} {
				if k, ok := s.point(); ok && k.Sign() >= 0 {
					return ival{lo: big.NewInt(0), hi: k}
				}
			}
			if l.lo != nil && l.lo.Sign() >= 0 && l.hi != nil {
				return ival{lo: big.NewInt(0), hi: l.hi}
			}
			return tr
		case token.SHR:
			if k, ok := r.point(); ok && k.IsInt64() && k.Int64() >= 0 && k.Int64() < 128 && l.lo != nil && l.hi != nil && l.lo.Sign() >= 0 {
				return ival{lo: new(big.Int).Rsh(l.lo, uint(k.Int64())), hi: new(big.Int).Rsh(l.hi, uint(k.Int64()))}
			}
			return tr
		}
		return tr
	}
	if key := p.ikey(e); key != "" {
		if iv, ok := env[key]; ok {
			return meetIval(tr, iv)
		}
	}
	if ix, ok := e.(*ast.IndexExpr); ok {
		if iv, ok := p.tableLookup(ix, env); ok {
			return meetIval(tr, iv)
		}
	}
	return tr
}

// refineEnv applies `cond == val`.
func (p *Prog) refineEnv(env ienv, cond ast.Expr, val bool) ienv {
	if env.isBottom() {
		return env
	}
	out := p.refineEnv1(env, cond, val)
	if out.isBottom() {
		return out
	}
	for _, v := range out {
		if v.lo != nil && v.hi != nil && v.lo.Cmp(v.hi) > 0 {
			return bottomEnv()
		}
	}
	return out
}

func (p *Prog) refineEnv1(env ienv, cond ast.Expr, val bool) ienv {
	cond = ast.Unparen(cond)
	if b, ok := p.constBool(cond); ok {
		if b != val {
			return bottomEnv()
		}
		return env
	}
	if ue, ok := cond.(*ast.UnaryExpr); ok && ue.Op == token.NOT {
		return p.refineEnv(env, ue.X, !val)
	}
	be, ok := cond.(*ast.BinaryExpr)
	if !ok {
		return env
	}
	if (be.Op == token.LAND && val) || (be.Op == token.LOR && !val) {
		return p.refineEnv(p.refineEnv(env, be.X, val), be.Y, val)
	}
	if be.Op == token.LAND || be.Op == token.LOR {
		// a disjunction: the join of the two refinements
		return joinEnvKeep(env, p.refineEnv(env.clone(), be.X, val), p.refineEnv(env.clone(), be.Y, val))
	}
	op := be.Op
	switch op {
	case token.LSS, token.LEQ, token.GTR, token.GEQ, token.EQL, token.NEQ:
	default:
		return env
	}
	if !val {
		op = negOp(op)
	}
	// pointer compared with nil: tracked as key#nil in {0 = nil, 1 = non-nil}
	for _, pair := range [][2]ast.Expr{{be.X, be.Y}, {be.Y, be.X}} {
		if id, ok := ast.Unparen(pair[1]).(*ast.Ident); ok && id.Name == "nil" && p.objOf(id) == types.Universe.Lookup("nil") {
			if k := p.exprKey(pair[0]); k != "" && (op == token.EQL || op == token.NEQ) {
				want := big.NewInt(1)
				if op == token.EQL {
					want = big.NewInt(0)
				}
				out := env.clone()
				cur, have := out[k+"#nil"]
				if have {
					if pt, isPt := cur.point(); isPt && pt.Cmp(want) != 0 {
						return bottomEnv()
					}
				}
				out[k+"#nil"] = ival{lo: want, hi: want}
				return out
			}
			return env
		}
	}
	if t := p.typeOf(be.X); t == nil || !isIntType(t) {
		return env
	}
	out := env.clone()
	// bound one side by the other: side = key + off
	apply := func(side, other ast.Expr, op token.Token) {
		key, off, ok := p.linearKey(side)
		if !ok {
			return
		}
		o := p.evalI(other, env)
		cur := p.evalI(&ast.Ident{Name: "_"}, nil)
		_ = cur
		iv := out[key]
		sub := func(b *big.Int) *big.Int { return new(big.Int).Sub(b, off) }
		switch op {
		case token.LSS: // key+off < other  =>  key <= other.hi - off - 1
			if o.hi != nil {
				iv = meetIval(iv, ival{hi: new(big.Int).Sub(sub(o.hi), big.NewInt(1))})
			}
		case token.LEQ:
			if o.hi != nil {
				iv = meetIval(iv, ival{hi: sub(o.hi)})
			}
		case token.GTR:
			if o.lo != nil {
				iv = meetIval(iv, ival{lo: new(big.Int).Add(sub(o.lo), big.NewInt(1))})
			}
		case token.GEQ:
			if o.lo != nil {
				iv = meetIval(iv, ival{lo: sub(o.lo)})
			}
		case token.EQL:
			b := ival{}
			if o.lo != nil {
				b.lo = sub(o.lo)
			}
			if o.hi != nil {
				b.hi = sub(o.hi)
			}
			iv = meetIval(iv, b)
		}
		if iv.lo != nil || iv.hi != nil {
			out[key] = iv
		}
	}
	flip := map[token.Token]token.Token{token.LSS: token.GTR, token.LEQ: token.GEQ, token.GTR: token.LSS, token.GEQ: token.LEQ, token.EQL: token.EQL, token.NEQ: token.NEQ}
	// decided by the two intervals alone?
	li, ri := p.evalI(be.X, env), p.evalI(be.Y, env)
	if li.lo != nil && li.hi != nil && ri.lo != nil && ri.hi != nil {
		never := false
		switch op {
		case token.NEQ:
			lp, ok1 := li.point()
			rp, ok2 := ri.point()
			never = ok1 && ok2 && lp.Cmp(rp) == 0
		case token.EQL:
			never = li.hi.Cmp(ri.lo) < 0 || ri.hi.Cmp(li.lo) < 0
		case token.LSS:
			never = li.lo.Cmp(ri.hi) >= 0
		case token.LEQ:
			never = li.lo.Cmp(ri.hi) > 0
		case token.GTR:
			never = li.hi.Cmp(ri.lo) <= 0
		case token.GEQ:
			never = li.hi.Cmp(ri.lo) < 0
		}
		if never {
			return bottomEnv()
		}
	}
	apply(be.X, be.Y, op)
	apply(be.Y, be.X, flip[op])
	return out
}

// joinEnvKeep joins a and b but never loses what base already knew (both refine base).
func joinEnvKeep(base, a, b ienv) ienv {
	if a.isBottom() && b.isBottom() {
		return bottomEnv()
	}
	if a.isBottom() {
		return b
	}
	if b.isBottom() {
		return a
	}
	out := base.clone()
	for k, v := range joinEnv(a, b) {
		out[k] = meetIval(out[k], v)
	}
	return out
}

// linearKey matches `v`, `v + c`, `v - c`, `c + v`, and integer conversions of those.
func (p *Prog) linearKey(e ast.Expr) (string, *big.Int, bool) {
	e = ast.Unparen(e)
	if call, ok := e.(*ast.CallExpr); ok && len(call.Args) == 1 {
		if tv, ok := p.Info.Types[call.Fun]; ok && tv.IsType() && isIntType(tv.Type) {
			// a widening conversion keeps the value
			at := p.typeOf(call.Args[0])
			if at != nil && isIntType(at) {
				aw, _ := typeWidth(at)
				tw, _ := typeWidth(tv.Type)
				if tw >= aw {
					return p.linearKey(call.Args[0])
				}
			}
		}
		return "", nil, false
	}
	if be, ok := e.(*ast.BinaryExpr); ok && (be.Op == token.ADD || be.Op == token.SUB) {
		if c, ok := constBig(p.constOf(be.Y)); ok {
			if k, off, ok := p.linearKey(be.X); ok {
				if be.Op == token.SUB {
					return k, new(big.Int).Sub(off, c), true
				}
				return k, new(big.Int).Add(off, c), true
			}
		}
		if c, ok := constBig(p.constOf(be.X)); ok && be.Op == token.ADD {
			if k, off, ok := p.linearKey(be.Y); ok {
				return k, new(big.Int).Add(off, c), true
			}
		}
		return "", nil, false
	}
	if p.constOf(e) != nil {
		return "", nil, false
	}
	if k := p.ikey(e); k != "" {
		if t := p.typeOf(e); t != nil && isIntType(t) {
			return k, big.NewInt(0), true
		}
	}
	return "", nil, false
}

// envWalk propagates env through list and stops at the statement containing
// `stop` (exclusive), descending into it to pick up enclosing conditions.
func (p *Prog) envWalk(list []ast.Stmt, env ienv, stop ast.Node) (ienv, bool) {
	cur := env
	for _, s := range list {
		if stop != nil && (s == stop || containsNode(s, stop)) {
			switch x := s.(type) {
			case *ast.IfStmt:
				if x.Init != nil {
					cur = p.envStep(x.Init, cur)
				}
				if containsNode(x.Body, stop) {
					return p.envWalk(x.Body.List, p.refineEnv(cur, x.Cond, true), stop)
				}
				if x.Else != nil && containsNode(x.Else, stop) {
					ne := p.refineEnv(cur, x.Cond, false)
					switch eb := x.Else.(type) {
					case *ast.BlockStmt:
						return p.envWalk(eb.List, ne, stop)
					default:
						return p.envWalk([]ast.Stmt{eb}, ne, stop)
					}
				}
				if containsNode(x.Cond, stop) {
					return p.condEnv(x.Cond, cur, stop), true
				}
			case *ast.BlockStmt:
				return p.envWalk(x.List, cur, stop)
			case *ast.ForStmt:
				if x.Init != nil {
					cur = p.envStep(x.Init, cur)
				}
				head, _ := p.loopFix(x, cur)
				body := head
				if x.Cond != nil {
					body = p.refineEnv(body, x.Cond, true)
				}
				if containsNode(x.Body, stop) {
					return p.envWalk(x.Body.List, body, stop)
				}
				return body, true
			case *ast.SwitchStmt:
				if x.Init != nil {
					cur = p.envStep(x.Init, cur)
				}
				for _, cc := range x.Body.List {
					if cl := cc.(*ast.CaseClause); containsNode(cl, stop) {
						ce := cur
						if x.Tag != nil && len(cl.List) == 1 {
							ce = p.refineEnv(cur, &ast.BinaryExpr{X: x.Tag, Op: token.EQL, Y: cl.List[0]}, true)
						}
						return p.envWalk(cl.Body, ce, stop)
					}
				}
			case *ast.LabeledStmt:
				return p.envWalk([]ast.Stmt{x.Stmt}, cur, stop)
			}
			return cur, true
		}
		cur = p.envStep(s, cur)
	}
	return cur, stop == nil
}

// condEnv: facts known at a sub-expression of a condition (short-circuit operands).
func (p *Prog) condEnv(cond ast.Expr, env ienv, stop ast.Node) ienv {
	cond = ast.Unparen(cond)
	if be, ok := cond.(*ast.BinaryExpr); ok && (be.Op == token.LAND || be.Op == token.LOR) {
		if containsNode(be.Y, stop) {
			return p.condEnv(be.Y, p.refineEnv(env, be.X, be.Op == token.LAND), stop)
		}
		if containsNode(be.X, stop) {
			return p.condEnv(be.X, env, stop)
		}
	}
	return env
}

func (p *Prog) forgetAssigned(env ienv, n ast.Node) ienv {
	out := env.clone()
	as := p.assignedKeys(n)
	for k := range out {
		if killed(as, k) {
			delete(out, k)
		}
	}
	return out
}

func (p *Prog) envStep(s ast.Stmt, cur ienv) ienv {
	if cur.isBottom() {
		return cur // unreachable code stays unreachable
	}
	saveSite := p.ivCurSite
	p.ivCurSite = s
	defer func() { p.ivCurSite = saveSite }()
	switch x := s.(type) {
	case *ast.IfStmt:
		if x.Init != nil {
			cur = p.envStep(x.Init, cur)
		}
		thenIn := p.refineEnv(cur, x.Cond, true)
		elseIn := p.refineEnv(cur, x.Cond, false)
		thenOut, _ := p.envWalk(x.Body.List, thenIn, nil)
		elseOut := elseIn
		elseExits := false
		if x.Else != nil {
			switch e := x.Else.(type) {
			case *ast.BlockStmt:
				elseOut, _ = p.envWalk(e.List, elseIn, nil)
				elseExits = exitsBlock(e.List)
			case *ast.IfStmt:
				elseOut = p.envStep(e, elseIn)
			}
		}
		switch {
		case exitsBlock(x.Body.List) && elseExits:
			return ienv{}
		case exitsBlock(x.Body.List):
			return elseOut
		case elseExits:
			return thenOut
		}
		return joinEnv(thenOut, elseOut)
	case *ast.ForStmt:
		if x.Init != nil {
			cur = p.envStep(x.Init, cur)
		}
		head, exits := p.loopFix(x, cur)
		_ = head
		// per-variable clamping/counting idioms the fixpoint cannot see (they need the trip structure)
		for k, v := range cur {
			if _, kept := exits[k]; kept {
				continue
			}
			if killed(p.assignedKeys(x), k) && p.assignsTo(x, k) && !strings.ContainsAny(k, "[.") {
				// (only plain scalar variables: ivalLoop does not see assignments to the aggregate a limb or field belongs to)
				if r := p.ivalLoop(x, v, k); r.lo != nil || r.hi != nil {
					exits[k] = r
				}
			}
		}
		return exits
	case *ast.RangeStmt:
		return p.forgetAssigned(cur, x)
	case *ast.BlockStmt:
		out, _ := p.envWalk(x.List, cur, nil)
		return out
	case *ast.SwitchStmt:
		if x.Init != nil {
			cur = p.envStep(x.Init, cur)
		}
		var outs []ienv
		hasDefault := false
		for _, cc := range x.Body.List {
			cl := cc.(*ast.CaseClause)
			if cl.List == nil {
				hasDefault = true
			}
			ce := cur
			if x.Tag != nil && len(cl.List) == 1 {
				ce = p.refineEnv(cur, &ast.BinaryExpr{X: x.Tag, Op: token.EQL, Y: cl.List[0]}, true)
			}
			o, _ := p.envWalk(cl.Body, ce, nil)
			if !exitsBlock(cl.Body) || endsWithBreak(cl.Body) {
				outs = append(outs, o)
			}
		}
		if !hasDefault {
			outs = append(outs, cur)
		}
		if len(outs) == 0 {
			return ienv{}
		}
		res := outs[0]
		for _, o := range outs[1:] {
			res = joinEnv(res, o)
		}
		return res
	case *ast.AssignStmt:
		out := p.forgetAssigned(cur, x) // also what calls on the right-hand side may modify through pointers
		kill := func(k string) {
			for e := range out {
				if e == k || strings.HasPrefix(e, k+".") || strings.HasPrefix(e, k+"[") {
					delete(out, e)
				}
			}
		}
		if len(x.Lhs) == len(x.Rhs) {
			vals := make([]ival, len(x.Rhs))
			for i, r := range x.Rhs {
				rhs := r
				switch x.Tok {
				case token.ASSIGN, token.DEFINE:
				default:
					op, ok := assignOps[x.Tok]
					if !ok {
						vals[i] = ival{}
						continue
					}
					rhs = &ast.BinaryExpr{X: x.Lhs[i], Op: op, Y: r}
				}
				if t := p.typeOf(x.Lhs[i]); t == nil || !isIntType(t) {
					continue
				}
				vals[i] = p.evalIBin(rhs, cur)
				if p.ivCurFn != nil && (x.Tok == token.ASSIGN || x.Tok == token.DEFINE) {
					vals[i] = p.linRefine(p.ivCurFn, r, x, cur, vals[i])
				} else if p.ivCurFn != nil && (x.Tok == token.ADD_ASSIGN || x.Tok == token.SUB_ASSIGN) {
					// e -= f(e, ...): the old value of e may cancel against the right-hand side
					vals[i] = p.linRefine(p.ivCurFn, rhs, x, cur, vals[i])
				}
			}
			for i, l := range x.Lhs {
				k := p.ikey(l)
				if k == "" {
					// a store through an index that is not a constant kills the whole aggregate
					if ix, ok := ast.Unparen(l).(*ast.IndexExpr); ok {
						if b := p.exprKey(ix.X); b != "" {
							kill(b)
						}
					}
					continue
				}
				kill(k)
				delete(out, k+"#nil")
				if t := p.typeOf(l); t != nil {
					if _, isPtr := t.Underlying().(*types.Pointer); isPtr {
						switch p.nilness(x.Rhs[i], cur) {
						case 1:
							out[k+"#nil"] = ival{lo: big.NewInt(1), hi: big.NewInt(1)}
						case 0:
							out[k+"#nil"] = ival{lo: big.NewInt(0), hi: big.NewInt(0)}
						}
					}
				}
				if t := p.typeOf(l); t == nil || !isIntType(t) {
					if call, ok := ast.Unparen(x.Rhs[i]).(*ast.CallExpr); ok {
						if p.zeroLimbsResult(call, cur) {
							p.setLimbsZero(out, l)
						} else if sel, isSel := call.Fun.(*ast.SelectorExpr); isSel && len(call.Args) == 1 {
							// v.mul64(K): top word <= (top+1)·K - 1 when that still fits a word
							cn := p.calleeName(call)
							if dot := strings.Index(cn, "."); dot > 0 && strings.HasPrefix(cn, "uint") && cn[dot+1:] == "add" {
								// a.add(b) of two n-limb values returns n+1 limbs: the top one is the carry
								nr := limbsOf(p.typeOf(l))
								if na := limbsOf(p.typeOf(sel.X)); nr == na+1 {
									out[k+"["+itoa(nr-1)+"]"] = ival{lo: big.NewInt(0), hi: big.NewInt(1)}
								}
							}
							if dot := strings.Index(cn, "."); dot > 0 && strings.HasPrefix(cn, "uint") && cn[dot+1:] == "add64" {
								// v.add64(c) raises the top word by at most one carry (a subtraction may borrow through zero: no bound)
								n := limbsOf(p.typeOf(sel.X))
								if rk := p.exprKey(sel.X); rk != "" && n > 1 && n == limbsOf(p.typeOf(l)) {
									if v, ok := cur[rk+"["+itoa(n-1)+"]"]; ok && v.hi != nil {
										t := new(big.Int).Set(v.hi)
										if cn[dot+1:] == "add64" {
											t.Add(t, big.NewInt(1))
										}
										if t.BitLen() <= 64 {
											out[k+"["+itoa(n-1)+"]"] = ival{lo: big.NewInt(0), hi: t}
										}
									}
								}
							}
							if dot := strings.Index(cn, "."); dot > 0 && strings.HasPrefix(cn, "uint") && cn[dot+1:] == "mul64" {
								n := limbsOf(p.typeOf(sel.X))
								if kc, ok := constBig(p.constOf(call.Args[0])); ok && n > 1 && n == limbsOf(p.typeOf(l)) {
									if rk := p.exprKey(sel.X); rk != "" {
										if v, ok := cur[rk+"["+itoa(n-1)+"]"]; ok && v.hi != nil {
											t := new(big.Int).Add(v.hi, big.NewInt(1))
											t.Mul(t, kc)
											t.Sub(t, big.NewInt(1))
											if t.BitLen() <= 64 {
												out[k+"["+itoa(n-1)+"]"] = ival{lo: big.NewInt(0), hi: t}
											}
										}
									}
								}
							}
						}
					} else if limbsOf(p.typeOf(l)) > 1 {
						// a plain copy of a limb value carries its limb intervals
						if src := p.exprKey(x.Rhs[i]); src != "" {
							for n := 0; n < limbsOf(p.typeOf(l)); n++ {
								if v, ok := cur[src+"["+itoa(n)+"]"]; ok {
									out[k+"["+itoa(n)+"]"] = v
								}
							}
						}
					}
					continue
				}
				v := meetIval(typeRangeOf(p.typeOf(l)), vals[i])
				if vals[i].lo != nil || vals[i].hi != nil {
					out[k] = v
				}
			}
			return out
		}
		// tuple call
		if len(x.Rhs) == 1 {
			call, _ := ast.Unparen(x.Rhs[0]).(*ast.CallExpr)
			zeroIn := call != nil && p.zeroLimbsResult(call, cur)
			var summary []ivResult
			if call != nil {
				summary = p.calleeSummary(call, cur)
			}
			for i, l := range x.Lhs {
				if i < len(summary) {
					if k := p.ikey(l); k != "" {
						kill(k)
						if summary[i].scalar != nil && (summary[i].scalar.lo != nil || summary[i].scalar.hi != nil) {
							out[k] = *summary[i].scalar
						}
						for n, lv := range summary[i].limbs {
							out[k+"["+itoa(n)+"]"] = lv
						}
						if r, ok := p.knownResult(p.calleeName(call), i); ok {
							out[k] = meetIval(out[k], r)
						}
						if i == 0 && p.ivZeroCoef && p.calleeName(call) == "Decimal.decompose" {
							p.setLimbsZero(out, l)
						}
						continue
					}
				}
				k := p.ikey(l)
				if k == "" {
					continue
				}
				kill(k)
				if call != nil {
					if r, ok := p.knownResult(p.calleeName(call), i); ok {
						out[k] = r
					}
					if i == 0 && (zeroIn || (p.ivZeroCoef && p.calleeName(call) == "Decimal.decompose")) {
						p.setLimbsZero(out, l)
					}
					if i == 0 {
						// coefficients produced by decompose and by the rounding kernel stay within the coefficient
						// limit 5·2^111-1 (E3.codec: decompose's masks; E8.round/E7.G2: the kernel's final loops)
						if cn := p.calleeName(call); cn == "Decimal.decompose" || strings.HasPrefix(cn, "RoundingMode.reduce") || cn == "RoundingMode.round" {
							if n := limbsOf(p.typeOf(l)); n == 2 {
								top := k + "[1]"
								if _, have := out[top]; !have {
									out[top] = ival{lo: big.NewInt(0), hi: new(big.Int).SetUint64(coefLimitHi())}
								}
							}
						}
						// q, r = x.divK(): the quotient's top word does not exceed the dividend's
						if sel, ok := call.Fun.(*ast.SelectorExpr); ok && len(call.Args) == 0 {
							cn := p.calleeName(call)
							if dot := strings.Index(cn, "."); dot > 0 && strings.HasPrefix(cn, "uint") && strings.HasPrefix(cn[dot+1:], "div") {
								n := limbsOf(p.typeOf(sel.X))
								if rk := p.exprKey(sel.X); rk != "" && n > 1 && n == limbsOf(p.typeOf(l)) {
									if v, ok := cur[rk+"["+itoa(n-1)+"]"]; ok && v.hi != nil {
										top := k + "[" + itoa(n-1) + "]"
										hi := v.hi
										// a division by 10^k divides the top word by 10^k as well (rounded down)
										if p.ivDivK == nil {
											p.ivDivK, _ = p.divKTable()
										}
										if info, ok := p.ivDivK[cn]; ok && info.Log10 > 0 && info.Log10 < 40 {
											hi = new(big.Int).Quo(v.hi, pow10(info.Log10))
										}
										if _, have := out[top]; !have {
											out[top] = ival{lo: big.NewInt(0), hi: hi}
										}
									}
								}
							}
						}
					}
					if i == 1 {
						// the exponent delivered by the rounding kernel is not below the minimum exponent
						// (E7.expfloor decides this inside reduceN and round)
						if cn := p.calleeName(call); strings.HasPrefix(cn, "RoundingMode.reduce") || cn == "RoundingMode.round" {
							if t := p.typeOf(l); t != nil && isIntType(t) {
								out[k] = meetIval(typeRangeOf(t), ival{lo: big.NewInt(0)})
							}
						}
					}
					if i == 1 && zeroIn {
						// the remainder of dividing zero
						if t := p.typeOf(l); t != nil && isIntType(t) {
							out[k] = ival{lo: big.NewInt(0), hi: big.NewInt(0)}
						}
					}
				}
			}
		}
		return out
	case *ast.IncDecStmt:
		k := p.ikey(x.X)
		if k == "" {
			return cur
		}
		out := cur.clone()
		d := big.NewInt(1)
		if x.Tok == token.DEC {
			d = big.NewInt(-1)
		}
		v := p.evalI(x.X, cur)
		nv := ival{}
		if v.lo != nil {
			nv.lo = new(big.Int).Add(v.lo, d)
		}
		if v.hi != nil {
			nv.hi = new(big.Int).Add(v.hi, d)
		}
		// wrap-around is not modelled: an increment at the top of the type range loses the bound
		tr := typeRangeOf(p.typeOf(x.X))
		if tr.hi != nil && nv.hi != nil && nv.hi.Cmp(tr.hi) > 0 {
			if p.ivNoIncWrap[k] && x.Tok == token.INC {
				nv.hi = tr.hi // stated assumption of the rule that set the key: this increment does not overflow
			} else {
				nv = ival{}
			}
		}
		if tr.lo != nil && nv.lo != nil && nv.lo.Cmp(tr.lo) < 0 {
			nv = ival{}
		}
		if nv.lo == nil && nv.hi == nil {
			delete(out, k)
		} else {
			out[k] = nv
		}
		return out
	case *ast.DeclStmt:
		out := cur.clone()
		if gd, ok := x.Decl.(*ast.GenDecl); ok && gd.Tok == token.VAR {
			for _, sp := range gd.Specs {
				vs := sp.(*ast.ValueSpec)
				for i, nm := range vs.Names {
					k := p.ikey(nm)
					if k == "" {
						continue
					}
					if t := p.typeOf(nm); t == nil || !isIntType(t) {
						continue
					}
					if i < len(vs.Values) {
						out[k] = p.evalI(vs.Values[i], cur)
					} else {
						out[k] = ival{lo: big.NewInt(0), hi: big.NewInt(0)}
					}
				}
			}
		}
		return out
	case *ast.LabeledStmt:
		return p.envStep(x.Stmt, cur)
	case *ast.ReturnStmt:
		if n := len(p.ivRets); n > 0 {
			fr := p.ivRets[n-1]
			var vals []ivResult
			for _, r := range x.Results {
				var v ivResult
				t := p.typeOf(r)
				switch {
				case t != nil && isIntType(t):
					iv := p.evalI(r, cur)
					v.scalar = &iv
				case t != nil && limbsOf(t) > 1:
					if k := p.exprKey(r); k != "" {
						for i := 0; i < limbsOf(t); i++ {
							lv, ok := cur[k+"["+itoa(i)+"]"]
							if !ok {
								lv = ival{lo: big.NewInt(0), hi: new(big.Int).SetUint64(^uint64(0))}
							}
							v.limbs = append(v.limbs, lv)
						}
					}
				}
				vals = append(vals, v)
			}
			if len(x.Results) == 0 {
				fr.unknown = true
			}
			fr.rets = append(fr.rets, vals)
		}
		return cur
	case *ast.BranchStmt:
		if n := len(p.ivFrames); n > 0 && x.Label == nil {
			switch x.Tok {
			case token.BREAK:
				p.ivFrames[n-1].breaks = append(p.ivFrames[n-1].breaks, cur)
			case token.CONTINUE:
				p.ivFrames[n-1].continues = append(p.ivFrames[n-1].continues, cur)
			}
		}
		return cur
	}
	return p.forgetAssigned(cur, s)
}

type ivFrame struct {
	breaks, continues []ienv
}

func envEqual(a, b ienv) bool {
	if len(a) != len(b) {
		return false
	}
	eq := func(x, y *big.Int) bool {
		if x == nil || y == nil {
			return x == nil && y == nil
		}
		return x.Cmp(y) == 0
	}
	for k, va := range a {
		vb, ok := b[k]
		if !ok || !eq(va.lo, vb.lo) || !eq(va.hi, vb.hi) {
			return false
		}
	}
	return true
}

// loopFix computes an invariant environment at the head of loop x (join of the entry environment and
// everything that flows back) and the environment after the loop (condition false, or a break).
func (p *Prog) loopFix(x *ast.ForStmt, entry ienv) (head, exit ienv) {
	// F(h) = entry ⊔ (what flows back to the head when the body runs from h)
	var fr *ivFrame
	step := func(h ienv) ienv {
		fr = &ivFrame{}
		p.ivFrames = append(p.ivFrames, fr)
		in := h
		if x.Cond != nil {
			in = p.refineEnv(h, x.Cond, true)
		}
		out, _ := p.envWalk(x.Body.List, in, nil)
		p.ivFrames = p.ivFrames[:len(p.ivFrames)-1]
		backs := fr.continues
		if !exitsBlock(x.Body.List) {
			backs = append(backs, out)
		}
		next := entry
		for _, b := range backs {
			if x.Post != nil {
				b = p.envStep(x.Post, b)
			}
			next = joinEnv(next, b)
		}
		return next
	}
	head = entry.clone()
	stable, widened := false, false
	for iter := 0; iter < 24 && !stable; iter++ {
		next := joinEnv(head, step(head))
		if envEqual(next, head) {
			stable = true
			break
		}
		if iter >= 2 {
			// widen: drop every bound that is still moving
			widened = true
			w := ienv{}
			for k, nv := range next {
				hv := head[k]
				keep := ival{}
				if hv.lo != nil && nv.lo != nil && hv.lo.Cmp(nv.lo) == 0 {
					keep.lo = nv.lo
				} else if hv.lo != nil && nv.lo != nil && nv.lo.Sign() >= 0 && hv.lo.Sign() >= 0 {
					// widening with the threshold 0: a lower bound moving down but still non-negative
					// is tried at zero before it is given up (a counter guarded by `> 0`)
					keep.lo = big.NewInt(0)
				}
				if hv.hi != nil && nv.hi != nil && hv.hi.Cmp(nv.hi) == 0 {
					keep.hi = nv.hi
				}
				if keep.lo != nil || keep.hi != nil {
					w[k] = keep
				}
			}
			next = w
		}
		if os.Getenv("DVERIF_DEBUG") == "loopfix" && p.ivCurFn != nil && p.ivCurFn.Name.Name == "round" {
			for k, nv := range next {
				hv := head[k]
				if !(hv.lo != nil && nv.lo != nil && hv.lo.Cmp(nv.lo) == 0 || hv.lo == nil && nv.lo == nil) || !(hv.hi != nil && nv.hi != nil && hv.hi.Cmp(nv.hi) == 0 || hv.hi == nil && nv.hi == nil) {
					fmt.Fprintf(os.Stderr, "LOOPFIX iter %d pos %d: %q [%v,%v] -> [%v,%v]\n", iter, x.Pos(), k, hv.lo, hv.hi, nv.lo, nv.hi)
				}
			}
			for k := range head {
				if _, ok := next[k]; !ok {
					fmt.Fprintf(os.Stderr, "LOOPFIX iter %d pos %d: %q dropped\n", iter, x.Pos(), k)
				}
			}
		}
		head = next
	}
	if !stable {
		// forget everything the loop assigns: trivially invariant
		head = p.forgetAssigned(entry, x)
		widened = true
	}
	if widened {
		// narrowing: head is a post-fixpoint (F(head) ⊑ head), so F(head) and F(F(head)) are too, and tighter
		for k := 0; k < 2; k++ {
			n := step(head)
			if envEqual(n, head) {
				break
			}
			head = n
		}
	}
	if widened {
		p.tripRefine(x, entry, head)
	}
	step(head) // the break environments that belong to the final head
	var exits []ienv
	if x.Cond != nil {
		exits = append(exits, p.refineEnv(head, x.Cond, false))
	}
	exits = append(exits, fr.breaks...)
	if len(exits) == 0 {
		return head, ienv{}
	}
	exit = exits[0]
	for _, e := range exits[1:] {
		exit = joinEnv(exit, e)
	}
	return head, exit.clone()
}

var assignOps = map[token.Token]token.Token{token.ADD_ASSIGN: token.ADD, token.SUB_ASSIGN: token.SUB, token.MUL_ASSIGN: token.MUL, token.QUO_ASSIGN: token.QUO,
	token.REM_ASSIGN: token.REM, token.AND_ASSIGN: token.AND, token.SHR_ASSIGN: token.SHR}

// evalIBin evaluates an expression that may be a synthetic BinaryExpr (no type info of its own).
func (p *Prog) evalIBin(e ast.Expr, env ienv) ival {
	if be, ok := e.(*ast.BinaryExpr); ok {
		if _, typed := p.Info.Types[be]; !typed {
			l, r := p.evalI(be.X, env), p.evalI(be.Y, env)
			tmpEnv := ienv{"\x00l": l, "\x00r": r}
			_ = tmpEnv
			return p.combine(be.Op, l, r)
		}
	}
	return p.evalI(e, env)
}

func (p *Prog) combine(op token.Token, l, r ival) ival {
	switch op {
	case token.ADD:
		out := ival{}
		if l.lo != nil && r.lo != nil {
			out.lo = new(big.Int).Add(l.lo, r.lo)
		}
		if l.hi != nil && r.hi != nil {
			out.hi = new(big.Int).Add(l.hi, r.hi)
		}
		return out
	case token.SUB:
		out := ival{}
		if l.lo != nil && r.hi != nil {
			out.lo = new(big.Int).Sub(l.lo, r.hi)
		}
		if l.hi != nil && r.lo != nil {
			out.hi = new(big.Int).Sub(l.hi, r.lo)
		}
		return out
	case token.MUL:
		if l.lo != nil && l.hi != nil && r.lo != nil && r.hi != nil {
			var lo, hi *big.Int
			for _, a := range []*big.Int{l.lo, l.hi} {
				for _, b := range []*big.Int{r.lo, r.hi} {
					m := new(big.Int).Mul(a, b)
					if lo == nil || m.Cmp(lo) < 0 {
						lo = m
					}
					if hi == nil || m.Cmp(hi) > 0 {
						hi = m
					}
				}
			}
			return ival{lo: lo, hi: hi}
		}
	case token.QUO:
		if k, ok := r.point(); ok && k.Sign() > 0 {
			out := ival{}
			if l.lo != nil {
				out.lo = new(big.Int).Quo(l.lo, k)
			}
			if l.hi != nil {
				out.hi = new(big.Int).Quo(l.hi, k)
			}
			return out
		}
	case token.REM:
		if k, ok := r.point(); ok && k.Sign() > 0 && l.lo != nil && l.lo.Sign() >= 0 {
			return ival{lo: big.NewInt(0), hi: new(big.Int).Sub(k, big.NewInt(1))}
		}
	case token.AND:
		if k, ok := r.point(); ok && k.Sign() >= 0 {
			return ival{lo: big.NewInt(0), hi: k}
		}
	case token.SHR:
		if k, ok := r.point(); ok && k.IsInt64() && k.Int64() >= 0 && k.Int64() < 128 && l.lo != nil && l.hi != nil && l.lo.Sign() >= 0 {
			return ival{lo: new(big.Int).Rsh(l.lo, uint(k.Int64())), hi: new(big.Int).Rsh(l.hi, uint(k.Int64()))}
		}
	}
	return ival{}
}

func endsWithBreak(list []ast.Stmt) bool {
	if len(list) == 0 {
		return false
	}
	b, ok := list[len(list)-1].(*ast.BranchStmt)
	return ok && b.Tok == token.BREAK
}

// intervalAt: the interval of expression e at the site ending `stack`, within fd.
func (p *Prog) intervalAt(fd *ast.FuncDecl, e ast.Expr, stack []ast.Node) ival {
	var site ast.Node
	for i := len(stack) - 1; i >= 0; i-- {
		if _, ok := stack[i].(ast.Stmt); ok {
			site = stack[i]
			break
		}
	}
	if site == nil {
		return p.evalI(e, ienv{})
	}
	saveFn := p.ivCurFn
	p.ivCurFn = fd
	env, reached := p.envWalk(fd.Body.List, p.paramEnv(fd), site)
	p.ivCurFn = saveFn
	if !reached {
		return p.evalI(e, ienv{})
	}
	// facts inside the statement itself (short-circuit conditions)
	if ifs, ok := site.(*ast.IfStmt); ok && containsNode(ifs.Cond, e) {
		env = p.condEnv(ifs.Cond, env, e)
	}
	out := p.evalI(e, env)
	return p.linRefine(fd, e, site, env, out)
}

// linRefine tightens `out`, the interval of e at site, by symbolic cancellation: the same value as a
// linear form over variables whose intervals hold at the site (definitions are looked through only
// when their sources are unchanged since).
func (p *Prog) linRefine(fd *ast.FuncDecl, e ast.Expr, site ast.Node, env ienv, out ival) ival {
	saveLin := p.linEnv
	p.linEnv = env
	terms, c, ok := p.linForm(fd, e, site, 0)
	p.linEnv = saveLin
	if ok && !env.isBottom() && len(terms) > 0 {
		// variable intervals at the site; a variable expanded from an earlier definition keeps its meaning
		// because nothing it depends on was assigned in between
		types_ := map[string]ival{}
		ast.Inspect(fd, func(m ast.Node) bool {
			if ex, ok := m.(ast.Expr); ok {
				if k := p.ikey(ex); k != "" {
					if _, seen := types_[k]; !seen {
						types_[k] = typeRangeOf(p.typeOf(ex))
					}
				}
			}
			return true
		})
		lin := p.linInterval(fd, terms, c, env, func(k string) ival {
			if iv, ok := p.linOpaque[k]; ok {
				return iv
			}
			return types_[k]
		})
		// the linear value is the mathematical one: it equals the machine value only if no intermediate
		// wrapped, which holds when the plain evaluation already stayed inside the type range
		et := p.typeOf(e)
		if be, isBin := e.(*ast.BinaryExpr); isBin && et == nil {
			et = p.typeOf(be.X) // a synthetic `lhs op rhs` of an op-assignment
		}
		tr := typeRangeOf(et)
		if lin.lo != nil && lin.hi != nil && tr.lo != nil && !(out.lo != nil && out.hi != nil && out.lo.Cmp(tr.lo) == 0 && out.hi.Cmp(tr.hi) == 0) {
			out = meetIval(out, lin)
		}
	}
	return out
}

// paramEnv: the integer parameters of an unexported function are bounded by the join of what its
// call sites pass (one call-graph level at a time, depth-limited; exported functions can be called
// with anything).
func (p *Prog) paramEnv(fd *ast.FuncDecl) ienv {
	env := p.paramEnv0(fd)
	// stated assumptions on a parameter (each one is listed by the rule that installs it)
	for k, a := range p.ivParamAssume[fd] {
		if cur, ok := env[k]; ok {
			env[k] = meetIval(cur, a)
		} else {
			env[k] = a
		}
	}
	return env
}

func (p *Prog) paramEnv0(fd *ast.FuncDecl) ienv {
	env := ienv{}
	if fd.Name.IsExported() || fd.Type.Params == nil || p.ivDepth >= 2 {
		return env
	}
	if cached, ok := p.ivParamCache[fd]; ok {
		return cached.clone()
	}
	p.ivDepth++
	defer func() { p.ivDepth-- }()
	var names []*ast.Ident
	for _, f := range fd.Type.Params.List {
		names = append(names, f.Names...)
	}
	joined := make([]*ival, len(names))
	limbJoined := make([][]*ival, len(names)) // per limb parameter: the join of each limb over the call sites
	nSites := 0
	obj := p.Info.Defs[fd.Name]
	for _, cn := range p.sortedFuncNames() {
		cfd := p.Funcs[cn]
		if cfd.Body == nil {
			continue
		}
		walkStack(cfd.Body, func(nd ast.Node, stack []ast.Node) {
			call, ok := nd.(*ast.CallExpr)
			if !ok {
				return
			}
			var callee types.Object
			switch f := ast.Unparen(call.Fun).(type) {
			case *ast.Ident:
				callee = p.Info.Uses[f]
			case *ast.SelectorExpr:
				callee = p.Info.Uses[f.Sel]
			}
			if callee != obj || obj == nil {
				return
			}
			nSites++
			full := append(append([]ast.Node{}, stack...), nd)
			for i := range names {
				if i >= len(call.Args) {
					continue
				}
				if t := p.typeOf(names[i]); t != nil && limbsOf(t) > 1 {
					// a limb value: the limb intervals the caller knows for the argument
					nl := limbsOf(t)
					var site ast.Node
					for j := len(full) - 1; j >= 0; j-- {
						if _, ok := full[j].(ast.Stmt); ok {
							site = full[j]
							break
						}
					}
					ak := p.exprKey(call.Args[i])
					var cenv ienv
					if site != nil && ak != "" {
						save := p.ivCurFn
						p.ivCurFn = cfd
						e2, reached := p.envWalk(cfd.Body.List, p.paramEnv(cfd), site)
						p.ivCurFn = save
						if reached {
							cenv = e2
						}
					}
					if limbJoined[i] == nil {
						limbJoined[i] = make([]*ival, nl)
						for n := 0; n < nl; n++ {
							if v, ok := cenv[ak+"["+itoa(n)+"]"]; ok && cenv != nil {
								c := v
								limbJoined[i][n] = &c
							} else {
								limbJoined[i][n] = &ival{}
							}
						}
					} else {
						for n := 0; n < nl; n++ {
							v, ok := cenv[ak+"["+itoa(n)+"]"]
							if !ok || cenv == nil {
								limbJoined[i][n] = &ival{}
							} else {
								j := joinIval(*limbJoined[i][n], v)
								limbJoined[i][n] = &j
							}
						}
					}
					continue
				}
				if t := p.typeOf(names[i]); t == nil || !isIntType(t) {
					continue
				}
				iv := p.intervalAt(cfd, call.Args[i], full)
				if joined[i] == nil {
					c := iv
					joined[i] = &c
				} else {
					j := joinIval(*joined[i], iv)
					joined[i] = &j
				}
			}
		})
	}
	// a function whose value is taken (not only called) can be called with anything
	taken := false
	for id, o := range p.Info.Uses {
		if o == obj && obj != nil {
			_ = id
		}
	}
	if nSites > 0 && !taken {
		for i, nm := range names {
			if joined[i] != nil && (joined[i].lo != nil || joined[i].hi != nil) {
				if k := p.ikey(nm); k != "" {
					env[k] = *joined[i]
				}
			}
			if limbJoined[i] != nil {
				if k := p.exprKey(nm); k != "" {
					for n, lv := range limbJoined[i] {
						if lv != nil && (lv.lo != nil || lv.hi != nil) {
							env[k+"["+itoa(n)+"]"] = *lv
						}
					}
				}
			}
		}
	}
	if p.ivParamCache == nil {
		p.ivParamCache = map[*ast.FuncDecl]ienv{}
	}
	if p.ivDepth == 1 {
		p.ivParamCache[fd] = env.clone()
	}
	return env
}

// halfBounded: l op r is only half-bounded mathematically (one operand unbounded on one side). Operands are
// always bounded by their own types, so this arises only for untyped situations; keep the type range.
func (p *Prog) halfBounded(out, l, r, tr ival) ival {
	return tr
}

// zeroLimbsResult: call is a method of the integer kernel (uintN) that maps zero to zero (scaling by a
// constant, division by a constant) applied to a receiver all of whose limbs are known to be zero.
func (p *Prog) zeroLimbsResult(call *ast.CallExpr, env ienv) bool {
	sel, ok := call.Fun.(*ast.SelectorExpr)
	if !ok {
		return false
	}
	cn := p.calleeName(call)
	dot := strings.Index(cn, ".")
	if dot < 0 || !strings.HasPrefix(cn, "uint") {
		return false
	}
	m := cn[dot+1:]
	if !(strings.HasPrefix(m, "mul") || strings.HasPrefix(m, "div") || m == "lsh" || m == "rsh") {
		return false
	}
	n := limbsOf(p.typeOf(sel.X))
	k := p.exprKey(sel.X)
	if n < 1 || k == "" {
		return false
	}
	for i := 0; i < n; i++ {
		v, ok := env[k+"["+itoa(i)+"]"]
		if !ok {
			return false
		}
		if pt, isPt := v.point(); !isPt || pt.Sign() != 0 {
			return false
		}
	}
	return true
}

func (p *Prog) setLimbsZero(env ienv, l ast.Expr) {
	k := p.exprKey(l)
	n := limbsOf(p.typeOf(l))
	if k == "" || n < 1 {
		return
	}
	for i := 0; i < n; i++ {
		env[k+"["+itoa(i)+"]"] = ival{lo: big.NewInt(0), hi: big.NewInt(0)}
	}
}

type ivResult struct {
	scalar *ival
	limbs  []ival
}

type ivRetFrame struct {
	rets    [][]ivResult
	unknown bool
}

// calleeSummary: the intervals of the results of a call to a package function, obtained by running the
// analysis over the callee with its parameters bound to the intervals of the arguments (integers and
// limb values), joined over its return statements. Depth-limited; nil when nothing is known.
func (p *Prog) calleeSummary(call *ast.CallExpr, env ienv) []ivResult {
	fd := p.Funcs[p.calleeName(call)]
	if fd == nil || fd.Body == nil || fd.Type.Params == nil || p.ivCallDepth >= 2 {
		return nil
	}
	if fd.Recv != nil && strings.HasPrefix(recvTypeName(fd.Recv.List[0].Type), "uint") {
		return nil // the integer kernel is summarised by zeroLimbsResult only
	}
	if cn := p.calleeName(call); cn == "Decimal.decompose" || strings.HasPrefix(cn, "RoundingMode.") {
		return nil // results known by contract (see the tuple-assignment transfer)
	}
	if fd.Type.Results != nil {
		for _, f := range fd.Type.Results.List {
			if len(f.Names) > 0 {
				return nil // named results: bare returns are not modelled
			}
		}
	}
	var names []*ast.Ident
	for _, f := range fd.Type.Params.List {
		names = append(names, f.Names...)
	}
	if len(names) != len(call.Args) {
		return nil
	}
	in := ienv{}
	for i, nm := range names {
		t := p.typeOf(nm)
		k := p.exprKey(nm)
		if t == nil || k == "" {
			continue
		}
		switch {
		case isIntType(t):
			if iv := p.evalI(call.Args[i], env); iv.lo != nil || iv.hi != nil {
				in[k] = iv
			}
		case limbsOf(t) > 1:
			if ak := p.exprKey(call.Args[i]); ak != "" {
				for n := 0; n < limbsOf(t); n++ {
					if lv, ok := env[ak+"["+itoa(n)+"]"]; ok {
						in[k+"["+itoa(n)+"]"] = lv
					}
				}
			}
		}
	}
	p.ivCallDepth++
	fr := &ivRetFrame{}
	p.ivRets = append(p.ivRets, fr)
	saveFrames := p.ivFrames
	saveFn := p.ivCurFn
	p.ivFrames = nil
	p.ivCurFn = fd
	p.envWalk(fd.Body.List, in, nil)
	p.ivCurFn = saveFn
	p.ivFrames = saveFrames
	p.ivRets = p.ivRets[:len(p.ivRets)-1]
	p.ivCallDepth--
	if fr.unknown || len(fr.rets) == 0 {
		return nil
	}
	out := fr.rets[0]
	for _, r := range fr.rets[1:] {
		if len(r) != len(out) {
			return nil
		}
		for i := range out {
			if out[i].scalar != nil && r[i].scalar != nil {
				j := joinIval(*out[i].scalar, *r[i].scalar)
				out[i].scalar = &j
			} else {
				out[i].scalar = nil
			}
			if len(out[i].limbs) == len(r[i].limbs) {
				for n := range out[i].limbs {
					out[i].limbs[n] = joinIval(out[i].limbs[n], r[i].limbs[n])
				}
			} else {
				out[i].limbs = nil
			}
		}
	}
	return out
}

// nilness of a pointer expression: 1 non-nil, 0 nil, -1 unknown.
func (p *Prog) nilness(e ast.Expr, env ienv) int {
	e = ast.Unparen(e)
	switch x := e.(type) {
	case *ast.Ident:
		if x.Name == "nil" && p.objOf(x) == types.Universe.Lookup("nil") {
			return 0
		}
		if k := p.exprKey(x); k != "" {
			if v, ok := env[k+"#nil"]; ok {
				if pt, isPt := v.point(); isPt {
					return int(pt.Int64())
				}
			}
		}
	case *ast.UnaryExpr:
		if x.Op == token.AND {
			return 1
		}
	case *ast.CallExpr:
		cn := p.calleeName(x)
		if cn == "builtin.new" {
			return 1
		}
		// math/big setters return their receiver
		if strings.HasPrefix(cn, "math/big.") {
			if sel, ok := x.Fun.(*ast.SelectorExpr); ok {
				if t := p.typeOf(sel.X); t != nil {
					if _, isPtr := t.Underlying().(*types.Pointer); isPtr {
						return p.nilness(sel.X, env)
					}
				}
			}
			if strings.HasPrefix(cn, "math/big.New") {
				return 1
			}
		}
	}
	return -1
}

// linForm rewrites an integer expression as Σ coef·variable + constant, expanding locals that are
// defined exactly once (and whose sources are not assigned between that definition and `site`), so that
// terms cancel symbolically: int(exp) - (int(exp) + digits - bias) is bias - digits, which intervals
// alone cannot see. Conversions are looked through only when they cannot change the value (widening).
func (p *Prog) linForm(fd *ast.FuncDecl, e ast.Expr, site ast.Node, depth int) (map[string]*big.Int, *big.Int, bool) {
	e = ast.Unparen(e)
	if k, ok := constBig(p.constOf(e)); ok {
		return map[string]*big.Int{}, k, true
	}
	add := func(a map[string]*big.Int, ac *big.Int, b map[string]*big.Int, bc *big.Int, sign int64) (map[string]*big.Int, *big.Int) {
		out := map[string]*big.Int{}
		for k, v := range a {
			out[k] = new(big.Int).Set(v)
		}
		s := big.NewInt(sign)
		for k, v := range b {
			t := new(big.Int).Mul(v, s)
			if cur, ok := out[k]; ok {
				t.Add(t, cur)
			}
			if t.Sign() == 0 {
				delete(out, k)
			} else {
				out[k] = t
			}
		}
		return out, new(big.Int).Add(ac, new(big.Int).Mul(bc, s))
	}
	switch x := e.(type) {
	case *ast.BinaryExpr:
		switch x.Op {
		case token.ADD, token.SUB:
			a, ac, ok1 := p.linForm(fd, x.X, site, depth)
			b, bc, ok2 := p.linForm(fd, x.Y, site, depth)
			if !ok1 || !ok2 {
				return nil, nil, false
			}
			sign := int64(1)
			if x.Op == token.SUB {
				sign = -1
			}
			m, c := add(a, ac, b, bc, sign)
			return m, c, true
		case token.MUL:
			for _, pair := range [][2]ast.Expr{{x.X, x.Y}, {x.Y, x.X}} {
				if k, ok := constBig(p.constOf(pair[0])); ok {
					b, bc, ok2 := p.linForm(fd, pair[1], site, depth)
					if !ok2 {
						return nil, nil, false
					}
					out := map[string]*big.Int{}
					for key, v := range b {
						out[key] = new(big.Int).Mul(v, k)
					}
					return out, new(big.Int).Mul(bc, k), true
				}
			}
		}
		return nil, nil, false
	case *ast.UnaryExpr:
		if x.Op == token.SUB {
			b, bc, ok := p.linForm(fd, x.X, site, depth)
			if !ok {
				return nil, nil, false
			}
			m, c := add(map[string]*big.Int{}, big.NewInt(0), b, bc, -1)
			return m, c, true
		}
		return nil, nil, false
	case *ast.CallExpr:
		if tv, ok := p.Info.Types[x.Fun]; ok && tv.IsType() && len(x.Args) == 1 && isIntType(tv.Type) {
			at := p.typeOf(x.Args[0])
			if at != nil && isIntType(at) {
				aw, _ := typeWidth(at)
				tw, _ := typeWidth(tv.Type)
				ab := at.Underlying().(*types.Basic)
				tb := tv.Type.Underlying().(*types.Basic)
				// value-preserving: widening with the same signedness, or unsigned to a wider signed type
				if (tw > aw && (ab.Info()&types.IsUnsigned != 0 || tb.Info()&types.IsUnsigned == 0)) || (tw == aw && (ab.Info()&types.IsUnsigned != 0) == (tb.Info()&types.IsUnsigned != 0)) {
					return p.linForm(fd, x.Args[0], site, depth)
				}
				// any other conversion keeps the value when the operand's interval fits the target type
				// (the interval holds at the site of the refinement; a looked-through definition has
				// unchanged sources, so the operand had the same value where it was converted)
				if p.linEnv != nil {
					av, tr := p.evalI(x.Args[0], p.linEnv), typeRangeOf(tv.Type)
					if av.lo != nil && av.hi != nil && tr.lo != nil && tr.hi != nil && av.lo.Cmp(tr.lo) >= 0 && av.hi.Cmp(tr.hi) <= 0 {
						return p.linForm(fd, x.Args[0], site, depth)
					}
				}
			}
		}
	}
	if call, isCall := e.(*ast.CallExpr); isCall && p.linEnv != nil {
		// a call with a bounded result is an opaque term of its own (never cancels, contributes its interval)
		if iv := p.evalI(call, p.linEnv); iv.lo != nil && iv.hi != nil {
			k := "\x01call@" + itoa(int(call.Pos()))
			if p.linOpaque == nil {
				p.linOpaque = map[string]ival{}
			}
			p.linOpaque[k] = iv
			return map[string]*big.Int{k: big.NewInt(1)}, big.NewInt(0), true
		}
	}
	key := p.ikey(e)
	if key == "" {
		return nil, nil, false
	}
	// expand a single-definition local
	if id, ok := e.(*ast.Ident); ok && depth < 4 {
		if o := p.objOf(id); o != nil {
			var def *ast.AssignStmt
			var rhs ast.Expr
			n := 0
			ast.Inspect(fd.Body, func(m ast.Node) bool {
				switch y := m.(type) {
				case *ast.AssignStmt:
					for i, l := range y.Lhs {
						if p.objOf(l) == o {
							n++
							if y.Tok == token.DEFINE && len(y.Lhs) == len(y.Rhs) {
								def, rhs = y, y.Rhs[i]
							}
						}
					}
				case *ast.IncDecStmt:
					if p.objOf(y.X) == o {
						n += 2
					}
				}
				return true
			})
			if n == 1 && def != nil && def.End() <= site.Pos() {
				// the sources of the definition must not change between it and the site
				deps := map[string]bool{}
				ast.Inspect(rhs, func(m ast.Node) bool {
					if ex, ok := m.(ast.Expr); ok {
						if k := p.exprKey(ex); k != "" {
							deps[k] = true
						}
					}
					return true
				})
				clean := true
				ast.Inspect(fd.Body, func(m ast.Node) bool {
					st, ok := m.(ast.Stmt)
					if !ok || st.Pos() < def.End() || st.Pos() >= site.Pos() {
						return true
					}
					switch st.(type) {
					case *ast.AssignStmt, *ast.IncDecStmt:
						for k := range deps {
							if p.assignsTo(st, k) {
								clean = false
							}
						}
					}
					return true
				})
				// and the definition must not sit in a loop that the site is outside of or that reassigns sources
				inLoop := false
				for _, anc := range stackOf(fd, def) {
					switch anc.(type) {
					case *ast.ForStmt, *ast.RangeStmt:
						// a definition inside a loop is looked through only from a site in the same iteration:
						// the site must lie in that loop's body too (the positional check above then covers
						// everything between the two, and the loop's post statement runs after both)
						if !containsNode(anc, site) {
							inLoop = true
						}
					}
				}
				// a loop around the site (but not around the definition) must not assign the sources at all:
				// an assignment textually after the site still precedes the site's next execution
				if siteStmt, ok := site.(ast.Node); ok && clean {
					for _, anc := range stackOf(fd, siteStmt) {
						switch anc.(type) {
						case *ast.ForStmt, *ast.RangeStmt:
							if !containsNode(anc, def) {
								for k := range deps {
									if p.assignsTo(anc, k) {
										clean = false
									}
								}
								if p.assignsTo(anc, key) {
									clean = false
								}
							}
						}
					}
				}
				if clean && !inLoop {
					if m, c, ok := p.linForm(fd, rhs, def, depth+1); ok {
						return m, c, true
					}
				}
			}
		}
	}
	return map[string]*big.Int{key: big.NewInt(1)}, big.NewInt(0), true
}

// linInterval evaluates a linear form on an environment.
func (p *Prog) linInterval(fd *ast.FuncDecl, terms map[string]*big.Int, c *big.Int, env ienv, typeOfKey func(string) ival) ival {
	out := ival{lo: new(big.Int).Set(c), hi: new(big.Int).Set(c)}
	for k, coef := range terms {
		v, ok := env[k]
		if !ok {
			v = typeOfKey(k)
		}
		if v.lo == nil || v.hi == nil {
			return ival{}
		}
		a, b := new(big.Int).Mul(coef, v.lo), new(big.Int).Mul(coef, v.hi)
		if a.Cmp(b) > 0 {
			a, b = b, a
		}
		out.lo.Add(out.lo, a)
		out.hi.Add(out.hi, b)
	}
	return out
}


// tripRefine: a loop whose every full iteration divides a non-zero limb value exactly by 10^k (it
// leaves through `if rem != 0 { break }` otherwise) runs at most floor(bits·log10(2)/k) full
// iterations — 10^(k·T) divides a value below 2^bits. (For a zero value the loop never ends, so no
// state leaves it.) Counters the body only steps by constants are therefore within (T+1) steps of
// their entry value at every point of the loop. Bounds lost by widening are restored from that.
func (p *Prog) tripRefine(x *ast.ForStmt, entry, head ienv) {
	if x.Body == nil {
		return
	}
	hasContinue := false
	ast.Inspect(x.Body, func(n ast.Node) bool {
		if b, ok := n.(*ast.BranchStmt); ok && (b.Tok == token.CONTINUE || b.Tok == token.GOTO) {
			hasContinue = true
		}
		return true
	})
	if hasContinue {
		return
	}
	if p.ivDivK == nil {
		p.ivDivK, _ = p.divKTable()
	}
	trip := int64(-1)
	list := x.Body.List
	for i, s := range list {
		as, ok := s.(*ast.AssignStmt)
		if !ok || len(as.Lhs) != 2 || len(as.Rhs) != 1 {
			continue
		}
		call, ok := as.Rhs[0].(*ast.CallExpr)
		if !ok || len(call.Args) != 0 {
			continue
		}
		sel, ok := call.Fun.(*ast.SelectorExpr)
		if !ok {
			continue
		}
		info, ok := p.ivDivK[p.calleeName(call)]
		if !ok || info.Log10 <= 0 {
			continue
		}
		vk, qk, rk := p.exprKey(sel.X), p.exprKey(as.Lhs[0]), p.exprKey(as.Lhs[1])
		limbs := limbsOf(p.typeOf(sel.X))
		if vk == "" || qk == "" || rk == "" || limbs < 1 {
			continue
		}
		// later in the same list: if rem != 0 { ...; break } and V = q (or the quotient was stored in V directly)
		leaves, commits := false, qk == vk
		for _, t := range list[i+1:] {
			if ifs, ok := t.(*ast.IfStmt); ok && ifs.Else == nil && ifs.Init == nil && endsWithBreak(ifs.Body.List) {
				if be, ok := ast.Unparen(ifs.Cond).(*ast.BinaryExpr); ok && be.Op == token.NEQ && p.exprKey(be.X) == rk {
					if z, ok := p.constInt64(be.Y); ok && z == 0 {
						leaves = true
					}
				}
			}
			if a2, ok := t.(*ast.AssignStmt); ok && a2.Tok == token.ASSIGN && len(a2.Lhs) == 1 && len(a2.Rhs) == 1 && p.exprKey(a2.Lhs[0]) == vk && p.exprKey(a2.Rhs[0]) == qk {
				commits = true
			}
		}
		// V must not be assigned anywhere else in the loop
		others := 0
		ast.Inspect(x.Body, func(n ast.Node) bool {
			if a2, ok := n.(*ast.AssignStmt); ok && a2 != as {
				for _, l := range a2.Lhs {
					if k := p.exprKey(l); k == vk || strings.HasPrefix(k, vk+"[") {
						if !(len(a2.Rhs) == 1 && p.exprKey(a2.Rhs[0]) == qk && qk != vk) {
							others++
						}
					}
				}
			}
			return true
		})
		if leaves && commits && others == 0 {
			// floor(64·limbs·log10(2) / k): 19, 38, 57, 77, 115 digits
			digits := map[int]int64{1: 19, 2: 38, 3: 57, 4: 77, 6: 115}[limbs]
			if digits > 0 {
				trip = digits / int64(info.Log10)
			}
		}
	}
	if trip < 0 {
		return
	}
	// constant steps per iteration, every one of them a statement of the loop body's own list
	pos, neg := map[string]int64{}, map[string]int64{}
	bad := map[string]bool{}
	top := map[ast.Stmt]bool{}
	for _, s := range list {
		top[s] = true
	}
	ast.Inspect(x.Body, func(n ast.Node) bool {
		switch y := n.(type) {
		case *ast.IncDecStmt:
			k := p.ikey(y.X)
			if k == "" {
				return true
			}
			if !top[y] {
				bad[k] = true
			}
			if y.Tok == token.INC {
				pos[k]++
			} else {
				neg[k]++
			}
		case *ast.AssignStmt:
			for i, l := range y.Lhs {
				k := p.ikey(l)
				if k == "" {
					continue
				}
				c, isConst := int64(0), false
				if len(y.Lhs) == 1 && len(y.Rhs) == 1 && (y.Tok == token.ADD_ASSIGN || y.Tok == token.SUB_ASSIGN) {
					c, isConst = p.constInt64(y.Rhs[0])
					if y.Tok == token.SUB_ASSIGN {
						c = -c
					}
				}
				_ = i
				if !isConst || !top[y] {
					bad[k] = true
					continue
				}
				if c >= 0 {
					pos[k] += c
				} else {
					neg[k] -= c
				}
			}
		}
		return true
	})
	for k := range head {
		_ = k
	}
	keys := map[string]bool{}
	for k := range pos {
		keys[k] = true
	}
	for k := range neg {
		keys[k] = true
	}
	for k := range keys {
		if bad[k] {
			continue
		}
		ev, ok := entry[k]
		if !ok {
			continue
		}
		hv := head[k]
		if ev.hi != nil && hv.hi == nil {
			hv.hi = new(big.Int).Add(ev.hi, big.NewInt((trip+1)*pos[k]))
		}
		if ev.lo != nil && hv.lo == nil {
			hv.lo = new(big.Int).Sub(ev.lo, big.NewInt((trip+1)*neg[k]))
		}
		head[k] = hv
	}
}
