package main

import (
	"fmt"
	"go/ast"
	"go/token"
	"sort"
	"strings"
)

// E9 R-DISPATCH: class-domain abstract interpretation of every operation's
// dispatch prologue against a specification table (DESIGN.md Appendix A).

// avOpaque is a parameter whose value is unknown but comparable with
// constants symbolically (mode == ToNegativeInf).
type avOpaque struct{ name string }

func (v avOpaque) avKey() string { return "$" + v.name }

type cls struct {
	class string // nan inf zero fin one
	neg   bool
}

func (c cls) String() string {
	s := "+"
	if c.neg {
		s = "-"
	}
	return s + c.class
}

var baseClasses = []cls{{"nan", false}, {"nan", true}, {"inf", false}, {"inf", true}, {"zero", false}, {"zero", true}, {"fin", false}, {"fin", true}}
var powClasses = append(append([]cls{}, baseClasses...), cls{"one", false}, cls{"one", true})

func operand(i int, c cls) *avDec {
	return &avDec{kind: "opnd", opnd: i, class: c.class, sign: avBool{c.neg}, same: true}
}

func decIntrinsics(in *interp, notOne bool) {
	p := in.p
	cl := func(f func(d *avDec) AV) intrinsicFn {
		return func(in *interp, st *state, call *ast.CallExpr, recv AV, args []AV) ([]AV, bool) {
			d, ok := recv.(*avDec)
			if !ok || d.class == "" {
				return []AV{top}, true
			}
			return []AV{f(d)}, true
		}
	}
	in.intrinsics["Decimal.IsNaN"] = cl(func(d *avDec) AV { return avBool{d.class == "nan"} })
	in.intrinsics["Decimal.isInf"] = cl(func(d *avDec) AV { return avBool{d.class == "inf"} })
	in.intrinsics["Decimal.isSpecial"] = cl(func(d *avDec) AV { return avBool{d.class == "nan" || d.class == "inf"} })
	in.intrinsics["Decimal.IsZero"] = cl(func(d *avDec) AV { return avBool{d.class == "zero"} })
	in.intrinsics["Decimal.isOne"] = cl(func(d *avDec) AV {
		switch d.class {
		case "one":
			return avBool{true}
		case "fin":
			if notOne {
				return avBool{false}
			}
			return top
		}
		return avBool{false}
	})
	// the same predicates written as plain functions of one Decimal
	for _, nm := range []string{"IsNaN", "isInf", "isSpecial", "IsZero", "isOne"} {
		f := in.intrinsics["Decimal."+nm]
		if _, taken := in.intrinsics[nm]; taken || p.Funcs["Decimal."+nm] != nil {
			continue
		}
		lower := strings.ToLower(nm[:1]) + nm[1:]
		for _, alias := range []string{nm, lower} {
			if fd := p.Funcs[alias]; fd != nil && fd.Recv == nil && fd.Type.Params != nil && fd.Type.Params.NumFields() == 1 {
				in.intrinsics[alias] = func(in *interp, st *state, call *ast.CallExpr, recv AV, args []AV) ([]AV, bool) {
					if len(args) == 1 {
						return f(in, st, call, args[0], nil)
					}
					return []AV{top}, true
				}
			}
		}
	}
	in.intrinsics["Decimal.Signbit"] = func(in *interp, st *state, call *ast.CallExpr, recv AV, args []AV) ([]AV, bool) {
		if d, ok := recv.(*avDec); ok && d.sign != nil {
			return []AV{d.sign}, true
		}
		return []AV{top}, true
	}
	in.intrinsics["Decimal.decompose"] = func(in *interp, st *state, call *ast.CallExpr, recv AV, args []AV) ([]AV, bool) {
		if d, ok := recv.(*avDec); ok {
			return []AV{&avTuple{vs: []AV{&avCoef{of: d}, &avExp{of: d}}}}, true
		}
		return []AV{&avTuple{vs: []AV{top, top}}}, true
	}
	mk := func(kind string) intrinsicFn {
		return func(in *interp, st *state, call *ast.CallExpr, recv AV, args []AV) ([]AV, bool) {
			return []AV{&avDec{kind: kind, class: kind, sign: args[0]}}, true
		}
	}
	in.intrinsics["zero"] = mk("zero")
	in.intrinsics["inf"] = mk("inf")
	in.intrinsics["one"] = mk("one")
	in.intrinsics["nan"] = func(in *interp, st *state, call *ast.CallExpr, recv AV, args []AV) ([]AV, bool) {
		return []AV{&avDec{kind: "nan", class: "nan", sign: avBool{false}, pay: [3]AV{args[0], args[1], args[2]}}}, true
	}
	in.intrinsics["compose"] = func(in *interp, st *state, call *ast.CallExpr, recv AV, args []AV) ([]AV, bool) {
		if c, ok := args[1].(*avCoef); ok {
			if e, ok := args[2].(*avExp); ok && e.of == c.of {
				return []AV{&avDec{kind: "fields", opnd: c.of.opnd, class: c.of.class, sign: args[0]}}, true
			}
		}
		return []AV{&avDec{kind: "computed", sign: args[0]}}, true
	}
	red := func(signArg int) intrinsicFn {
		return func(in *interp, st *state, call *ast.CallExpr, recv AV, args []AV) ([]AV, bool) {
			in.roundIDs++
			return []AV{&avTuple{vs: []AV{&avRounded{idx: 0, sign: args[signArg], id: in.roundIDs}, &avRounded{idx: 1, sign: args[signArg], id: in.roundIDs}}}}, true
		}
	}
	for _, n := range []string{"reduce64", "reduce128", "reduce192", "reduce256"} {
		in.intrinsics["RoundingMode."+n] = red(0)
	}
	in.intrinsics["RoundingMode.round"] = red(1)
	// float classes
	fl := func(f func(c string, args []AV) AV) intrinsicFn {
		return func(in *interp, st *state, call *ast.CallExpr, recv AV, args []AV) ([]AV, bool) {
			if len(args) > 0 {
				if v, ok := args[0].(avFloat); ok {
					return []AV{f(v.class, args)}, true
				}
			}
			return []AV{top}, true
		}
	}
	in.intrinsics["math.IsNaN"] = fl(func(c string, a []AV) AV { return avBool{c == "nan"} })
	in.intrinsics["math.Signbit"] = fl(func(c string, a []AV) AV {
		if c == "nan" {
			return top
		}
		return avBool{strings.HasPrefix(c, "-")}
	})
	in.intrinsics["math.IsInf"] = fl(func(c string, a []AV) AV {
		k, ok := a[1].(avInt)
		if !ok {
			return top
		}
		switch {
		case k.v == 0:
			return avBool{c == "+inf" || c == "-inf"}
		case k.v > 0:
			return avBool{c == "+inf"}
		}
		return avBool{c == "-inf"}
	})
	in.intrinsics["math.NaN"] = func(in *interp, st *state, call *ast.CallExpr, recv AV, args []AV) ([]AV, bool) {
		return []AV{avFloat{"nan"}}, true
	}
	in.intrinsics["math.Inf"] = func(in *interp, st *state, call *ast.CallExpr, recv AV, args []AV) ([]AV, bool) {
		if k, ok := args[0].(avInt); ok {
			if k.v >= 0 {
				return []AV{avFloat{"+inf"}}, true
			}
			return []AV{avFloat{"-inf"}}, true
		}
		return []AV{top}, true
	}
	in.intrinsics["math.Copysign"] = func(in *interp, st *state, call *ast.CallExpr, recv AV, args []AV) ([]AV, bool) {
		s, ok := args[1].(avInt)
		if !ok {
			return []AV{top}, true
		}
		mag := ""
		switch v := args[0].(type) {
		case avInt:
			if v.v == 0 {
				mag = "0"
			}
		case avFloat:
			mag = strings.TrimLeft(v.class, "+-")
		}
		if mag == "" || mag == "nan" {
			return []AV{top}, true
		}
		if s.v < 0 {
			return []AV{avFloat{"-" + mag}}, true
		}
		return []AV{avFloat{"+" + mag}}, true
	}
	for _, n := range []string{"Decimal.IsInf", "Decimal.add", "Decimal.AddWithMode", "Decimal.SubWithMode", "Decimal.MulWithMode", "Decimal.QuoWithMode",
		"Decimal.QuoRemWithMode", "Decimal.PowWithMode", "Decimal.Cmp", "Decimal.CmpAbs", "Decimal.Equal",
		"CmpResult.Equal", "CmpResult.Greater", "CmpResult.GreaterOrEqual", "CmpResult.Less", "CmpResult.LessOrEqual",
		"Decimal.Ceil", "Decimal.Floor", "Decimal.Round", "Decimal.Float64", "FromFloat64", "FromInt64", "FromUint64"} {
		in.inline[n] = true
	}
	_ = p
	// helpers extracted from an operation are interpreted with it; the numeric kernels are not
	in.inlineAll = true
	in.noInline = []string{"uint128.", "uint192.", "uint256.", "uint384.", "decomposed192.", "digits.", "Decimal.digits", "Decimal.format", "Decimal.String", "parseNumber", "parse", "formatArgs.", "Payload."}
	// opaque == const comparisons and float == 0
	in.evalLeaf = func(in *interp, st *state, e ast.Expr) (AV, bool) {
		be, ok := e.(*ast.BinaryExpr)
		if !ok || (be.Op != token.EQL && be.Op != token.NEQ) {
			return nil, false
		}
		l := in.eval1(be.X, st)
		r := in.eval1(be.Y, st)
		if o, ok := l.(avOpaque); ok {
			if c, ok := r.(avInt); ok {
				var v AV = atom(fmt.Sprintf("%s==%d", o.name, c.v))
				if be.Op == token.NEQ {
					v = avNot(v)
				}
				return v, true
			}
		}
		if f, ok := l.(avFloat); ok {
			if c, ok := r.(avInt); ok && c.v == 0 {
				z := f.class == "+0" || f.class == "-0"
				return avBool{z == (be.Op == token.EQL)}, true
			}
		}
		return nil, false
	}
}

// ---------------------------------------------------------------------------
// specification helpers

type specEnv struct {
	p       *Prog
	consts  map[string]int64
	missing []string
}

func (s *specEnv) k(name string) int64 {
	if v, ok := s.consts[name]; ok {
		return v
	}
	v, ok := s.p.pkgConstInt(name)
	if !ok {
		s.missing = append(s.missing, name)
		return -999999
	}
	s.consts[name] = v
	return v
}

// payVal is the operand-class code of a class.
func (s *specEnv) payVal(c cls) int64 {
	n := map[string]string{"zero": "Zero", "fin": "Finite", "one": "Finite", "inf": "Infinite"}[c.class]
	if n == "" {
		return -1
	}
	if c.neg {
		return s.k("payloadValNeg" + n)
	}
	return s.k("payloadValPos" + n)
}

func keyNaN(op, l, r int64) string { return fmt.Sprintf("NaN(i%d,i%d,i%d)", op, l, r) }
func keyInf(neg bool) string       { return fmt.Sprintf("Inf(%v)", neg) }
func keyZero(neg bool) string      { return fmt.Sprintf("Zero(%v)", neg) }
func keyOne(neg bool) string       { return fmt.Sprintf("One(%v)", neg) }
func keySame(i int) string         { return fmt.Sprintf("SAME(%d)", i) }
func keyComputed(neg bool) string  { return fmt.Sprintf("COMPUTED(%v)", neg) }
func keyFields(i int, neg bool) string {
	return fmt.Sprintf("FIELDS(%d,sign=%v)", i, neg)
}

// oneOf builds a checker accepting exactly the listed keys.
func oneOf(keys ...string) func(AV) string {
	return func(out AV) string {
		k := out.avKey()
		for _, w := range keys {
			if k == w {
				return ""
			}
		}
		return fmt.Sprintf("outcome %s is not among the admissible %v", k, keys)
	}
}

// decKind: outcome must be a decimal of one of the kinds with the given sign
// ("any" sign allowed when sign == nil).
func decOf(sign *bool, kinds ...string) func(AV) string {
	return func(out AV) string {
		d, ok := out.(*avDec)
		if !ok {
			return "outcome " + out.avKey() + " is not a Decimal"
		}
		okKind := false
		for _, k := range kinds {
			if d.kind == k {
				okKind = true
			}
		}
		if !okKind {
			return fmt.Sprintf("outcome %s is not one of %v", d.avKey(), kinds)
		}
		if sign != nil {
			b, ok := d.sign.(avBool)
			if !ok || b.b != *sign {
				return fmt.Sprintf("outcome %s must have sign negative=%v", d.avKey(), *sign)
			}
		}
		return ""
	}
}

func anyOf(fs ...func(AV) string) func(AV) string {
	return func(out AV) string {
		var why []string
		for _, f := range fs {
			w := f(out)
			if w == "" {
				return ""
			}
			why = append(why, w)
		}
		return strings.Join(why, "; ")
	}
}

func tupleOf(fs ...func(AV) string) func(AV) string {
	return func(out AV) string {
		t, ok := out.(*avTuple)
		if !ok || len(t.vs) != len(fs) {
			return "outcome " + out.avKey() + " is not a " + fmt.Sprint(len(fs)) + "-tuple"
		}
		for i, f := range fs {
			if w := f(t.vs[i]); w != "" {
				return fmt.Sprintf("result %d: %s", i, w)
			}
		}
		return ""
	}
}

func anything(AV) string { return "" }

func isPanic(out AV) string {
	if _, ok := out.(avPanic); ok {
		return ""
	}
	return "outcome " + out.avKey() + ", want panic"
}

func notPanic(out AV) string {
	if _, ok := out.(avPanic); ok {
		return "must not panic"
	}
	return ""
}

func bp(b bool) *bool { return &b }

// symEq accepts a zero/inf/... whose sign is a symbolic formula equivalent to
// atom `name`.
func decSym(kind, atomName string) func(AV) string {
	return func(out AV) string {
		d, ok := out.(*avDec)
		if !ok || d.kind != kind {
			return "outcome " + out.avKey() + " is not " + kind
		}
		s, ok := d.sign.(*avSym)
		if !ok || s.avKey() != "@"+atomName {
			return "sign of " + d.avKey() + " must be exactly (" + atomName + ")"
		}
		return ""
	}
}

// ---------------------------------------------------------------------------

type opSpec struct {
	fn      string
	nDec    int // decimal operands, receiver first
	extra   []AV
	classes []cls
	notOne  bool
	spec    func(s *specEnv, cs []cls) func(AV) string
	props   []string
	// setCheck inspects the whole outcome set of a cell (e.g. "the sign must
	// vary with the parity of y").
	setCheck func(cs []cls, outs []AV) string
	floatArg bool // the single operand is a float64 class
}

func xor(a, b bool) bool { return a != b }

func dispatchSpecs() []opSpec {
	mode := avOpaque{"mode"}
	addSub := func(op string, sub bool) func(s *specEnv, cs []cls) func(AV) string {
		return func(s *specEnv, cs []cls) func(AV) string {
			x, y := cs[0], cs[1]
			yn := xor(y.neg, sub) // effective sign of y
			opc := s.k("payloadOp" + op)
			switch {
			case x.class == "nan":
				return oneOf(keySame(0))
			case y.class == "nan":
				return oneOf(keySame(1))
			case x.class == "inf" && y.class == "inf" && x.neg != yn:
				return oneOf(keyNaN(opc, s.payVal(x), s.payVal(y)))
			case x.class == "inf":
				return oneOf(keyInf(x.neg))
			case y.class == "inf":
				return oneOf(keyInf(yn))
			case x.class == "zero" && y.class == "zero":
				return oneOf(keyZero(x.neg && yn))
			case x.class == "zero":
				if sub {
					return oneOf(keyFields(1, !y.neg))
				}
				return oneOf(keySame(1))
			case y.class == "zero":
				return oneOf(keySame(0))
			}
			zeroMode := decSym("zero", fmt.Sprintf("mode==%d", s.k("ToNegativeInf")))
			if x.neg == yn {
				return anyOf(decOf(bp(x.neg), "computed", "inf"), zeroMode)
			}
			return anyOf(decOf(nil, "computed", "inf"), zeroMode)
		}
	}
	unaryNaN := func(s *specEnv, op string, c cls) string {
		return keyNaN(s.k("payloadOp"+op), s.payVal(c), 0)
	}
	expLike := func(s *specEnv, cs []cls) func(AV) string {
		x := cs[0]
		switch x.class {
		case "nan":
			return oneOf(keySame(0))
		case "inf":
			if x.neg {
				return oneOf(keyZero(false))
			}
			return oneOf(keyInf(false))
		case "zero":
			return oneOf(keyOne(false))
		}
		if x.neg {
			return oneOf(keyComputed(false), keyZero(false))
		}
		return oneOf(keyComputed(false), keyInf(false))
	}
	logLike := func(op string) func(s *specEnv, cs []cls) func(AV) string {
		return func(s *specEnv, cs []cls) func(AV) string {
			x := cs[0]
			switch {
			case x.class == "nan":
				return oneOf(keySame(0))
			case x.class == "inf" && x.neg:
				return oneOf(unaryNaN(s, op, x))
			case x.class == "inf":
				return oneOf(keyInf(false))
			case x.class == "zero":
				return oneOf(keyInf(true))
			case x.neg:
				return oneOf(unaryNaN(s, op, x))
			}
			return decOf(nil, "computed", "inf")
		}
	}
	quant := func(s *specEnv, cs []cls) func(AV) string {
		x := cs[0]
		switch x.class {
		case "nan", "inf":
			return oneOf(keySame(0))
		case "zero":
			return oneOf(keyZero(x.neg))
		}
		return anyOf(oneOf(keySame(0), keyZero(x.neg)), decOf(bp(x.neg), "computed", "inf"))
	}
	cmpSpec := func(abs bool) func(s *specEnv, cs []cls) func(AV) string {
		return func(s *specEnv, cs []cls) func(AV) string {
			x, y := cs[0], cs[1]
			if abs {
				x.neg, y.neg = false, false
			}
			nanK, lt, eq, gt := s.k("cmpNaN"), s.k("cmpLess"), s.k("cmpEqual"), s.k("cmpGreater")
			ik := func(v int64) func(AV) string { return oneOf(fmt.Sprintf("i%d", v)) }
			rank := func(c cls) int { // order of classes for definite answers
				switch c.class {
				case "inf":
					if c.neg {
						return -3
					}
					return 3
				case "zero":
					return 0
				}
				if c.neg {
					return -1
				}
				return 1
			}
			switch {
			case x.class == "nan" || y.class == "nan":
				return ik(nanK)
			}
			rx, ry := rank(x), rank(y)
			switch {
			case rx < ry:
				return ik(lt)
			case rx > ry:
				return ik(gt)
			case x.class != "fin" && x.class != "one":
				return ik(eq)
			}
			// same-sign finite: value-level, anything but NaN
			return func(out AV) string {
				if out.avKey() == fmt.Sprintf("i%d", nanK) {
					return "finite operands must not compare as NaN"
				}
				if v, ok := out.(avInt); ok && (v.v < -1 || v.v > 1) {
					return "result " + out.avKey() + " is not a CmpResult"
				}
				return ""
			}
		}
	}
	// definite Cmp result for classes, or 9 when value-level
	cmpDef := func(x, y cls) int {
		rank := func(c cls) int {
			switch c.class {
			case "inf":
				if c.neg {
					return -3
				}
				return 3
			case "zero":
				return 0
			}
			if c.neg {
				return -1
			}
			return 1
		}
		rx, ry := rank(x), rank(y)
		switch {
		case rx < ry:
			return -1
		case rx > ry:
			return 1
		case x.class == "fin" || x.class == "one":
			return 9
		}
		return 0
	}
	minMax := func(isMax bool) func(s *specEnv, cs []cls) func(AV) string {
		return func(s *specEnv, cs []cls) func(AV) string {
			x, y := cs[0], cs[1]
			switch {
			case x.class == "nan":
				return oneOf(keySame(0))
			case y.class == "nan":
				return oneOf(keySame(1))
			case x.class == "zero" && y.class == "zero":
				if isMax {
					return oneOf(keyZero(x.neg && y.neg))
				}
				return oneOf(keyZero(x.neg || y.neg))
			}
			c := cmpDef(x, y)
			switch {
			case c == 9 || c == 0:
				return oneOf(keySame(0), keySame(1))
			case (c > 0) == isMax:
				return oneOf(keySame(0))
			}
			return oneOf(keySame(1))
		}
	}
	intConv := func(minName, maxName string, unsigned bool) func(s *specEnv, cs []cls) func(AV) string {
		return func(s *specEnv, cs []cls) func(AV) string {
			x := cs[0]
			pair := func(v int64, ok bool) string { return fmt.Sprintf("(i%d, %v)", v, ok) }
			var mn, mx int64
			mx = s.mathConst(maxName)
			if !unsigned {
				mn = s.mathConst(minName)
			}
			okTrue := func(out AV) string {
				t, isT := out.(*avTuple)
				if !isT || len(t.vs) != 2 {
					return "not a pair"
				}
				if b, isB := t.vs[1].(avBool); !isB || !b.b {
					return "outcome " + out.avKey() + ": a failing conversion must return the saturated bound for this sign"
				}
				return ""
			}
			switch {
			case x.class == "nan":
				return isPanic
			case x.class == "inf" && x.neg:
				return oneOf(pair(mn, false))
			case x.class == "inf":
				return oneOf(pair(mx, false))
			case x.class == "zero" && unsigned && x.neg:
				return oneOf(pair(0, false), pair(0, true))
			case x.neg:
				if unsigned {
					return oneOf(pair(0, false))
				}
				return anyOf(oneOf(pair(mn, false)), okTrue)
			}
			return anyOf(oneOf(pair(mx, false)), okTrue)
		}
	}
	specs := []opSpec{
		{fn: "Decimal.AddWithMode", nDec: 2, extra: []AV{mode}, spec: addSub("Add", false), props: []string{"C01", "C15", "C19"}},
		{fn: "Decimal.SubWithMode", nDec: 2, extra: []AV{mode}, spec: addSub("Sub", true), props: []string{"C01", "C15", "C19"}},
		{fn: "Decimal.MulWithMode", nDec: 2, extra: []AV{mode}, props: []string{"C02", "C15", "C19"}, spec: func(s *specEnv, cs []cls) func(AV) string {
			x, y := cs[0], cs[1]
			sg := xor(x.neg, y.neg)
			switch {
			case x.class == "nan":
				return oneOf(keySame(0))
			case y.class == "nan":
				return oneOf(keySame(1))
			case (x.class == "zero" && y.class == "inf") || (x.class == "inf" && y.class == "zero"):
				return oneOf(keyNaN(s.k("payloadOpMul"), s.payVal(x), s.payVal(y)))
			case x.class == "inf" || y.class == "inf":
				return oneOf(keyInf(sg))
			}
			// with a zero operand "the product is zero" is a value test the class
			// domain cannot decide: every outcome must still carry the XOR sign
			return oneOf(keyZero(sg), keyComputed(sg), keyInf(sg))
		}},
		{fn: "Decimal.QuoWithMode", nDec: 2, extra: []AV{mode}, props: []string{"C02", "C15", "C19"}, spec: func(s *specEnv, cs []cls) func(AV) string {
			x, y := cs[0], cs[1]
			sg := xor(x.neg, y.neg)
			switch {
			case x.class == "nan":
				return oneOf(keySame(0))
			case y.class == "nan":
				return oneOf(keySame(1))
			case (x.class == "inf" && y.class == "inf") || (x.class == "zero" && y.class == "zero"):
				return oneOf(keyNaN(s.k("payloadOpQuo"), s.payVal(x), s.payVal(y)))
			case x.class == "inf":
				return oneOf(keyInf(sg))
			case y.class == "inf":
				return oneOf(keyZero(sg))
			case y.class == "zero":
				return oneOf(keyInf(sg))
			case x.class == "zero":
				return oneOf(keyZero(sg))
			}
			return oneOf(keyComputed(sg), keyInf(sg))
		}},
		{fn: "Decimal.QuoRemWithMode", nDec: 2, extra: []AV{mode}, props: []string{"C03", "C15", "C19"}, spec: func(s *specEnv, cs []cls) func(AV) string {
			x, y := cs[0], cs[1]
			sg := xor(x.neg, y.neg)
			opc := s.k("payloadOpQuoRem")
			both := func(k string) func(AV) string { return tupleOf(oneOf(k), oneOf(k)) }
			switch {
			case x.class == "nan":
				return both(keySame(0))
			case y.class == "nan":
				return both(keySame(1))
			case (x.class == "inf" && y.class == "inf") || (x.class == "zero" && y.class == "zero"):
				return both(keyNaN(opc, s.payVal(x), s.payVal(y)))
			case x.class == "inf" || y.class == "zero":
				return tupleOf(oneOf(keyInf(sg)), oneOf(keyNaN(opc, s.payVal(x), s.payVal(y))))
			case y.class == "inf":
				return tupleOf(oneOf(keyZero(sg)), oneOf(keySame(0)))
			case x.class == "zero":
				return tupleOf(oneOf(keyZero(sg)), oneOf(keyZero(x.neg)))
			}
			return tupleOf(oneOf(keyComputed(sg), keyZero(sg), keyInf(sg)), oneOf(keyComputed(x.neg), keySame(0), keyInf(x.neg)))
		}},
		{fn: "Decimal.Cmp", nDec: 2, spec: cmpSpec(false), props: []string{"C04", "C15", "C19"}},
		{fn: "Decimal.CmpAbs", nDec: 2, spec: cmpSpec(true), props: []string{"C04", "C15", "C19"}},
		{fn: "Decimal.Equal", nDec: 2, props: []string{"C04", "C15", "C19"}, spec: func(s *specEnv, cs []cls) func(AV) string {
			x, y := cs[0], cs[1]
			if x.class == "nan" || y.class == "nan" {
				return oneOf("false")
			}
			switch c := cmpDef(x, y); c {
			case 0:
				return oneOf("true")
			case 9:
				return anything
			}
			return oneOf("false")
		}},
		{fn: "Compare", nDec: 2, props: []string{"C04", "C15"}, spec: func(s *specEnv, cs []cls) func(AV) string {
			x, y := cs[0], cs[1]
			switch {
			case x.class == "nan" && y.class == "nan":
				return oneOf("i0")
			case x.class == "nan":
				return oneOf("i-1")
			case y.class == "nan":
				return oneOf("i1")
			}
			if c := cmpDef(x, y); c != 9 {
				return oneOf(fmt.Sprintf("i%d", c))
			}
			return func(out AV) string {
				if v, ok := out.(avInt); ok && (v.v < -1 || v.v > 1) {
					return "Compare of finite operands returned " + out.avKey()
				}
				return ""
			}
		}},
		{fn: "Max", nDec: 2, spec: minMax(true), props: []string{"C04", "C15"}},
		{fn: "Min", nDec: 2, spec: minMax(false), props: []string{"C04", "C15"}},
		{fn: "Decimal.Sign", nDec: 1, props: []string{"C04", "C15", "C20"}, spec: func(s *specEnv, cs []cls) func(AV) string {
			x := cs[0]
			switch {
			case x.class == "nan":
				return isPanic
			case x.class == "zero":
				return oneOf("i0")
			case x.neg:
				return oneOf("i-1")
			}
			return oneOf("i1")
		}},
		{fn: "Sqrt", nDec: 1, props: []string{"C17", "C15"}, spec: func(s *specEnv, cs []cls) func(AV) string {
			x := cs[0]
			switch {
			case x.class == "nan":
				return oneOf(keySame(0))
			case x.class == "zero":
				return oneOf(keySame(0))
			case x.neg:
				return oneOf(keyNaN(s.k("payloadOpSqrt"), s.payVal(x), 0))
			case x.class == "inf":
				return oneOf(keySame(0))
			}
			return oneOf(keyComputed(false), keyInf(false))
		}},
		{fn: "Cbrt", nDec: 1, props: []string{"C17", "C15"}, spec: func(s *specEnv, cs []cls) func(AV) string {
			x := cs[0]
			if x.class != "fin" {
				return oneOf(keySame(0))
			}
			return oneOf(keyComputed(x.neg), keyInf(x.neg))
		}},
		{fn: "Exp", nDec: 1, spec: expLike, props: []string{"C16", "C15"}},
		{fn: "Exp2", nDec: 1, spec: expLike, props: []string{"C16", "C15"}},
		{fn: "Exp10", nDec: 1, spec: expLike, props: []string{"C16", "C15"}},
		{fn: "Expm1", nDec: 1, props: []string{"C16", "C15"}, spec: func(s *specEnv, cs []cls) func(AV) string {
			x := cs[0]
			switch x.class {
			case "nan":
				return oneOf(keySame(0))
			case "inf":
				if x.neg {
					return oneOf(keyOne(true))
				}
				return oneOf(keyInf(false))
			case "zero":
				return oneOf(keyZero(x.neg))
			}
			if x.neg {
				return anyOf(decOf(nil, "computed"), oneOf(keyOne(true)))
			}
			return anyOf(decOf(nil, "computed"), oneOf(keyInf(false)))
		}},
		{fn: "Log", nDec: 1, spec: logLike("Log"), props: []string{"C16", "C15"}},
		{fn: "Log2", nDec: 1, spec: logLike("Log2"), props: []string{"C16", "C15"}},
		{fn: "Log10", nDec: 1, spec: logLike("Log10"), props: []string{"C16", "C15"}},
		{fn: "Log1p", nDec: 1, props: []string{"C16", "C15"}, spec: func(s *specEnv, cs []cls) func(AV) string {
			x := cs[0]
			switch {
			case x.class == "nan":
				return oneOf(keySame(0))
			case x.class == "inf" && x.neg:
				return oneOf(unaryNaN(s, "Log1p", x))
			case x.class == "inf":
				return oneOf(keyInf(false))
			case x.class == "zero":
				return oneOf(keyZero(x.neg))
			case x.neg:
				return anyOf(oneOf(unaryNaN(s, "Log1p", x), keyInf(true)), decOf(nil, "computed", "inf"))
			}
			return decOf(nil, "computed", "inf")
		}},
		{fn: "Decimal.Round", nDec: 1, extra: []AV{top, mode}, spec: quant, props: []string{"C08", "C15"}},
		{fn: "Decimal.Ceil", nDec: 1, extra: []AV{top}, spec: quant, props: []string{"C08", "C15"}},
		{fn: "Decimal.Floor", nDec: 1, extra: []AV{top}, spec: quant, props: []string{"C08", "C15"}},
		{fn: "Decimal.Canonical", nDec: 1, props: []string{"C19", "C15"}, spec: func(s *specEnv, cs []cls) func(AV) string {
			x := cs[0]
			switch x.class {
			case "nan":
				return oneOf(keyNaN(0, 0, 0))
			case "inf":
				return oneOf(keyInf(x.neg))
			case "zero":
				return oneOf(keyZero(x.neg))
			}
			return oneOf(keyComputed(x.neg), keyFields(0, x.neg))
		}},
		{fn: "Frexp", nDec: 1, props: []string{"C11", "C15"}, spec: func(s *specEnv, cs []cls) func(AV) string {
			x := cs[0]
			if x.class != "fin" {
				return tupleOf(oneOf(keySame(0)), oneOf("i0"))
			}
			return tupleOf(oneOf(keyComputed(x.neg)), anything)
		}},
		{fn: "Ldexp", nDec: 1, extra: []AV{top}, props: []string{"C11", "C15"}, spec: func(s *specEnv, cs []cls) func(AV) string {
			x := cs[0]
			if x.class != "fin" {
				return oneOf(keySame(0))
			}
			return oneOf(keyZero(x.neg), keyInf(x.neg), keyComputed(x.neg))
		}},
		{fn: "Decimal.Float64", nDec: 1, props: []string{"C09", "C15"}, spec: func(s *specEnv, cs []cls) func(AV) string {
			x := cs[0]
			sg := "+"
			if x.neg {
				sg = "-"
			}
			switch x.class {
			case "nan":
				return oneOf("float:nan")
			case "inf":
				return oneOf("float:" + sg + "inf")
			case "zero":
				if x.neg {
					return oneOf("float:-0")
				}
				return oneOf("float:+0", "i0")
			}
			// finite: any float of the right sign; definite exits must carry the sign
			return func(out AV) string {
				if f, ok := out.(avFloat); ok {
					if f.class == "nan" || !strings.HasPrefix(f.class, sg) {
						return "finite " + x.String() + " converts to " + f.class
					}
				}
				if v, ok := out.(avInt); ok && x.neg && v.v == 0 {
					return "negative value converts to +0 (the sign must be kept)"
				}
				return ""
			}
		}},
		{fn: "Decimal.Int32", nDec: 1, spec: intConv("MinInt32", "MaxInt32", false), props: []string{"C10", "C15", "C20"}},
		{fn: "Decimal.Int64", nDec: 1, spec: intConv("MinInt64", "MaxInt64", false), props: []string{"C10", "C15", "C20"}},
		{fn: "Decimal.Uint32", nDec: 1, spec: intConv("", "MaxUint32", true), props: []string{"C10", "C15", "C20"}},
		{fn: "Decimal.Uint64", nDec: 1, spec: intConv("", "MaxUint64", true), props: []string{"C10", "C15", "C20"}},
		{fn: "Decimal.Float", nDec: 1, extra: []AV{top}, props: []string{"C09", "C20"}, spec: func(s *specEnv, cs []cls) func(AV) string {
			if cs[0].class == "nan" {
				return isPanic
			}
			return notPanic
		}},
		{fn: "Decimal.Int", nDec: 1, extra: []AV{top}, props: []string{"C10", "C20"}, spec: func(s *specEnv, cs []cls) func(AV) string {
			if cs[0].class == "nan" || cs[0].class == "inf" {
				return isPanic
			}
			return notPanic
		}},
		{fn: "Decimal.Rat", nDec: 1, extra: []AV{top}, props: []string{"C10", "C20"}, spec: func(s *specEnv, cs []cls) func(AV) string {
			if cs[0].class == "nan" || cs[0].class == "inf" {
				return isPanic
			}
			return notPanic
		}},
		{fn: "Decimal.Payload", nDec: 1, props: []string{"C15", "C20"}, spec: func(s *specEnv, cs []cls) func(AV) string {
			if cs[0].class == "nan" {
				return notPanic
			}
			return isPanic
		}},
		{fn: "Decimal.Decompose", nDec: 1, extra: []AV{top}, props: []string{"C14", "C15"}, spec: func(s *specEnv, cs []cls) func(AV) string {
			x := cs[0]
			form := map[string]int64{"nan": 2, "inf": 1, "zero": 0, "fin": 0}[x.class]
			if x.class == "fin" {
				return tupleOf(oneOf("i0"), oneOf(fmt.Sprint(x.neg)), anything, anything)
			}
			return oneOf(fmt.Sprintf("(i%d, %v, nil, i0)", form, x.neg))
		}},
		{fn: "Decimal.MarshalJSON", nDec: 1, props: []string{"C13", "C15"}, spec: func(s *specEnv, cs []cls) func(AV) string {
			x := cs[0]
			if x.class == "nan" || x.class == "inf" {
				return oneOf("(nil, err:*UnsupportedValueError)")
			}
			return tupleOf(anything, oneOf("nil"))
		}},
		{fn: "Decimal.IsInf", nDec: 1, extra: []AV{avInt{0}}, props: []string{"C15", "C12"}, spec: func(s *specEnv, cs []cls) func(AV) string {
			return oneOf(fmt.Sprint(cs[0].class == "inf"))
		}},
		{fn: "Decimal.IsInf", nDec: 1, extra: []AV{avInt{1}}, props: []string{"C15", "C12"}, spec: func(s *specEnv, cs []cls) func(AV) string {
			return oneOf(fmt.Sprint(cs[0].class == "inf" && !cs[0].neg))
		}},
		{fn: "Decimal.IsInf", nDec: 1, extra: []AV{avInt{-1}}, props: []string{"C15", "C12"}, spec: func(s *specEnv, cs []cls) func(AV) string {
			return oneOf(fmt.Sprint(cs[0].class == "inf" && cs[0].neg))
		}},
	}
	specs = append(specs, opSpec{fn: "Decimal.PowWithMode", nDec: 2, extra: []AV{mode}, classes: powClasses, notOne: true, props: []string{"C18", "C15"},
		spec: func(s *specEnv, cs []cls) func(AV) string {
			x, y := cs[0], cs[1]
			signed := func(neg bool, kinds ...string) func(AV) string { return decOf(bp(neg), kinds...) }
			switch {
			case y.class == "zero":
				return oneOf(keyOne(false))
			case x.class == "one" && !x.neg:
				return oneOf(keyOne(false))
			case x.class == "one" && x.neg && y.class == "inf":
				return oneOf(keyOne(false))
			case y.class == "one" && !y.neg:
				return oneOf(keySame(0))
			case y.class == "one" && y.neg: // the mode-rounded reciprocal
				switch x.class {
				case "nan":
					return oneOf(keySame(0))
				case "inf":
					return oneOf(keyZero(x.neg))
				case "zero":
					return oneOf(keyInf(x.neg))
				}
				return oneOf(keyComputed(x.neg), keyInf(x.neg))
			case x.class == "nan":
				return oneOf(keySame(0))
			case y.class == "nan":
				return oneOf(keySame(1))
			case y.class == "inf":
				switch x.class {
				case "zero":
					if y.neg {
						return oneOf(keyInf(false))
					}
					return oneOf(keyZero(false))
				case "inf":
					if y.neg {
						return oneOf(keyZero(false))
					}
					return oneOf(keyInf(false))
				}
				return oneOf(keyZero(false), keyInf(false)) // |x| vs 1 is a value test
			case x.class == "zero":
				kind := "zero"
				if y.neg {
					kind = "inf"
				}
				if x.neg {
					return decOf(nil, kind) // sign = parity of y
				}
				return signed(false, kind)
			case x.class == "inf":
				kind := "inf"
				if y.neg {
					kind = "zero"
				}
				if x.neg {
					return decOf(nil, kind)
				}
				return signed(false, kind)
			}
			if !x.neg {
				return signed(false, "computed", "one", "zero", "inf", "fields")
			}
			return anyOf(oneOf(keyNaN(s.k("payloadOpPow"), s.k("payloadValNegFinite"), s.payVal(y))), decOf(nil, "computed", "one", "zero", "inf", "fields"))
		},
		setCheck: func(cs []cls, outs []AV) string {
			x, y := cs[0], cs[1]
			// negative base (incl. -0, -Inf) with a finite exponent other than ±1:
			// the result sign is (-1)^y, so it must not be constant.
			if !x.neg || x.class == "nan" || (y.class != "fin") {
				return ""
			}
			pos, neg := false, false
			for _, o := range outs {
				if d, ok := o.(*avDec); ok && d.kind != "nan" {
					if b, ok := d.sign.(avBool); ok {
						if b.b {
							neg = true
						} else {
							pos = true
						}
					} else {
						pos, neg = true, true
					}
				}
			}
			if !(pos && neg) {
				return "a negative base raised to a finite power must take its sign from the parity of the exponent, but the result sign is constant"
			}
			return ""
		}})
	specs = append(specs, opSpec{fn: "FromFloat64", nDec: 1, floatArg: true, props: []string{"C09", "C15"}, spec: func(s *specEnv, cs []cls) func(AV) string {
		x := cs[0]
		switch x.class {
		case "nan":
			return oneOf(keyNaN(s.k("payloadOpFromFloat64"), 0, 0))
		case "inf":
			return oneOf(keyInf(x.neg))
		case "zero":
			return oneOf(keyZero(x.neg))
		}
		return decOf(nil, "computed", "inf")
	}})
	return specs
}

func (s *specEnv) mathConst(name string) int64 {
	switch name {
	case "MinInt32":
		return -1 << 31
	case "MaxInt32":
		return 1<<31 - 1
	case "MinInt64":
		return -1 << 63
	case "MaxInt64":
		return 1<<63 - 1
	case "MaxUint32":
		return 1<<32 - 1
	case "MaxUint64":
		return -1 // two's complement image of 2^64-1 in the checker's int64 constants
	}
	return 0
}

func ruleDispatch(c *Ctx) {
	p := c.P
	for _, sp := range dispatchSpecs() {
		fd := p.Funcs[sp.fn]
		if fd == nil || fd.Body == nil {
			c.undecided("anchor:"+sp.fn, nil, "operation "+sp.fn+" not found", sp.props...)
			continue
		}
		classes := sp.classes
		if classes == nil {
			classes = baseClasses
		}
		var tuples [][]cls
		if sp.nDec == 1 {
			for _, a := range classes {
				tuples = append(tuples, []cls{a})
			}
		} else {
			for _, a := range classes {
				for _, b := range classes {
					tuples = append(tuples, []cls{a, b})
				}
			}
		}
		extraKey := ""
		for _, e := range sp.extra {
			if iv, ok := e.(avInt); ok {
				extraKey += fmt.Sprintf(",%d", iv.v)
			}
		}
		for _, cs := range tuples {
			se := &specEnv{p: p, consts: map[string]int64{}}
			want := sp.spec(se, cs)
			var names []string
			for _, cl := range cs {
				names = append(names, cl.String())
			}
			key := fmt.Sprintf("cell:%s(%s%s)", sp.fn, strings.Join(names, ","), extraKey)
			if len(se.missing) > 0 {
				c.undecided(key, fd, "specification constants missing: "+strings.Join(se.missing, ","), sp.props...)
				continue
			}
			in := newInterp(p)
			decIntrinsics(in, sp.notOne)
			var recv AV
			var args []AV
			if sp.floatArg {
				sg := "+"
				if cs[0].neg {
					sg = "-"
				}
				fc := map[string]string{"nan": "nan", "inf": sg + "inf", "zero": sg + "0", "fin": sg + "fin"}[cs[0].class]
				args = append(args, avFloat{fc})
			} else {
				ops := make([]*avDec, len(cs))
				for i, cl := range cs {
					ops[i] = operand(i, cl)
				}
				oi := 0
				if fd.Recv != nil {
					recv = ops[0]
					oi = 1
				}
				for ; oi < len(ops); oi++ {
					args = append(args, ops[oi])
				}
			}
			args = append(args, sp.extra...)
			outs := in.runFunc(fd, recv, args)
			if in.overflow {
				c.undecided(key, fd, "abstract interpretation exceeded its budget: "+strings.Join(in.notes, "; "), sp.props...)
				continue
			}
			if len(outs) == 0 {
				c.undecided(key, fd, "no outcome reached", sp.props...)
				continue
			}
			var bad []string
			var keys []string
			for _, o := range outs {
				keys = append(keys, o.avKey())
				if w := want(o); w != "" {
					bad = append(bad, w)
				}
			}
			sort.Strings(keys)
			if sp.setCheck != nil {
				if w := sp.setCheck(cs, outs); w != "" {
					bad = append(bad, w)
				}
			}
			if len(bad) > 0 {
				c.bad(key, fd, fmt.Sprintf("%s on operand classes (%s): %s [all outcomes: %s]", sp.fn, strings.Join(names, ","), strings.Join(bad, " | "), strings.Join(keys, " ")), sp.props...)
			} else {
				c.ok(key, fd, "outcomes: "+strings.Join(keys, " "), sp.props...)
			}
		}
	}
}
