package main

import (
	"fmt"
	"go/ast"
	"go/token"
	"go/types"
)

// E3 R-LAYOUT: bit fields and byte tables.
//
// IEEE 754-2008 decimal128, binary integer decimal (BID) encoding, as one
// 128-bit word hi‖lo:
//
//	bit 127 (hi[63])            sign
//	combination field G0..G16 = hi[62..46], trailing significand T = hi[45..0]‖lo (110 bits)
//	G0G1 != 11: biased exponent = G0..G13 = hi[62..49], coefficient = G14..G16‖T = hi[48..0]‖lo (113 bits)
//	G0G1 == 11, G2G3 != 11: exponent = G2..G15 = hi[60..47], coefficient = 100‖G16‖T (implicit 2^113 plus hi[46..0]‖lo)
//	G0..G4 = 11110: infinity; 11111: NaN
//
// The constants below are derived from these parameters, not read from /repo.
const (
	bidSignBit   = 63
	bidExpBits   = 14
	bidForm1ExpL = 49 // exponent at hi[62..49]
	bidForm2ExpL = 47 // exponent at hi[60..47]
)

// fieldInput resolves leaf expressions of the form X.hi / X.lo / X[i] for a
// given variable to named input vectors.
func (p *Prog) leafInputs(names map[types.Object]string, widths map[string]int, known map[string]bitvec) func(e ast.Expr) (bitvec, bool) {
	return func(e ast.Expr) (bitvec, bool) {
		key := ""
		switch x := e.(type) {
		case *ast.SelectorExpr:
			if o := p.objOf(x.X); o != nil {
				if n, ok := names[o]; ok {
					key = n + "." + x.Sel.Name
				}
			}
		case *ast.IndexExpr:
			if o := p.objOf(x.X); o != nil {
				if n, ok := names[o]; ok {
					if i, ok := p.constInt64(x.Index); ok {
						key = fmt.Sprintf("%s%d", n, i)
					}
				}
			}
		case *ast.Ident:
			if o := p.objOf(x); o != nil {
				if n, ok := names[o]; ok {
					key = n
				}
			}
		}
		if key == "" {
			return bitvec{}, false
		}
		if v, ok := known[key]; ok {
			return v, true
		}
		w := 64
		if ww, ok := widths[key]; ok {
			w = ww
		} else if tv, ok := p.Info.Types[e]; ok {
			if ww, ok := typeWidth(tv.Type); ok {
				w = ww
			}
		}
		return inputVec(key, w), true
	}
}

func recvObj(p *Prog, fd *ast.FuncDecl) types.Object {
	if p.asMethod[fd] {
		// a method rewritten as a function of its former receiver
		return p.Info.Defs[fd.Type.Params.List[0].Names[0]]
	}
	if fd.Recv == nil || len(fd.Recv.List) != 1 || len(fd.Recv.List[0].Names) != 1 {
		return nil
	}
	return p.Info.Defs[fd.Recv.List[0].Names[0]]
}

func paramObjs(p *Prog, fd *ast.FuncDecl) []types.Object {
	var out []types.Object
	if fd.Type.Params == nil {
		return nil
	}
	for _, f := range fd.Type.Params.List {
		for _, n := range f.Names {
			out = append(out, p.Info.Defs[n])
		}
	}
	if p.asMethod[fd] && len(out) > 0 {
		out = out[1:]
	}
	return out
}

// maskTest matches `X.hi & M == V` (also `!= 0` / `== 0` on a single-bit
// mask, `!=` forms through negation) and returns M, V such that the
// expression is true iff hi & M == V; ok is false for other shapes.
func (p *Prog) maskTest(e ast.Expr, recv types.Object) (m, v uint64, ok bool) {
	m, v, eq, ok := p.maskTestEq(e, recv)
	if !ok {
		return 0, 0, false
	}
	if eq {
		return m, v, true
	}
	// hi & M != V is expressible as an equality only for a single-bit mask
	if m != 0 && m&(m-1) == 0 {
		return m, v ^ m, true
	}
	return 0, 0, false
}

// maskTestEq matches (X.hi & M) ==/!= V.
func (p *Prog) maskTestEq(e ast.Expr, recv types.Object) (m, v uint64, eq bool, ok bool) {
	neg := false
	for {
		e = ast.Unparen(e)
		if ue, isU := e.(*ast.UnaryExpr); isU && ue.Op == token.NOT {
			neg = !neg
			e = ue.X
			continue
		}
		break
	}
	be, isB := e.(*ast.BinaryExpr)
	if !isB || (be.Op != token.EQL && be.Op != token.NEQ) {
		return
	}
	lhs, rhs := be.X, be.Y
	if p.constOf(lhs) != nil {
		lhs, rhs = rhs, lhs
	}
	l, isB := ast.Unparen(lhs).(*ast.BinaryExpr)
	if !isB || l.Op != token.AND {
		return
	}
	fld, mask := l.X, l.Y
	if p.constOf(fld) != nil {
		fld, mask = mask, fld
	}
	sel, isS := ast.Unparen(fld).(*ast.SelectorExpr)
	if !isS || sel.Sel.Name != "hi" || p.objOf(sel.X) != recv {
		return
	}
	m, ok1 := p.constUint64(mask)
	v, ok2 := p.constUint64(rhs)
	if !ok1 || !ok2 {
		return
	}
	eq = (be.Op == token.EQL) != neg
	return m, v, eq, true
}

type classPred struct {
	m, v uint64
}

func ruleLayoutPredicates(c *Ctx) {
	p := c.P
	preds := map[string]classPred{}
	for _, name := range []string{"Decimal.IsNaN", "Decimal.isInf", "Decimal.isSpecial", "Decimal.Signbit"} {
		fd := c.fn(name)
		if fd == nil {
			continue
		}
		bp, why := p.evalBitPred(fd)
		if why != "" || bp.never || len(bp.negs) != 0 {
			c.undecided("pred.shape:"+name, fd, "predicate is not a single test of bits of d.hi: "+why+" "+bp.String())
			continue
		}
		var m, v uint64
		okBits := true
		for k, bit := range bp.pos {
			var idx int
			if _, err := fmt.Sscanf(k, "hi[%d]", &idx); err != nil {
				okBits = false
				continue
			}
			m |= 1 << uint(idx)
			if bit == '1' {
				v |= 1 << uint(idx)
			}
		}
		if !okBits {
			c.undecided("pred.shape:"+name, fd, "predicate looks at bits outside d.hi: "+bp.String())
			continue
		}
		preds[name] = classPred{m, v}
	}
	// expected masks derived from the layout: G0..G4 = hi[62..58]
	g := func(bits string) uint64 { // bits for hi[62..58]
		var u uint64
		for i, ch := range bits {
			if ch == '1' {
				u |= 1 << uint(62-i)
			}
		}
		return u
	}
	want := map[string]classPred{
		"Decimal.IsNaN":     {g("11111"), g("11111")},
		"Decimal.isInf":     {g("11111"), g("11110")},
		"Decimal.isSpecial": {g("11110"), g("11110")},
		"Decimal.Signbit":   {1 << bidSignBit, 1 << bidSignBit},
	}
	for name, w := range want {
		got, ok := preds[name]
		if !ok {
			continue
		}
		c.check(got == w, "pred:"+name, c.P.Funcs[name], fmt.Sprintf("d.hi & %#x == %#x", w.m, w.v),
			fmt.Sprintf("%s tests d.hi & %#x == %#x; the BID layout requires mask %#x value %#x", name, got.m, got.v, w.m, w.v))
	}
	// IsZero: form 2 (steering 11) is never zero; otherwise coefficient hi[48..0]‖lo == 0.
	if fd := c.fn("Decimal.IsZero"); fd != nil {
		steer := uint64(3) << 61
		coef := uint64(1)<<bidForm1ExpL - 1
		bp, why := p.evalBitPred(fd)
		wantPos, _ := wantBits("hi", coef, 0).merge(wantBits("lo", ^uint64(0), 0))
		okZ := why == "" && !bp.never && bp.pos.equal(wantPos) && len(bp.negs) == 1 && bp.negs[0].equal(wantBits("hi", steer, steer))
		// `steering != 11` may also be folded away when it is implied... it is not: bits 62..61 are outside the coefficient mask
		c.check(okZ, "pred:Decimal.IsZero", fd, "zero iff not form 2 and hi[48..0]‖lo == 0",
			"IsZero must be: steering bits 11 -> false, else lo == 0 && hi & (2^49-1) == 0; it is "+why+" "+bp.String())
	}
	// Partition: enumerate hi[63..58] × coefficient zero / non-zero and require
	// exactly one of NaN / Inf / zero / finite-non-zero, isSpecial = NaN or Inf.
	if len(preds) == 4 {
		okAll := true
		detail := ""
		for top := uint64(0); top < 64; top++ {
			hi := top << 58
			ev := func(cp classPred) bool { return hi&cp.m == cp.v }
			nan, inf, spec := ev(preds["Decimal.IsNaN"]), ev(preds["Decimal.isInf"]), ev(preds["Decimal.isSpecial"])
			if nan && inf {
				okAll = false
				detail += fmt.Sprintf(" top=%06b both NaN and Inf;", top)
			}
			if spec != (nan || inf) {
				okAll = false
				detail += fmt.Sprintf(" top=%06b isSpecial=%v but NaN=%v Inf=%v;", top, spec, nan, inf)
			}
			// zero-ness (by the verified IsZero shape): form 2 patterns are never zero;
			// special patterns have steering 11, so they are never zero either.
			steering := hi>>61&3 == 3
			if spec && !steering {
				okAll = false
				detail += fmt.Sprintf(" top=%06b special without steering bits;", top)
			}
		}
		c.check(okAll, "pred.partition", nil, "the four predicates partition all 64 values of hi[63..58] (× zero/non-zero coefficient): exactly one of NaN, Inf, zero, finite-non-zero", "class predicates do not partition the bit patterns:"+detail)
	}
}

// ruleLayoutCompose checks compose and decompose against the BID layout with
// bit-provenance evaluation of each branch.
func ruleLayoutCompose(c *Ctx) {
	p := c.P
	if fd := c.fn("Decimal.decompose"); fd != nil {
		recv := recvObj(p, fd)
		names := map[types.Object]string{recv: "d"}
		paths := p.bvPaths(fd, names, nil)
		if paths == nil || len(paths) != 2 {
			c.undecided("decompose.shape", fd, fmt.Sprintf("decompose must have exactly two paths selected by the steering bits (found %d)", len(paths)))
		} else {
			for _, pa := range paths {
				if len(pa.results) != 2 || len(pa.results[0]) != 2 || len(pa.results[1]) != 1 {
					c.undecided("decompose.shape", fd, "decompose must return (uint128 literal, int16)")
					continue
				}
				m, v, eq, ok := p.maskTestEq(pa.cond, recv)
				if !ok || m != 3<<61 || v != 3<<61 {
					c.bad("decompose.cond", pa.cond, "decompose must select form 2 iff hi[62..61] == 11")
					continue
				}
				var wantHi, wantExp bitvec
				form := "form1"
				if pa.taken == eq {
					form = "form2"
					wantHi = expectVec([]run{{46, 0, "d.hi", 0}}, []int{49})
					wantExp = expectVec([]run{{13, 0, "d.hi", bidForm2ExpL}}, nil)
				} else {
					wantHi = expectVec([]run{{48, 0, "d.hi", 0}}, nil)
					wantExp = expectVec([]run{{13, 0, "d.hi", bidForm1ExpL}}, nil)
				}
				wantLo := expectVec([]run{{63, 0, "d.lo", 0}}, nil)
				c.check(pa.results[0][0] == wantLo, "decompose."+form+".lo", pa.ret, "sig[0] = lo", "decompose "+form+": low coefficient word is "+pa.results[0][0].describe()+", want all of d.lo")
				c.check(pa.results[0][1] == wantHi, "decompose."+form+".hi", pa.ret, "sig[1] = "+wantHi.describe(), "decompose "+form+": high coefficient word is "+pa.results[0][1].describe()+", BID requires "+wantHi.describe())
				c.check(pa.results[1][0] == wantExp, "decompose."+form+".exp", pa.ret, "exp = "+wantExp.describe(), "decompose "+form+": exponent is "+pa.results[1][0].describe()+", BID requires "+wantExp.describe())
			}
		}
	}
	if fd := c.fn("compose"); fd != nil {
		ps := paramObjs(p, fd)
		if len(ps) != 3 {
			c.undecided("compose.shape", fd, "compose(neg, sig, exp) expected")
			return
		}
		p.checkComposePaths(c, fd, ps)
	}
}

// bvPath is one path through a function made of if/else on conditions, plain
// assignments and a return.
type bvPath struct {
	cond    ast.Expr // the (single) opaque/mask condition on this path, if any
	taken   bool
	results [][]bitvec // per result expression, the words of a literal or a scalar
	ret     *ast.ReturnStmt
}

// bvPaths enumerates paths of a small straight-line function with at most one
// two-way branch whose arms assign variables (used for decompose).
func (p *Prog) bvPaths(fd *ast.FuncDecl, names map[types.Object]string, widths map[string]int) []bvPath {
	var out []bvPath
	var walk func(list []ast.Stmt, env *bvEnv, cond ast.Expr, taken bool) bool
	clone := func(e *bvEnv) *bvEnv {
		n := &bvEnv{p: p, vars: map[types.Object]bitvec{}, inputs: e.inputs}
		for k, v := range e.vars {
			n.vars[k] = v
		}
		return n
	}
	walk = func(list []ast.Stmt, env *bvEnv, cond ast.Expr, taken bool) bool {
		for i, s := range list {
			switch x := s.(type) {
			case *ast.DeclStmt:
				gd, ok := x.Decl.(*ast.GenDecl)
				if !ok || gd.Tok != token.VAR {
					return false
				}
				for _, sp := range gd.Specs {
					vs := sp.(*ast.ValueSpec)
					for _, n := range vs.Names {
						env.vars[p.Info.Defs[n]] = constVec(0)
					}
				}
			case *ast.AssignStmt:
				if len(x.Lhs) != 1 || len(x.Rhs) != 1 {
					return false
				}
				o := p.objOf(x.Lhs[0])
				if o == nil {
					return false
				}
				switch x.Tok {
				case token.ASSIGN, token.DEFINE:
					if cl, ok := ast.Unparen(x.Rhs[0]).(*ast.CompositeLit); ok {
						// multi-word literal: store words under derived objects
						for wi, el := range cl.Elts {
							env.vars[wordKey(o, wi)] = env.eval(el)
						}
						continue
					}
					env.vars[o] = env.eval(x.Rhs[0])
				case token.OR_ASSIGN:
					env.vars[o] = env.vars[o].or(env.eval(x.Rhs[0]))
				default:
					return false
				}
			case *ast.IfStmt:
				if x.Init != nil {
					return false
				}
				rest := list[i+1:]
				a := clone(env)
				if !walk(append(append([]ast.Stmt{}, x.Body.List...), rest...), a, pick(cond, x.Cond), pickTaken(cond, taken, true)) {
					return false
				}
				b := clone(env)
				var els []ast.Stmt
				if x.Else != nil {
					eb, ok := x.Else.(*ast.BlockStmt)
					if !ok {
						return false
					}
					els = eb.List
				}
				return walk(append(append([]ast.Stmt{}, els...), rest...), b, pick(cond, x.Cond), pickTaken(cond, taken, false))
			case *ast.ReturnStmt:
				pa := bvPath{cond: cond, taken: taken, ret: x}
				for _, r := range x.Results {
					r = ast.Unparen(r)
					if cl, ok := r.(*ast.CompositeLit); ok {
						var ws []bitvec
						for _, el := range cl.Elts {
							ws = append(ws, env.eval(el))
						}
						pa.results = append(pa.results, ws)
						continue
					}
					if o := p.objOf(r); o != nil {
						if w0, ok := env.vars[wordKey(o, 0)]; ok {
							ws := []bitvec{w0}
							for wi := 1; ; wi++ {
								w, ok := env.vars[wordKey(o, wi)]
								if !ok {
									break
								}
								ws = append(ws, w)
							}
							pa.results = append(pa.results, ws)
							continue
						}
					}
					pa.results = append(pa.results, []bitvec{env.eval(r)})
				}
				out = append(out, pa)
				return true
			default:
				return false
			}
		}
		return true
	}
	env := &bvEnv{p: p, vars: map[types.Object]bitvec{}}
	env.inputs = p.leafInputs(names, widths, nil)
	if !walk(fd.Body.List, env, nil, false) {
		return nil
	}
	return out
}

// pick keeps the first condition encountered on a path (decompose has one).
func pick(prev, cur ast.Expr) ast.Expr {
	if prev != nil {
		return prev
	}
	return cur
}
func pickTaken(prev ast.Expr, prevTaken, cur bool) bool {
	if prev != nil {
		return prevTaken
	}
	return cur
}

type wordKeyObj struct {
	types.Object
	o types.Object
	i int
}

var wordKeys = map[[2]interface{}]types.Object{}

// wordKey returns a stable pseudo-object for word i of a multi-word variable.
func wordKey(o types.Object, i int) types.Object {
	k := [2]interface{}{o, i}
	if w, ok := wordKeys[k]; ok {
		return w
	}
	w := &wordKeyObj{o: o, i: i}
	wordKeys[k] = w
	return w
}

// checkComposePaths verifies compose: statement shape
//
//	var hi; if sig[1] > C {hi = A} else {hi = B}; if neg {hi |= S}; return Decimal{sig[0], hi}
//
// with C = 2^49-1 and A, B evaluated by bit provenance under what each branch
// knows about sig[1].
func (p *Prog) checkComposePaths(c *Ctx, fd *ast.FuncDecl, ps []types.Object) {
	body := fd.Body.List
	if len(body) != 4 {
		c.undecided("compose.shape", fd, "compose body must be: var hi; form switch; sign; return")
		return
	}
	ifForm, ok1 := body[1].(*ast.IfStmt)
	ifNeg, ok2 := body[2].(*ast.IfStmt)
	ret, ok3 := body[3].(*ast.ReturnStmt)
	if !ok1 || !ok2 || !ok3 || ifNeg.Else != nil {
		c.undecided("compose.shape", fd, "compose body must be: var hi; form switch; sign; return")
		return
	}
	// the word under construction: declared by the first statement
	var hiObj types.Object
	var dflt ast.Expr // `hi := A` default-then-override form: A is the implicit else arm
	switch d := body[0].(type) {
	case *ast.DeclStmt:
		if gd, ok := d.Decl.(*ast.GenDecl); ok && gd.Tok == token.VAR && len(gd.Specs) == 1 {
			if vs := gd.Specs[0].(*ast.ValueSpec); len(vs.Names) == 1 {
				hiObj = p.Info.Defs[vs.Names[0]]
				if len(vs.Values) == 1 {
					dflt = vs.Values[0]
				}
			}
		}
	case *ast.AssignStmt:
		if d.Tok == token.DEFINE && len(d.Lhs) == 1 && len(d.Rhs) == 1 {
			hiObj = p.objOf(d.Lhs[0])
			dflt = d.Rhs[0]
		}
	}
	if hiObj == nil || (ifForm.Else == nil) != (dflt != nil) {
		c.undecided("compose.shape", fd, "compose body must be: var hi; form switch; sign; return")
		return
	}
	if dflt != nil {
		// `hi := A; if C { hi = B }` is `if C { hi = B } else { hi = A }` when A is
		// pure and neither C nor B reads hi.
		reads := false
		ast.Inspect(ifForm, func(n ast.Node) bool {
			if id, ok := n.(*ast.Ident); ok && p.Info.Uses[id] == hiObj {
				if !(len(ifForm.Body.List) == 1 && isLhsOf(ifForm.Body.List[0], id)) {
					reads = true
				}
			}
			return true
		})
		if reads || !p.pureExpr(dflt) {
			c.undecided("compose.shape", fd, "compose body must be: var hi; form switch; sign; return")
			return
		}
		ifForm = &ast.IfStmt{If: ifForm.If, Cond: ifForm.Cond, Body: ifForm.Body, Else: &ast.BlockStmt{Lbrace: body[0].Pos(), Rbrace: body[0].End(), List: []ast.Stmt{
			&ast.AssignStmt{Lhs: []ast.Expr{ast.NewIdent("_")}, TokPos: body[0].Pos(), Tok: token.ASSIGN, Rhs: []ast.Expr{dflt}}}}}
	}
	// form switch condition: sig[1] > 2^49-1 (or the complementary `<=` with the arms swapped)
	okCond := false
	thenIsForm2 := true
	if nx, nop, nk, ok := p.normCmp(ifForm.Cond); ok && nk.IsUint64() && nk.Uint64() == 1<<bidForm1ExpL-1 {
		if ix, ok := nx.(*ast.IndexExpr); ok && p.objOf(ix.X) == ps[1] {
			if i, ok := p.constInt64(ix.Index); ok && i == 1 {
				switch nop {
				case token.GTR:
					okCond = true
				case token.LEQ:
					okCond, thenIsForm2 = true, false
				}
			}
		}
	}
	form2Arm, form1Arm := ifForm.Body.List, []ast.Stmt(nil)
	if eb, ok := ifForm.Else.(*ast.BlockStmt); ok {
		form1Arm = eb.List
	}
	if !thenIsForm2 {
		form2Arm, form1Arm = form1Arm, form2Arm
	}
	c.check(okCond, "compose.switch", ifForm, "form 2 iff coefficient >= 2^113 (sig[1] > 2^49-1)", "compose must switch to the steering form exactly when the coefficient needs bit 113: sig[1] > 0x0001_ffff_ffff_ffff")
	names := map[types.Object]string{ps[0]: "neg", ps[1]: "sig", ps[2]: "exp"}
	widths := map[string]int{"exp": bidExpBits}
	evalArm := func(list []ast.Stmt, known map[string]bitvec) (bitvec, bool) {
		if len(list) != 1 {
			return bitvec{}, false
		}
		as, ok := list[0].(*ast.AssignStmt)
		if !ok || len(as.Lhs) != 1 || len(as.Rhs) != 1 || as.Tok != token.ASSIGN {
			return bitvec{}, false
		}
		if id, _ := as.Lhs[0].(*ast.Ident); (id == nil || id.Name != "_" || id.Obj != nil) && p.objOf(as.Lhs[0]) != hiObj {
			return bitvec{}, false
		}
		env := &bvEnv{p: p, vars: map[types.Object]bitvec{}}
		env.inputs = p.leafInputs(names, widths, known)
		return env.eval(as.Rhs[0]), true
	}
	// form 2 arm: a valid coefficient (<= 5·2^111-1, E7 G2/G4) has sig[1] = 100‖x (bits 49..47 = 100)
	form2sig := expectVec([]run{{46, 0, "sig1", 0}}, []int{49})
	a, okA := evalArm(form2Arm, map[string]bitvec{"sig1": form2sig})
	wantA := expectVec([]run{{60, 47, "exp", 0}, {46, 0, "sig1", 0}}, []int{62, 61})
	if !okA {
		c.undecided("compose.form2", ifForm, "form 2 arm is not a single assignment")
	} else {
		c.check(a == wantA, "compose.form2", ifForm.Body, "hi = 11‖exp[13..0]‖sig1[46..0]", "compose form 2 builds hi = "+a.describe()+", BID requires "+wantA.describe())
	}
	// form 1 arm: sig[1] <= 2^49-1, i.e. bits >= 49 are zero
	form1sig := expectVec([]run{{48, 0, "sig1", 0}}, nil)
	eb, _ := ifForm.Else.(*ast.BlockStmt)
	if eb == nil || form1Arm == nil {
		c.undecided("compose.form1", ifForm, "form 1 arm missing")
	} else {
		b, okB := evalArm(form1Arm, map[string]bitvec{"sig1": form1sig})
		wantB := expectVec([]run{{62, 49, "exp", 0}, {48, 0, "sig1", 0}}, nil)
		if !okB {
			c.undecided("compose.form1", ifForm, "form 1 arm is not a single assignment")
		} else {
			c.check(b == wantB, "compose.form1", eb, "hi = exp[13..0]‖sig1[48..0]", "compose form 1 builds hi = "+b.describe()+", BID requires "+wantB.describe())
		}
	}
	// sign
	okNeg := p.objOf(ifNeg.Cond) == ps[0] && len(ifNeg.Body.List) == 1
	if okNeg {
		as, ok := ifNeg.Body.List[0].(*ast.AssignStmt)
		okNeg = ok && as.Tok == token.OR_ASSIGN && len(as.Rhs) == 1
		if okNeg {
			k, ok := p.constUint64(as.Rhs[0])
			okNeg = ok && k == 1<<bidSignBit
		}
	}
	c.check(okNeg, "compose.sign", ifNeg, "neg sets bit 63 only", "compose must set exactly bit 63 of hi when neg")
	// return Decimal{sig[0], hi}
	okRet := false
	if len(ret.Results) == 1 {
		if cl, ok := ret.Results[0].(*ast.CompositeLit); ok && len(cl.Elts) == 2 {
			env := p.newCanonEnv(fd)
			okRet = env.canon(cl.Elts[0]) == "P1[K(0)]" && p.objOf(cl.Elts[1]) == hiObj
			if _, isKV := cl.Elts[0].(*ast.KeyValueExpr); isKV {
				okRet = false
			}
		}
	}
	c.check(okRet && p.decimalFieldOrder(), "compose.ret", ret, "returns Decimal{lo: sig[0], hi: hi}", "compose must return Decimal{sig[0], hi} with field order (lo, hi)")
}

// decimalFieldOrder reports whether type Decimal is struct{lo, hi uint64}.
func (p *Prog) decimalFieldOrder() bool {
	o := p.Pkg.Types.Scope().Lookup("Decimal")
	if o == nil {
		return false
	}
	st, ok := o.Type().Underlying().(*types.Struct)
	if !ok || st.NumFields() != 2 {
		return false
	}
	return st.Field(0).Name() == "lo" && st.Field(1).Name() == "hi" &&
		types.Identical(st.Field(0).Type(), types.Typ[types.Uint64]) && types.Identical(st.Field(1).Type(), types.Typ[types.Uint64])
}

// pureExpr reports whether evaluating e has no effect and cannot panic: names, literals, constant
// limb indexing, fields, conversions and non-dividing operators only.
func (p *Prog) pureExpr(e ast.Expr) bool {
	switch x := ast.Unparen(e).(type) {
	case *ast.Ident, *ast.BasicLit:
		return true
	case *ast.IndexExpr:
		if _, ok := p.constInt64(x.Index); !ok {
			return false
		}
		if t := p.typeOf(x.X); t != nil {
			if _, isArr := t.Underlying().(*types.Array); !isArr {
				return false
			}
		}
		return p.pureExpr(x.X)
	case *ast.SelectorExpr:
		return p.pureExpr(x.X)
	case *ast.BinaryExpr:
		if x.Op == token.QUO || x.Op == token.REM {
			return false
		}
		return p.pureExpr(x.X) && p.pureExpr(x.Y)
	case *ast.UnaryExpr:
		if x.Op == token.ARROW || x.Op == token.AND {
			return false
		}
		return p.pureExpr(x.X)
	case *ast.CallExpr:
		if tv, ok := p.Info.Types[x.Fun]; ok && tv.IsType() && len(x.Args) == 1 {
			return p.pureExpr(x.Args[0])
		}
	}
	return false
}

// isLhsOf reports whether id is the sole assignment target of statement s.
func isLhsOf(s ast.Stmt, id *ast.Ident) bool {
	as, ok := s.(*ast.AssignStmt)
	return ok && len(as.Lhs) == 1 && ast.Unparen(as.Lhs[0]) == ast.Expr(id)
}
