package main

import (
	"fmt"
	"go/ast"
	"go/token"
	"go/types"
	"sort"
	"strings"
)

// E10 (b)-(g): small text tables and constant call arguments.

// caseClauseFor finds the case clause of a switch on `tagName` that lists the
// rune/byte constant ch.
func (p *Prog) caseClauseFor(root ast.Node, tag string, ch byte) *ast.CaseClause {
	var res *ast.CaseClause
	ast.Inspect(root, func(n ast.Node) bool {
		sw, ok := n.(*ast.SwitchStmt)
		if !ok || sw.Tag == nil || p.exprStr(sw.Tag) != tag {
			return true
		}
		for _, cc := range sw.Body.List {
			cl := cc.(*ast.CaseClause)
			for _, e := range cl.List {
				if v, ok := p.constInt64(e); ok && v == int64(ch) && res == nil {
					res = cl
				}
			}
		}
		return true
	})
	return res
}

func ruleTextNames(c *Ctx) {
	p := c.P
	// parse: special names, by constant propagation of every case variant and near miss through
	// the prologue of parse (strings are constants of the abstract domain; parseNumber is opaque)
	if fd := c.fn("parse"); fd != nil {
		run := func(in string) []string {
			it := newInterp(p)
			decIntrinsics(it, false)
			outs := it.runFunc(fd, nil, []AV{avStr{in}, avOpaque{"op"}})
			var ks []string
			for _, o := range outs {
				ks = append(ks, o.avKey())
			}
			if it.overflow {
				ks = append(ks, "overflow")
			}
			return ks
		}
		variants := func(w string) []string {
			var out []string
			for m := 0; m < 1<<uint(len(w)); m++ {
				b := []byte(w)
				for i := range b {
					if m>>uint(i)&1 == 1 {
						b[i] -= 32
					}
				}
				out = append(out, string(b))
			}
			return out
		}
		for _, t := range []struct{ word, kind string }{{"inf", "inf"}, {"infinity", "inf"}, {"nan", "nan"}} {
			bad := ""
			n := 0
			for _, v := range variants(t.word) {
				for _, sg := range []string{"", "+", "-"} {
					want := fmt.Sprintf("(Inf(%v), nil)", sg == "-")
					if t.kind == "nan" {
						want = "(NaN($op,i0,i0), nil)"
					}
					got := run(sg + v)
					n++
					if len(got) != 1 || got[0] != want {
						bad = fmt.Sprintf("parse(%q) gives %v, want %s", sg+v, got, want)
					}
				}
			}
			c.check(bad == "", "names.parse:"+t.word, fd, fmt.Sprintf("all %d sign/case variants of %q give %s", n, t.word, t.kind), "parse: "+bad, "C05")
		}
		// near misses must not produce a special value
		bad := ""
		n := 0
		for _, w := range []string{"inf", "infinity", "nan"} {
			var miss []string
			for i := range w {
				for _, r := range []byte{w[i] + 1, w[i] - 1, '0', '_', w[i] ^ 0x40, 0x80 | w[i]} {
					b := []byte(w)
					b[i] = r
					miss = append(miss, string(b))
				}
			}
			miss = append(miss, w[:len(w)-1], w+w[len(w)-1:], w+"0", " "+w, w+" ", "i", "n", "in", "infi", "infin", "infinit", "nann", "inff", "infinityy")
			for _, m := range miss {
				if m == "inf" || m == "nan" || m == "infinity" {
					continue
				}
				for _, sg := range []string{"", "-"} {
					n++
					for _, g := range run(sg + m) {
						if strings.HasPrefix(g, "(Inf(") || strings.HasPrefix(g, "(NaN(") {
							bad = fmt.Sprintf("parse(%q) gives %s", sg+m, g)
						}
					}
				}
			}
		}
		c.check(bad == "", "names.parse.nearmiss", fd, fmt.Sprintf("%d near misses reach the number parser (no special value)", n), "parse: a string that is not one of the documented special names is accepted as one: "+bad, "C05")
		// empty input and a lone sign are syntax errors
		for _, e := range []string{"", "+", "-"} {
			got := run(e)
			okk := len(got) == 1 && strings.HasSuffix(got[0], "err:*parseSyntaxError)")
			c.check(okk, fmt.Sprintf("names.parse.empty:%q", e), fd, "syntax error", fmt.Sprintf("parse(%q) must be a syntax error, got %v", e, got), "C05")
		}
	}
	// Scan: rune comparisons in source order
	if fd := c.fn("Decimal.Scan"); fd != nil {
		var seq []string
		ast.Inspect(fd.Body, func(n ast.Node) bool {
			if _, isLit := n.(*ast.FuncLit); isLit {
				return false // the token predicate is checked separately
			}
			be, ok := n.(*ast.BinaryExpr)
			if !ok || (be.Op != token.EQL && be.Op != token.NEQ) {
				return true
			}
			v, ok := p.constInt64(be.Y)
			if !ok || !((v >= 'A' && v <= 'Z') || (v >= 'a' && v <= 'z')) {
				return true
			}
			if tv, ok := p.Info.Types[be.X]; !ok || !types.Identical(tv.Type, types.Typ[types.Int32]) {
				return true
			}
			seq = append(seq, be.Op.String()+string(rune(v)))
			return true
		})
		got := strings.Join(seq, " ")
		want := "==I ==i !=N !=n !=F !=f ==N ==n !=A !=a !=N !=n"
		c.check(got == want, "names.scan", fd, "Scan matches [Ii][Nn][Ff] and [Nn][Aa][Nn]", "Scan's special-name matcher compares "+got+"; want "+want, "C05")
		// the token predicate admits exactly the lexer's alphabet
		var lit *ast.FuncLit
		ast.Inspect(fd.Body, func(n ast.Node) bool {
			if fl, ok := n.(*ast.FuncLit); ok && lit == nil {
				lit = fl
			}
			return true
		})
		if lit == nil {
			c.undecided("scan.token", fd, "token predicate not found", "C05")
		} else {
			// constant propagation of every rune value 0..0x2ff through the predicate
			var po types.Object
			if lit.Type.Params != nil && len(lit.Type.Params.List) == 1 && len(lit.Type.Params.List[0].Names) == 1 {
				po = p.Info.Defs[lit.Type.Params.List[0].Names[0]]
			}
			bad := ""
			for r := int64(0); r < 0x300 && po != nil; r++ {
				in := newInterp(p)
				st := newState()
				st.vars[po] = avInt{r}
				in.curFn = append(in.curFn, fd)
				flows := in.execBlock(lit.Body.List, st)
				want := (r >= '0' && r <= '9') || r == '.' || r == 'E' || r == 'e' || r == '-' || r == '_' || r == '+'
				for _, f := range flows {
					if f.kind != flowReturn || f.ret == nil || f.ret.avKey() != fmt.Sprint(want) {
						bad = fmt.Sprintf("rune %q: predicate gives %v, want %v", rune(r), f.ret, want)
					}
				}
				if len(flows) == 0 {
					bad = "predicate not understood"
				}
			}
			c.check(bad == "" && po != nil, "scan.token", lit, "token alphabet = digits . E e - _ + (all runes below 0x300 evaluated)", "Scan's token predicate must admit exactly the lexer's alphabet (digits and . E e - _ +): "+bad, "C05")
		}
		// verbs
		if cl := firstSwitchClause(p, fd, "verb"); cl != nil {
			var vs []string
			for _, e := range cl.List {
				if v, ok := p.constInt64(e); ok {
					vs = append(vs, string(rune(v)))
				}
			}
			c.check(strings.Join(vs, "") == "eEfFgGv", "scan.verbs", cl, "verbs e E f F g G v", "Scan must accept exactly the verbs e E f F g G v; found "+strings.Join(vs, ""), "C05")
		}
	}
	// error typing
	for _, t := range []struct{ typ, target string }{{"parseRangeError", "ErrRange"}, {"parseSyntaxError", "ErrSyntax"}} {
		fd := c.fn(t.typ + ".Is")
		if fd == nil {
			continue
		}
		env := p.newCanonEnv(fd)
		got := env.canonStmts(fd.Body.List)
		want := "return (P0==V?)"
		_ = want
		okk := strings.HasPrefix(got, "return (") && strings.HasSuffix(got, "==P0)") && strings.Contains(p.exprStr(fd.Body.List[0].(*ast.ReturnStmt).Results[0]), "strconv."+t.target)
		c.check(okk, "errors.is:"+t.typ, fd, "matches strconv."+t.target, t.typ+".Is must compare the target with strconv."+t.target+": "+got, "C05")
	}
	for _, fn := range []string{"parse", "Decimal.Scan"} {
		fd := c.fn(fn)
		if fd == nil {
			continue
		}
		// type switch arms: parseNumberRangeError -> &parseRangeError, parseNumberSyntaxError -> &parseSyntaxError
		n := 0
		ast.Inspect(fd.Body, func(nd ast.Node) bool {
			ts, ok := nd.(*ast.TypeSwitchStmt)
			if !ok {
				return true
			}
			for _, cc := range ts.Body.List {
				cl := cc.(*ast.CaseClause)
				if len(cl.List) != 1 || len(cl.Body) != 1 {
					continue
				}
				tn := p.exprStr(cl.List[0])
				want := map[string]string{"parseNumberRangeError": "parseRangeError", "parseNumberSyntaxError": "parseSyntaxError"}[tn]
				if want == "" {
					continue
				}
				ret, ok := cl.Body[0].(*ast.ReturnStmt)
				if !ok {
					continue
				}
				last := ret.Results[len(ret.Results)-1]
				n++
				okk := false
				if ue, ok := last.(*ast.UnaryExpr); ok && ue.Op == token.AND {
					if lit, ok := ue.X.(*ast.CompositeLit); ok && p.exprStr(lit.Type) == want {
						okk = true
					}
				}
				c.check(okk, fmt.Sprintf("errors.map:%s:%s", fn, tn), cl, tn+" -> *"+want, fn+": a "+tn+" must be reported as *"+want+" (errors.Is target)", "C05")
			}
			return true
		})
		if n != 2 {
			c.undecided("errors.map:"+fn, fd, fmt.Sprintf("%d error-mapping arms found, want 2", n), "C05")
		}
	}
}

func firstSwitchClause(p *Prog, fd *ast.FuncDecl, tag string) *ast.CaseClause {
	var res *ast.CaseClause
	ast.Inspect(fd.Body, func(n ast.Node) bool {
		sw, ok := n.(*ast.SwitchStmt)
		if !ok || sw.Tag == nil || p.exprStr(sw.Tag) != tag || res != nil {
			return true
		}
		if len(sw.Body.List) > 0 {
			res = sw.Body.List[0].(*ast.CaseClause)
		}
		return true
	})
	return res
}

// flag maps of parseFormat and Decimal.Format
func ruleTextFlags(c *Ctx) {
	p := c.P
	if fd := c.fn("parseFormat"); fd != nil {
		env := p.newCanonEnv(fd)
		want := map[byte]string{
			' ': "P1.padSign=K(true)",
			'#': "P1.forceDP=K(true)",
			'+': "P1.printSign=K(true)",
			'-': "P1.padRight=K(true);P1.padZero=K(false)",
			'0': "P1.padZero=(!P1.padRight)",
		}
		for ch, w := range want {
			cl := p.caseClauseFor(fd.Body, "c", ch)
			key := fmt.Sprintf("flags.parseFormat:%q", string(ch))
			if cl == nil {
				c.bad(key, fd, fmt.Sprintf("parseFormat has no case for the flag %q", string(ch)), "C07")
				continue
			}
			got := env.canonStmts(cl.Body)
			c.check(got == w, key, cl, w, fmt.Sprintf("parseFormat: flag %q does `%s`; package fmt's rules require `%s` ('-' overrides '0')", string(ch), got, w), "C07")
		}
	}
	if fd := c.fn("Decimal.Format"); fd != nil {
		env := p.newCanonEnv(fd)
		var lit *ast.CompositeLit
		ast.Inspect(fd.Body, func(n ast.Node) bool {
			if cl, ok := n.(*ast.CompositeLit); ok && lit == nil {
				if tv, ok := p.Info.Types[cl]; ok && typeShort(tv.Type) == "formatArgs" {
					lit = cl
				}
			}
			return true
		})
		if lit == nil {
			c.undecided("flags.Format", fd, "formatArgs literal not found", "C07")
		} else {
			fl := func(ch byte) string { return fmt.Sprintf("call(fmt.State.Flag;recv=P0,K(%d))", ch) }
			want := map[string]string{
				"forceDP":   fl('#'),
				"printSign": fl('+'),
				"padSign":   fl(' '),
				"padRight":  fl('-'),
				"padZero":   "((!" + fl('-') + ")&&" + fl('0') + ")",
				"verb":      "conv(byte;P1)",
			}
			got := map[string]string{}
			for _, el := range lit.Elts {
				if kv, ok := el.(*ast.KeyValueExpr); ok {
					got[p.exprStr(kv.Key)] = env.canon(kv.Value)
				}
			}
			for f, w := range want {
				c.check(got[f] == w, "flags.Format:"+f, lit, f+" = "+w, fmt.Sprintf("Decimal.Format sets %s from `%s`; package fmt's rules require `%s`", f, got[f], w), "C07")
			}
		}
	}
}

// layout thresholds and constant call arguments
func ruleTextLayout(c *Ctx) {
	p := c.P
	type site struct {
		fn    string
		root  ast.Node
		props []string
		maxp  bool // upper threshold is the variable maxprec
	}
	var sites []site
	add := func(fn string, root ast.Node, maxp bool, props ...string) {
		if root != nil {
			sites = append(sites, site{fn, root, props, maxp})
		}
	}
	if fd := c.fn("Decimal.String"); fd != nil {
		add("Decimal.String", fd.Body, false, "C06")
	}
	if fd := c.fn("Decimal.MarshalText"); fd != nil {
		add("Decimal.MarshalText", fd.Body, false, "C06")
	}
	if fd := c.fn("Decimal.format"); fd != nil {
		if cl := p.caseClauseFor(fd.Body, "args.verb", 'v'); cl != nil {
			add("Decimal.format[v]", cl, false, "C06")
		} else {
			c.undecided("layout:Decimal.format[v]", fd, "case 'v' not found", "C06")
		}
		if cl := p.caseClauseFor(fd.Body, "args.verb", 'g'); cl != nil {
			add("Decimal.format[g]", cl, true, "C07")
		} else {
			c.undecided("layout:Decimal.format[g]", fd, "case 'g' not found", "C07")
		}
	}
	if fd := c.fn("Append"); fd != nil {
		if cl := p.caseClauseFor(fd.Body, "fmt", 'g'); cl != nil {
			add("Append[g]", cl, true, "C06", "C07")
		} else {
			c.undecided("layout:Append[g]", fd, "case 'g' not found", "C06")
		}
	}
	findDec := func(root ast.Node) *ast.IfStmt {
		var dec *ast.IfStmt
		ast.Inspect(root, func(n ast.Node) bool {
			ifs, ok := n.(*ast.IfStmt)
			if !ok || dec != nil {
				return true
			}
			if be, ok := ast.Unparen(ifs.Cond).(*ast.BinaryExpr); ok && be.Op == token.LOR {
				l, ok1 := ast.Unparen(be.X).(*ast.BinaryExpr)
				r, ok2 := ast.Unparen(be.Y).(*ast.BinaryExpr)
				if ok1 && ok2 && l.Op == token.LSS && r.Op == token.GEQ && p.exprKey(l.X) != "" && p.exprKey(l.X) == p.exprKey(r.X) {
					dec = ifs
				}
			}
			return true
		})
		return dec
	}
	for _, s := range sites {
		dec := findDec(s.root)
		if dec == nil {
			// the decision may live in a helper shared by the sites: look one call deep
			ast.Inspect(s.root, func(n ast.Node) bool {
				if call, ok := n.(*ast.CallExpr); ok && dec == nil {
					if cfd := p.Funcs[p.calleeName(call)]; cfd != nil && cfd.Body != nil && !ast.IsExported(cfd.Name.Name) {
						if d := findDec(cfd.Body); d != nil {
							dec = d
							s.root = cfd.Body
						}
					}
				}
				return true
			})
		}
		key := "layout:" + s.fn
		if dec == nil {
			c.undecided(key, s.root, "layout decision `exp < A || exp >= B` not found", s.props...)
			continue
		}
		be := ast.Unparen(dec.Cond).(*ast.BinaryExpr)
		l := ast.Unparen(be.X).(*ast.BinaryExpr)
		r := ast.Unparen(be.Y).(*ast.BinaryExpr)
		lo, ok1 := p.constInt64(l.Y)
		okHi := false
		_ = r
		if s.maxp {
			// B is maxprec: every assignment of it is 6 (default) or the caller's precision
			if o := p.objOf(r.Y); o != nil {
				okHi = true
				ast.Inspect(s.root, func(n ast.Node) bool {
					as, ok := n.(*ast.AssignStmt)
					if !ok || len(as.Lhs) != 1 || p.objOf(as.Lhs[0]) != o {
						return true
					}
					if k, ok := p.constInt64(as.Rhs[0]); ok {
						if k != 6 {
							okHi = false
						}
					} else if p.exprStr(as.Rhs[0]) != "prec" {
						okHi = false
					}
					return true
				})
			}
		} else {
			hi, ok := p.constInt64(r.Y)
			okHi = ok && hi == 6
		}
		c.check(ok1 && lo == -4 && okHi, key, dec, "exponent form iff exp < -4 || exp >= 6 (precision)", fmt.Sprintf("%s: switches to exponent form at `%s`; the float64 %%v/%%g convention is exp < -4 || exp >= 6 (or the precision)", s.fn, p.exprStr(dec.Cond)), s.props...)
		// X is the decimal exponent of the leading digit: digs.exp + (ndig-1 or 0)
		xo := p.objOf(l.X)
		defOK := false
		var defPos token.Pos
		ast.Inspect(s.root, func(n ast.Node) bool {
			as, ok := n.(*ast.AssignStmt)
			if !ok || as.Tok != token.DEFINE || len(as.Lhs) != 1 || p.objOf(as.Lhs[0]) != xo {
				return true
			}
			if b2, ok := ast.Unparen(as.Rhs[0]).(*ast.BinaryExpr); ok && b2.Op == token.ADD && strings.HasSuffix(p.exprStr(b2.X), ".exp") {
				defOK = true
				defPos = as.Pos()
				// the addend is `0; if ndig != 0 { = ndig - 1 }`
				ao := p.objOf(b2.Y)
				seen := false
				ast.Inspect(s.root, func(m ast.Node) bool {
					a2, ok := m.(*ast.AssignStmt)
					if !ok || len(a2.Lhs) != 1 || p.objOf(a2.Lhs[0]) != ao || a2.Pos() > as.Pos() {
						return true
					}
					if k, ok := p.constInt64(a2.Rhs[0]); ok && k == 0 {
						return true
					}
					if b3, ok := ast.Unparen(a2.Rhs[0]).(*ast.BinaryExpr); ok && b3.Op == token.SUB && strings.HasSuffix(p.exprStr(b3.X), ".ndig") {
						if k, ok := p.constInt64(b3.Y); ok && k == 1 {
							seen = true
							return true
						}
					}
					defOK = false
					return true
				})
				if !seen {
					defOK = false
				}
			}
			return true
		})
		c.check(defOK, key+".exp", dec, "decision exponent = digs.exp + (ndig-1)", s.fn+": the layout decision must be taken on the decimal exponent of the leading digit, digs.exp + (ndig - 1)", s.props...)
		// rounding precedes the decision exponent
		late := false
		nround := 0
		ast.Inspect(s.root, func(n ast.Node) bool {
			call, ok := n.(*ast.CallExpr)
			if ok && p.isPkgFunc(call, "digits.round") {
				nround++
				if defPos.IsValid() && call.Pos() > defPos {
					late = true
				}
			}
			return true
		})
		if s.maxp {
			c.check(nround > 0 && !late, key+".order", dec, "digits are rounded before the exponent that selects the layout is read", s.fn+": digs.round must run before the exponent used for the e/f switch-over is computed (rounding can carry into a new leading digit)", s.props...)
		} else {
			c.check(nround == 0, key+".noround", dec, "default layout never rounds", s.fn+": the default (shortest) layout must not call digs.round", s.props...)
		}
	}
	// constant call arguments of the emitters
	emitParams := map[string][]string{
		"digits.fmtE":           {"buf", "prec", "width", "forceDP", "printSign", "padSign", "padExp", "padRight", "padZero", "e"},
		"digits.fmtF":           {"buf", "prec", "width", "forceDP", "printSign", "padSign", "padRight", "padZero"},
		"Decimal.appendSpecial": {"buf", "width", "printSign", "padSign", "padRight"},
	}
	n := 0
	for _, caller := range []string{"Decimal.String", "Decimal.MarshalText", "Decimal.MarshalJSON", "Append", "Decimal.format"} {
		fd := c.fn(caller)
		if fd == nil {
			continue
		}
		perCallee := map[string]int{}
		walkStack(fd.Body, func(nd ast.Node, stack []ast.Node) {
			call, ok := nd.(*ast.CallExpr)
			if !ok {
				return
			}
			cn := p.calleeName(call)
			params, ok := emitParams[cn]
			if !ok || len(call.Args) != len(params) {
				return
			}
			// is this call inside the 'v' arm of format?
			inV := false
			plain := caller != "Decimal.format"
			if !plain {
				for _, s := range stack {
					if cl, ok := s.(*ast.CaseClause); ok {
						for _, e := range cl.List {
							if v, ok := p.constInt64(e); ok && v == 'v' {
								inV = true
							}
						}
					}
				}
			}
			perCallee[cn]++
			n++
			key := fmt.Sprintf("emit:%s->%s#%d", caller, cn, perCallee[cn])
			var bad []string
			for i, pn := range params {
				a := call.Args[i]
				switch pn {
				case "buf", "prec", "e":
					continue
				case "width":
					if plain || inV {
						if k, ok := p.constInt64(a); !ok || k != 0 {
							bad = append(bad, "width must be 0")
						}
					} else if p.exprStr(a) != "width" {
						bad = append(bad, "width must be the caller's width")
					}
				case "padExp":
					want := caller != "Decimal.MarshalJSON"
					if v := p.constOf(a); v == nil || (v.String() == "true") != want {
						bad = append(bad, fmt.Sprintf("padExp must be %v", want))
					}
				default: // boolean flags
					if plain || inV {
						if v := p.constOf(a); v == nil || v.String() != "false" {
							bad = append(bad, pn+" must be false")
						}
					} else if p.exprStr(a) != "args."+pn {
						bad = append(bad, pn+" must be args."+pn+" (found "+p.exprStr(a)+")")
					}
				}
			}
			props := []string{"C06", "C07"}
			if caller == "Decimal.MarshalJSON" {
				props = []string{"C13"}
			}
			c.check(len(bad) == 0, key, call, "flags/width passed as specified", fmt.Sprintf("%s calls %s with wrong layout arguments: %s", caller, cn, strings.Join(bad, "; ")), props...)
		})
	}
	if n < 10 {
		c.undecided("emit.count", nil, fmt.Sprintf("only %d emitter call sites found", n), "C06", "C07", "C13")
	}
	// the rounding position each verb selects
	for _, t := range []struct {
		fn, tag string
		ch      byte
		want    []string
	}{
		{"Decimal.format", "args.verb", 'e', []string{"(K(1)+L)"}},
		{"Decimal.format", "args.verb", 'f', []string{"(L+L.exp+L.ndig)"}},
		{"Decimal.format", "args.verb", 'g', []string{"L", "L"}},
		{"Append", "fmt", 'e', []string{"(K(1)+P)"}},
		{"Append", "fmt", 'f', []string{"(L.exp+L.ndig+P)"}},
		{"Append", "fmt", 'g', []string{"P"}},
	} {
		fd := c.fn(t.fn)
		if fd == nil {
			continue
		}
		cl := p.caseClauseFor(fd.Body, t.tag, t.ch)
		key := fmt.Sprintf("roundpos:%s[%c]", t.fn, t.ch)
		if cl == nil {
			c.undecided(key, fd, "verb arm not found", "C07")
			continue
		}
		env := p.newCanonEnv(fd)
		var got []string
		ast.Inspect(cl, func(n ast.Node) bool {
			call, ok := n.(*ast.CallExpr)
			if ok && p.isPkgFunc(call, "digits.round") && len(call.Args) == 1 {
				s := env.canon(call.Args[0])
				// normalise local/param numbering
				for i := 0; i < 12; i++ {
					s = strings.ReplaceAll(s, fmt.Sprintf("L%d", i), "L")
					s = strings.ReplaceAll(s, fmt.Sprintf("P%d", i), "P")
				}
				// the operands of a sum are compared as a multiset
				parts := strings.Split(strings.Trim(s, "()"), "+")
				sort.Strings(parts)
				got = append(got, strings.Join(parts, "+"))
			}
			return true
		})
		for i, w := range t.want {
			parts := strings.Split(strings.Trim(w, "()"), "+")
			sort.Strings(parts)
			t.want[i] = strings.Join(parts, "+")
		}
		c.check(strings.Join(got, "|") == strings.Join(t.want, "|"), key, cl, "rounds at "+strings.Join(t.want, "|"), fmt.Sprintf("%s verb %c rounds at `%s`; the position the precision selects is `%s` (e: prec+1 digits, f: ndig+exp+prec digits, g: prec digits)", t.fn, t.ch, strings.Join(got, "|"), strings.Join(t.want, "|")), "C07")
	}
}

// fmtE's exponent digits by exhaustive constant propagation over the
// exponent's finite range.
func ruleTextExponent(c *Ctx) {
	p := c.P
	fd := c.fn("digits.fmtE")
	if fd == nil {
		return
	}
	// the chain `if exp < 10 {...} else if ...` and the variables exp, padExp, buf
	var chain ast.Stmt
	var expExpr ast.Expr
	isHead := func(e ast.Expr) bool {
		x, op, k, ok := p.normCmp(e)
		if ok && op == token.LEQ && k.IsInt64() && k.Int64() == 9 && p.exprKey(x) != "" {
			expExpr = x
			return true
		}
		return false
	}
	var signStmt ast.Stmt
	for si, s := range fd.Body.List {
		switch x := s.(type) {
		case *ast.IfStmt:
			if isHead(x.Cond) {
				chain = x
				if si > 0 && p.usesVar(fd.Body.List[si-1], p.exprKey(expExpr)) {
					signStmt = fd.Body.List[si-1]
				}
			}
		case *ast.SwitchStmt:
			if x.Tag == nil && len(x.Body.List) > 0 {
				if cl := x.Body.List[0].(*ast.CaseClause); len(cl.List) == 1 && isHead(cl.List[0]) {
					chain = x
				}
			}
		}
	}
	ps := paramObjs(p, fd)
	if chain == nil || len(ps) != 10 {
		c.undecided("expdigits.shape", fd, "exponent digit chain `if exp < 10 ...` not found", "C06", "C07", "C13")
		return
	}
	expObj := p.objOf(expExpr)
	bufObj, padExpObj := ps[0], ps[6]
	bad := ""
	n := 0
	for _, padExp := range []bool{true, false} {
		lowest := int64(0)
		if signStmt != nil {
			lowest = -(6176 + specMaxDigits)
		}
		for v := lowest; v <= 6176+specMaxDigits; v++ {
			in := newInterp(p)
			in.intrinsics["builtin.append"] = func(in *interp, st *state, call *ast.CallExpr, recv AV, args []AV) ([]AV, bool) {
				s, ok := args[0].(avStr)
				if !ok {
					return []AV{top}, true
				}
				out := s.s
				for _, a := range args[1:] {
					iv, ok := a.(avInt)
					if !ok || iv.v < 0 || iv.v > 255 {
						return []AV{top}, true
					}
					out += string(rune(iv.v))
				}
				return []AV{avStr{out}}, true
			}
			st := newState()
			st.vars[expObj] = avInt{v}
			st.vars[padExpObj] = avBool{padExp}
			st.vars[bufObj] = avStr{""}
			in.curFn = append(in.curFn, fd)
			flows := []flow{{kind: flowNext, st: st}}
			if signStmt != nil {
				flows = in.execStmt(signStmt, st)
			}
			if len(flows) == 1 && flows[0].kind == flowNext {
				flows = in.execStmt(chain, flows[0].st)
			}
			mag := v
			if mag < 0 {
				mag = -mag
			}
			want := fmt.Sprint(mag)
			if padExp && mag < 10 {
				want = "0" + want
			}
			if signStmt != nil {
				if v < 0 {
					want = "-" + want
				} else {
					want = "+" + want
				}
			}
			n++
			if len(flows) != 1 || flows[0].kind != flowNext {
				bad = fmt.Sprintf("exponent %d: control flow not understood", v)
				break
			}
			got := flows[0].st.vars[bufObj].avKey()
			if got != "str:"+want {
				bad = fmt.Sprintf("exponent %d (padExp=%v) is printed as %q, want %q", v, padExp, strings.TrimPrefix(got, "str:"), want)
				break
			}
		}
		if bad != "" {
			break
		}
	}
	c.check(bad == "", "expdigits", chain, fmt.Sprintf("every exponent up to ±%d prints its sign and decimal digits (two at least when padded): %d evaluations", 6176+specMaxDigits, n),
		"digits.fmtE: "+bad, "C06", "C07", "C13")
	// sign of the exponent: decided by the same evaluation when the sign statement directly precedes the digits
	c.check(signStmt != nil && bad == "", "expsign", fd, "negative exponents print '-' and their magnitude, others '+' (evaluated for every exponent)", "digits.fmtE: the statement that prints the exponent's sign was not found directly before its digits, or a value prints wrongly: "+bad, "C06", "C07", "C13")
}
