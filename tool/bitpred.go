package main

import (
	"fmt"
	"go/ast"
	"go/token"
	"go/types"
	"sort"
	"strings"
)

// Bit predicates: a boolean function of the receiver's words, evaluated by
// bit provenance into "these input bits have these values" (one positive
// conjunction) "and none of these other patterns holds" (negated
// conjunctions). Local copies, shifts, either operand order, `a|b == 0`
// versus `a == 0 && b == 0`, early `return false` exits and if/else are all
// the same function and evaluate to the same normal form.

type conj map[string]byte // "hi[62]" -> '0' / '1'

func (a conj) String() string {
	keys := make([]string, 0, len(a))
	for k := range a {
		keys = append(keys, k)
	}
	sort.Strings(keys)
	var sb strings.Builder
	for _, k := range keys {
		fmt.Fprintf(&sb, "%s=%c ", k, a[k])
	}
	return strings.TrimSpace(sb.String())
}

func (a conj) equal(b conj) bool {
	if len(a) != len(b) {
		return false
	}
	for k, v := range a {
		if b[k] != v {
			return false
		}
	}
	return true
}

// merge returns a∧b, or ok=false when they contradict.
func (a conj) merge(b conj) (conj, bool) {
	out := conj{}
	for k, v := range a {
		out[k] = v
	}
	for k, v := range b {
		if w, has := out[k]; has && w != v {
			return nil, false
		}
		out[k] = v
	}
	return out, true
}

type bitPred struct {
	pos   conj
	negs  []conj
	never bool // constant false
}

func (bp bitPred) String() string {
	if bp.never {
		return "false"
	}
	s := "[" + bp.pos.String() + "]"
	for _, n := range bp.negs {
		s += " and not [" + n.String() + "]"
	}
	return s
}

func (bp bitPred) and(o bitPred) bitPred {
	if bp.never || o.never {
		return bitPred{never: true}
	}
	m, ok := bp.pos.merge(o.pos)
	if !ok {
		return bitPred{never: true}
	}
	return bitPred{pos: m, negs: append(append([]conj{}, bp.negs...), o.negs...)}
}

// not is defined for a pure positive conjunction only.
func (bp bitPred) not() (bitPred, bool) {
	if bp.never {
		return bitPred{pos: conj{}}, true
	}
	if len(bp.pos) == 0 && len(bp.negs) == 1 {
		// the negation of "not P" is P
		return bitPred{pos: bp.negs[0]}, true
	}
	if len(bp.negs) > 0 {
		return bitPred{}, false
	}
	if len(bp.pos) == 1 {
		// the negation of a single-bit test is the opposite single-bit test
		for k, v := range bp.pos {
			return bitPred{pos: conj{k: '0' + (1 - (v - '0'))}}, true
		}
	}
	if len(bp.pos) == 0 {
		return bitPred{never: true}, true
	}
	return bitPred{pos: conj{}, negs: []conj{bp.pos}}, true
}

type bitPredEnv struct {
	p     *Prog
	bv    *bvEnv
	bools map[types.Object]bitPred
	defs  map[types.Object]ast.Expr // single-assignment locals, for splitting or-chains
}

func (e *bitPredEnv) orParts(x ast.Expr) []ast.Expr {
	x = ast.Unparen(x)
	if be, ok := x.(*ast.BinaryExpr); ok && be.Op == token.OR {
		return append(e.orParts(be.X), e.orParts(be.Y)...)
	}
	if id, ok := x.(*ast.Ident); ok {
		if d, ok := e.defs[e.p.objOf(id)]; ok {
			if be, ok := ast.Unparen(d).(*ast.BinaryExpr); ok && be.Op == token.OR {
				return e.orParts(be)
			}
		}
	}
	return []ast.Expr{x}
}

func (e *bitPredEnv) cond(x ast.Expr) (bitPred, bool) {
	p := e.p
	x = ast.Unparen(x)
	if v := p.constOf(x); v != nil {
		if b, ok := p.constBool(x); ok {
			if b {
				return bitPred{pos: conj{}}, true
			}
			return bitPred{never: true}, true
		}
	}
	switch y := x.(type) {
	case *ast.Ident:
		if o := p.objOf(y); o != nil {
			if bp, ok := e.bools[o]; ok {
				return bp, true
			}
		}
	case *ast.UnaryExpr:
		if y.Op == token.NOT {
			if in, ok := e.cond(y.X); ok {
				return in.not()
			}
		}
	case *ast.BinaryExpr:
		switch y.Op {
		case token.LAND:
			a, ok1 := e.cond(y.X)
			b, ok2 := e.cond(y.Y)
			if ok1 && ok2 {
				return a.and(b), true
			}
		case token.EQL, token.NEQ:
			lhs, rhs := y.X, y.Y
			if p.constOf(lhs) != nil {
				lhs, rhs = rhs, lhs
			}
			k, ok := p.constUint64(rhs)
			if !ok {
				return bitPred{}, false
			}
			if parts := e.orParts(lhs); k == 0 && len(parts) > 1 {
				// (a | b) == 0  is  a == 0 && b == 0
				acc := bitPred{pos: conj{}}
				for _, part := range parts {
					v := e.bv.eval(part)
					c := conj{}
					for i := 0; i < 64; i++ {
						switch v[i].k {
						case '0':
						case '1':
							acc = bitPred{never: true}
						case 'i', 'n':
							want := byte('0')
							if v[i].k == 'n' {
								want = '1'
							}
							c[fmt.Sprintf("%s[%02d]", v[i].src, v[i].idx)] = want
						default:
							return bitPred{}, false
						}
					}
					acc = acc.and(bitPred{pos: c})
				}
				if y.Op == token.NEQ {
					if acc.never {
						return bitPred{pos: conj{}}, true
					}
					return acc.not()
				}
				return acc, true
			}
			v := e.bv.eval(lhs)
			c := conj{}
			never := false
			for i := 0; i < 64; i++ {
				want := byte('0' + k>>uint(i)&1)
				switch v[i].k {
				case '0', '1':
					if v[i].k != want {
						never = true
					}
				case 'i':
					name := fmt.Sprintf("%s[%02d]", v[i].src, v[i].idx)
					if w, has := c[name]; has && w != want {
						never = true
					}
					c[name] = want
				case 'n':
					name := fmt.Sprintf("%s[%02d]", v[i].src, v[i].idx)
					nw := byte('0' + (1 - (want - '0')))
					if w, has := c[name]; has && w != nw {
						never = true
					}
					c[name] = nw
				default:
					return bitPred{}, false
				}
			}
			bp := bitPred{pos: c}
			if never {
				bp = bitPred{never: true}
			}
			if y.Op == token.NEQ {
				if bp.never {
					return bitPred{pos: conj{}}, true
				}
				return bp.not()
			}
			return bp, true
		}
	}
	return bitPred{}, false
}

// evalBitPred evaluates a predicate method of a two-word struct receiver.
func (p *Prog) evalBitPred(fd *ast.FuncDecl) (bitPred, string) {
	recv := recvObj(p, fd)
	if recv == nil {
		ps := paramObjs(p, fd)
		if len(ps) == 1 {
			recv = ps[0]
		}
	}
	if recv == nil {
		return bitPred{}, "no receiver"
	}
	env := &bitPredEnv{p: p, bools: map[types.Object]bitPred{}, defs: map[types.Object]ast.Expr{}}
	env.bv = &bvEnv{p: p, vars: map[types.Object]bitvec{}}
	env.bv.inputs = func(e ast.Expr) (bitvec, bool) {
		if sel, ok := ast.Unparen(e).(*ast.SelectorExpr); ok && p.objOf(sel.X) == recv {
			if sel.Sel.Name == "hi" || sel.Sel.Name == "lo" {
				return inputVec(sel.Sel.Name, 64), true
			}
		}
		return bitvec{}, false
	}
	var run func(list []ast.Stmt, path bitPred) (bitPred, string, bool)
	// returns the predicate of "the function returns true", given the path condition so far;
	// done=false when the list falls through
	run = func(list []ast.Stmt, path bitPred) (bitPred, string, bool) {
		for i, s := range list {
			switch x := s.(type) {
			case *ast.AssignStmt:
				if len(x.Lhs) != 1 || len(x.Rhs) != 1 {
					return bitPred{}, "unsupported assignment at " + p.posStr(x), true
				}
				o := p.objOf(x.Lhs[0])
				if o == nil {
					return bitPred{}, "unsupported assignment at " + p.posStr(x), true
				}
				if b, ok := o.Type().Underlying().(*types.Basic); ok && b.Kind() == types.Bool {
					bp, ok := env.cond(x.Rhs[0])
					if !ok {
						return bitPred{}, "condition not understood at " + p.posStr(x), true
					}
					env.bools[o] = bp
				} else {
					env.bv.vars[o] = env.bv.eval(x.Rhs[0])
					if x.Tok == token.DEFINE {
						env.defs[o] = x.Rhs[0]
					} else {
						delete(env.defs, o)
					}
				}
			case *ast.DeclStmt:
				gd, ok := x.Decl.(*ast.GenDecl)
				if !ok || gd.Tok == token.TYPE {
					return bitPred{}, "declaration at " + p.posStr(x), true
				}
				if gd.Tok == token.VAR {
					for _, sp := range gd.Specs {
						vs := sp.(*ast.ValueSpec)
						if len(vs.Values) != len(vs.Names) {
							return bitPred{}, "declaration at " + p.posStr(x), true
						}
						for i, nm := range vs.Names {
							o := p.Info.Defs[nm]
							if b, ok := o.Type().Underlying().(*types.Basic); ok && b.Kind() == types.Bool {
								bp, ok := env.cond(vs.Values[i])
								if !ok {
									return bitPred{}, "condition not understood at " + p.posStr(x), true
								}
								env.bools[o] = bp
							} else {
								env.bv.vars[o] = env.bv.eval(vs.Values[i])
								env.defs[o] = vs.Values[i]
							}
						}
					}
				}
				// constants are resolved by the type checker wherever they are used
			case *ast.ReturnStmt:
				if len(x.Results) != 1 {
					return bitPred{}, "return shape", true
				}
				bp, ok := env.cond(x.Results[0])
				if !ok {
					return bitPred{}, "result expression not understood: " + p.exprStr(x.Results[0]), true
				}
				return path.and(bp), "", true
			case *ast.IfStmt:
				if x.Init != nil {
					return bitPred{}, "if with init", true
				}
				cnd, ok := env.cond(x.Cond)
				if !ok {
					return bitPred{}, "condition not understood: " + p.exprStr(x.Cond), true
				}
				thenR, why, thenDone := run(x.Body.List, path.and(cnd))
				if why != "" {
					return bitPred{}, why, true
				}
				ncnd, ok := cnd.not()
				if !ok && !cnd.never {
					return bitPred{}, "condition too complex to negate: " + p.exprStr(x.Cond), true
				}
				if cnd.never {
					ncnd = bitPred{pos: conj{}}
				}
				var rest []ast.Stmt
				if eb, ok := x.Else.(*ast.BlockStmt); ok {
					rest = append(rest, eb.List...)
				} else if x.Else != nil {
					rest = append(rest, x.Else)
				}
				rest = append(rest, list[i+1:]...)
				if !thenDone {
					return bitPred{}, "a branch falls through at " + p.posStr(x), true
				}
				elseR, why, elseDone := run(rest, path.and(ncnd))
				if why != "" {
					return bitPred{}, why, true
				}
				if !elseDone {
					return bitPred{}, "a branch falls through at " + p.posStr(x), true
				}
				// the function is true iff thenR or elseR: representable only when one of them is constant false
				switch {
				case thenR.never:
					return elseR, "", true
				case elseR.never:
					return thenR, "", true
				}
				return bitPred{}, "disjunction of two satisfiable branches at " + p.posStr(x), true
			default:
				return bitPred{}, "unsupported statement at " + p.posStr(s), true
			}
		}
		return bitPred{}, "", false
	}
	bp, why, done := run(fd.Body.List, bitPred{pos: conj{}})
	if why != "" {
		return bitPred{}, why
	}
	if !done {
		return bitPred{}, "body falls off the end"
	}
	return bp, ""
}

func wantBits(word string, mask, val uint64) conj {
	c := conj{}
	for i := 0; i < 64; i++ {
		if mask>>uint(i)&1 == 1 {
			c[fmt.Sprintf("%s[%02d]", word, i)] = byte('0' + val>>uint(i)&1)
		}
	}
	return c
}
