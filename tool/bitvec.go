package main

import (
	"fmt"
	"go/ast"
	"go/token"
	"go/types"
	"strings"
)

// Bit-provenance evaluation: an expression over &, |, <<, >>, constants and
// width conversions is evaluated to a vector of 64 bits each of which is a
// constant, a named input bit, or unknown. This is field algebra on masks and
// shifts, not execution: no concrete input value exists.

type bit struct {
	k   byte   // '0', '1', 'i' input, 'n' negated input, '?' unknown
	src string // input name
	idx int    // input bit index
}

func (b bit) not() bit {
	switch b.k {
	case '0':
		return bit{k: '1'}
	case '1':
		return bit{k: '0'}
	case 'i':
		return bit{k: 'n', src: b.src, idx: b.idx}
	case 'n':
		return bit{k: 'i', src: b.src, idx: b.idx}
	}
	return bit{k: '?'}
}

func (a bitvec) xor(b bitvec) bitvec {
	var r bitvec
	for i := range r {
		switch {
		case a[i].k == '0':
			r[i] = b[i]
		case b[i].k == '0':
			r[i] = a[i]
		case a[i].k == '1':
			r[i] = b[i].not()
		case b[i].k == '1':
			r[i] = a[i].not()
		default:
			r[i] = bit{k: '?'}
		}
	}
	return r
}

func (a bitvec) andNot(b bitvec) bitvec {
	var nb bitvec
	for i := range nb {
		nb[i] = b[i].not()
	}
	return a.and(nb)
}

type bitvec [64]bit

// archIntBits is the width of int/uint/uintptr on the architecture the package was loaded for.
var archIntBits = 64

func constVec(u uint64) bitvec {
	var v bitvec
	for i := 0; i < 64; i++ {
		if u>>uint(i)&1 == 1 {
			v[i] = bit{k: '1'}
		} else {
			v[i] = bit{k: '0'}
		}
	}
	return v
}

func inputVec(name string, width int) bitvec {
	var v bitvec
	for i := 0; i < 64; i++ {
		if i < width {
			v[i] = bit{k: 'i', src: name, idx: i}
		} else {
			v[i] = bit{k: '0'}
		}
	}
	return v
}

func unknownVec() bitvec {
	var v bitvec
	for i := range v {
		v[i] = bit{k: '?'}
	}
	return v
}

func (a bitvec) and(b bitvec) bitvec {
	var r bitvec
	for i := range r {
		switch {
		case a[i].k == '0' || b[i].k == '0':
			r[i] = bit{k: '0'}
		case a[i].k == '1':
			r[i] = b[i]
		case b[i].k == '1':
			r[i] = a[i]
		case a[i] == b[i]:
			r[i] = a[i]
		default:
			r[i] = bit{k: '?'}
		}
	}
	return r
}

func (a bitvec) or(b bitvec) bitvec {
	var r bitvec
	for i := range r {
		switch {
		case a[i].k == '1' || b[i].k == '1':
			r[i] = bit{k: '1'}
		case a[i].k == '0':
			r[i] = b[i]
		case b[i].k == '0':
			r[i] = a[i]
		case a[i] == b[i]:
			r[i] = a[i]
		default:
			r[i] = bit{k: '?'}
		}
	}
	return r
}

func (a bitvec) shl(n int) bitvec {
	var r bitvec
	for i := range r {
		if i-n >= 0 && i-n < 64 {
			r[i] = a[i-n]
		} else {
			r[i] = bit{k: '0'}
		}
	}
	return r
}

func (a bitvec) shr(n int) bitvec {
	var r bitvec
	for i := range r {
		if i+n < 64 {
			r[i] = a[i+n]
		} else {
			r[i] = bit{k: '0'}
		}
	}
	return r
}

// trunc keeps the low w bits (zero-extension of an unsigned narrow type).
func (a bitvec) trunc(w int) bitvec {
	r := a
	for i := w; i < 64; i++ {
		r[i] = bit{k: '0'}
	}
	return r
}

func (b bit) String() string {
	switch b.k {
	case '0', '1':
		return string(b.k)
	case 'i':
		return fmt.Sprintf("%s[%d]", b.src, b.idx)
	case 'n':
		return fmt.Sprintf("!%s[%d]", b.src, b.idx)
	}
	return "?"
}

// describe renders a vector compactly as runs.
func (a bitvec) describe() string {
	var parts []string
	i := 63
	for i >= 0 {
		j := i
		b := a[i]
		for j-1 >= 0 {
			n := a[j-1]
			if b.k == 'i' && n.k == 'i' && n.src == b.src && n.idx == a[j].idx-1 {
				j--
				continue
			}
			if b.k != 'i' && n.k == b.k {
				j--
				continue
			}
			break
		}
		switch b.k {
		case 'i':
			parts = append(parts, fmt.Sprintf("[%d..%d]=%s[%d..%d]", i, j, b.src, b.idx, a[j].idx))
		case '0':
		default:
			parts = append(parts, fmt.Sprintf("[%d..%d]=%c", i, j, b.k))
		}
		i = j - 1
	}
	if len(parts) == 0 {
		return "0"
	}
	return strings.Join(parts, " ")
}

// bvEnv evaluates expressions of one function.
type bvEnv struct {
	p      *Prog
	vars   map[types.Object]bitvec
	inputs func(e ast.Expr) (bitvec, bool) // resolves leaf inputs (fields, params, indexed params)
}

func typeWidth(t types.Type) (int, bool) {
	b, ok := t.Underlying().(*types.Basic)
	if !ok {
		return 0, false
	}
	switch b.Kind() {
	case types.Uint8, types.Int8:
		return 8, true
	case types.Uint16, types.Int16:
		return 16, true
	case types.Uint32, types.Int32:
		return 32, true
	case types.Uint64, types.Int64:
		return 64, true
	case types.Uint, types.Int, types.Uintptr:
		return archIntBits, true
	case types.Bool:
		return 1, true
	}
	return 0, false
}

func (env *bvEnv) eval(e ast.Expr) bitvec {
	p := env.p
	e = ast.Unparen(e)
	if v := p.constOf(e); v != nil {
		if u, ok := p.constUint64(e); ok {
			return constVec(u)
		}
		if i, ok := p.constInt64(e); ok {
			return constVec(uint64(i))
		}
		return unknownVec()
	}
	if env.inputs != nil {
		if v, ok := env.inputs(e); ok {
			return v
		}
	}
	switch x := e.(type) {
	case *ast.Ident:
		if o := p.objOf(x); o != nil {
			if v, ok := env.vars[o]; ok {
				return v
			}
		}
	case *ast.BinaryExpr:
		switch x.Op {
		case token.AND:
			return env.eval(x.X).and(env.eval(x.Y))
		case token.OR:
			return env.eval(x.X).or(env.eval(x.Y))
		case token.XOR:
			return env.eval(x.X).xor(env.eval(x.Y))
		case token.AND_NOT:
			return env.eval(x.X).andNot(env.eval(x.Y))
		case token.SHL, token.SHR:
			n, ok := p.constInt64(x.Y)
			if !ok || n < 0 || n > 64 {
				return unknownVec()
			}
			v := env.eval(x.X)
			w := 64
			if tv, ok := p.Info.Types[x.X]; ok {
				if ww, ok := typeWidth(tv.Type); ok {
					w = ww
				}
			}
			if x.Op == token.SHL {
				return v.shl(int(n)).trunc(w)
			}
			return v.shr(int(n))
		}
	case *ast.CallExpr:
		if tv, ok := p.Info.Types[x.Fun]; ok && tv.IsType() && len(x.Args) == 1 {
			w, ok := typeWidth(tv.Type)
			if !ok {
				return unknownVec()
			}
			return env.eval(x.Args[0]).trunc(w)
		}
	}
	return unknownVec()
}

// want describes an expected vector: list of (hiBit, loBit, src, srcLo) runs
// and constant-one bits; all other bits must be 0.
type run struct {
	hi, lo int
	src    string
	srcLo  int
}

func expectVec(runs []run, ones []int) bitvec {
	v := constVec(0)
	for _, r := range runs {
		for i := r.lo; i <= r.hi; i++ {
			v[i] = bit{k: 'i', src: r.src, idx: r.srcLo + (i - r.lo)}
		}
	}
	for _, o := range ones {
		v[o] = bit{k: '1'}
	}
	return v
}
