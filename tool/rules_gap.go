package main

import (
	"fmt"
	"go/ast"
	"go/token"
	"math/big"
	"os"
	"sort"
	"strings"
)

// E5 R-GAP: gap schedule of Cmp / CmpAbs / Equal by conditional constant
// propagation. Only the exponent gap - the one integer the code itself
// treats as a small enumeration - is concrete; coefficients stay symbolic and
// carry the power of ten that has been divided out of them.

type avScaled struct {
	base string // "c0" / "c1": which operand's coefficient
	off  int    // log10 of the factor applied so far (negative: divided)
}

func (v *avScaled) avKey() string { return fmt.Sprintf("%s·10^%d", v.base, v.off) }

func asScaled(v AV) (*avScaled, bool) {
	switch x := v.(type) {
	case *avScaled:
		return x, true
	case *avCoef:
		return &avScaled{base: fmt.Sprintf("c%d", x.of.opnd), off: 0}, true
	}
	return nil, false
}

type gapSink struct {
	pos  string
	ok   bool
	desc string
}

func ruleGap(c *Ctx) {
	p := c.P
	divK, _ := p.divKTable()
	for _, fn := range []string{"Decimal.Cmp", "Decimal.CmpAbs", "Decimal.Equal"} {
		fd := c.fn(fn)
		if fd == nil {
			continue
		}
		for g := -40; g <= 40; g++ {
			key := fmt.Sprintf("gap:%s:%+d", fn, g)
			in := newInterp(p)
			decIntrinsics(in, false)
			var sinks []gapSink
			gap := g
			// divK / mul64 on scaled coefficients
			for name, info := range divK {
				k := info.Log10
				in.intrinsics[name] = func(in *interp, st *state, call *ast.CallExpr, recv AV, args []AV) ([]AV, bool) {
					if s, ok := asScaled(recv); ok {
						return []AV{&avTuple{vs: []AV{&avScaled{base: s.base, off: s.off - k}, top}}}, true
					}
					return []AV{&avTuple{vs: []AV{top, top}}}, true
				}
			}
			in.intrinsics["uint128.mul64"] = func(in *interp, st *state, call *ast.CallExpr, recv AV, args []AV) ([]AV, bool) {
				if s, ok := asScaled(recv); ok {
					if kb, ok := constBig(p.constOf(call.Args[0])); ok {
						if k, ok := isPow10(kb); ok {
							return []AV{&avScaled{base: s.base, off: s.off + k}}, true
						}
					}
				}
				return []AV{top}, true
			}
			checkSink := func(a, b AV, at ast.Node, what string) {
				sa, ok1 := asScaled(a)
				sb, ok2 := asScaled(b)
				if !ok1 || !ok2 {
					sinks = append(sinks, gapSink{p.posStr(at), false, what + ": an operand of the final comparison is not a tracked coefficient"})
					return
				}
				if sa.base == sb.base {
					sinks = append(sinks, gapSink{p.posStr(at), false, what + ": both sides are the same operand's coefficient"})
					return
				}
				d, o := sa, sb
				if sa.base == "c1" {
					d, o = sb, sa
				}
				// value_d = D·10^(ed-a), value_o = O·10^(eo-b): aligned iff a-b == ed-eo
				okk := d.off-o.off == gap
				sinks = append(sinks, gapSink{p.posStr(at), okk, fmt.Sprintf("%s with first coefficient scaled by 10^%d and second by 10^%d (needs difference %+d)", what, d.off, o.off, gap)})
			}
			in.intrinsics["uint128.cmp"] = func(in *interp, st *state, call *ast.CallExpr, recv AV, args []AV) ([]AV, bool) {
				// the orientation of the comparison is remembered: cmp:c0-c1 is sign(first - second)
				if a, ok1 := asScaled(recv); ok1 && len(args) == 1 {
					if b, ok2 := asScaled(args[0]); ok2 && a.base != b.base {
						return []AV{avOpaque{"cmp:" + a.base + "-" + b.base}}, true
					}
				}
				return []AV{top}, true // early heuristics; final comparisons are caught at the assignment below
			}
			in.evalLeaf = func(in *interp, st *state, e ast.Expr) (AV, bool) {
				switch x := e.(type) {
				case *ast.IndexExpr:
					if o := p.objOf(x.X); o != nil {
						if s, ok := asScaled(st.vars[o]); ok {
							if i, ok := p.constInt64(x.Index); ok && i == 0 {
								return s, true
							}
							return top, true
						}
					}
				case *ast.BinaryExpr:
					l := in.eval1(x.X, st)
					r := in.eval1(x.Y, st)
					if os.Getenv("DVERIF_DEBUG_GAP") == key {
						fmt.Println("LEAF", p.posStr(x), p.exprStr(x), l.avKey(), r.avKey())
					}
					_, lok := l.(*avExp)
					_, rok := r.(*avExp)
					if x.Op == token.SUB && lok && rok {
						le, re := l.(*avExp), r.(*avExp)
						if le.of.opnd == 0 && re.of.opnd == 1 {
							return avInt{int64(gap)}, true
						}
						return top, true
					}
					ls, lsc := asScaled(l)
					_, rsc := asScaled(r)
					switch x.Op {
					case token.EQL, token.LSS, token.GTR, token.NEQ, token.LEQ, token.GEQ:
						if lsc && rsc {
							checkSink(l, r, x, "comparison "+p.exprStr(x))
							return top, true
						}
						// a coefficient word compared with a value the analysis lost track of (not a constant)
						_, rIsConst := r.(avInt)
						_, lIsConst := l.(avInt)
						if (lsc && !rIsConst && !rsc) || (rsc && !lIsConst && !lsc) {
							if tl, tr := p.typeOf(x.X), p.typeOf(x.Y); tl != nil && tr != nil && limbsOf(tl) == 1 && limbsOf(tr) == 1 {
								sinks = append(sinks, gapSink{p.posStr(x), false, "comparison " + p.exprStr(x) + ": one side is a coefficient, the other is not a tracked coefficient at a known scale"})
								return top, true
							}
						}
					case token.QUO:
						if lsc {
							if kb, ok := constBig(p.constOf(x.Y)); ok {
								if k, ok := isPow10(kb); ok {
									return &avScaled{base: ls.base, off: ls.off - k}, true
								}
							}
							// a divisor selected earlier on this path (a variable holding a known power of ten)
							if ri, ok := r.(avInt); ok && ri.v > 0 {
								if k, ok := isPow10(big.NewInt(ri.v)); ok {
									return &avScaled{base: ls.base, off: ls.off - k}, true
								}
							}
							return top, true
						}
					case token.REM:
						if lsc {
							return top, true
						}
					}
				}
				return nil, false
			}
			// op-assign forms on scaled scalars: x /= 10^k
			in.binopHook = func(op token.Token, l, r AV, at ast.Node) (AV, bool) {
				// sres * -1 reverses the orientation of a remembered comparison
				if op == token.MUL {
					for _, pair := range [][2]AV{{l, r}, {r, l}} {
						if o, ok := pair[0].(avOpaque); ok && strings.HasPrefix(o.name, "cmp:") {
							if k, ok := pair[1].(avInt); ok && k.v == -1 {
								parts := strings.Split(strings.TrimPrefix(o.name, "cmp:"), "-")
								return avOpaque{"cmp:" + parts[1] + "-" + parts[0]}, true
							}
							return top, true
						}
					}
				}
				ls, lsc := asScaled(l)
				if !lsc {
					return nil, false
				}
				if op == token.QUO {
					if c, ok := r.(avInt); ok && c.v > 0 {
						if k, ok := isPow10(big.NewInt(c.v)); ok {
							return &avScaled{base: ls.base, off: ls.off - k}, true
						}
					}
					return top, true
				}
				return nil, false
			}
			// final `sres := dSig.cmp(oSig)`
			in.onCall = func(in *interp, st *state, call *ast.CallExpr, name string, recv AV, args []AV) {
				if name != "uint128.cmp" {
					return
				}
				// a sink iff the call is the right-hand side of an assignment
				// (the early heuristics appear inside if-conditions)
				if in.curAssign != nil && len(in.curAssign.Rhs) == 1 && ast.Unparen(in.curAssign.Rhs[0]) == ast.Expr(call) {
					checkSink(recv, args[0], call, "final comparison "+p.exprStr(call))
				}
			}
			if os.Getenv("DVERIF_DEBUG_GAP") == key {
				in.trace = func(s ast.Stmt, st *state) { fmt.Println("STMT", p.posStr(s)) }
			}
			classes := [][]cls{{{"fin", false}, {"fin", false}}}
			if fn == "Decimal.Cmp" {
				classes = append(classes, []cls{{"fin", true}, {"fin", true}})
			}
			overflow := false
			orientBad := ""
			for _, cs := range classes {
				outs := in.runFunc(fd, operand(0, cs[0]), []AV{operand(1, cs[1])})
				if in.overflow {
					overflow = true
				}
				// a result that is a remembered coefficient comparison must be oriented first-minus-second
				// (reversed when both operands are negative: the larger magnitude is the smaller value)
				want := "cmp:c0-c1"
				if cs[0].neg && cs[1].neg && fn == "Decimal.Cmp" {
					want = "cmp:c1-c0"
				}
				for _, o := range outs {
					if t, ok := o.(avOpaque); ok && strings.HasPrefix(t.name, "cmp:") && t.name != want {
						orientBad = fmt.Sprintf("for operands of sign (%v,%v) the result is the coefficient comparison %s, but the value comparison needs %s (the operands were swapped during alignment, or are both negative)", cs[0].neg, cs[1].neg, strings.TrimPrefix(t.name, "cmp:"), strings.TrimPrefix(want, "cmp:"))
					}
				}
			}
			if overflow {
				c.undecided(key, fd, "interpretation budget exceeded")
				continue
			}
			if os.Getenv("DVERIF_DEBUG_GAP") == key {
				for _, s := range sinks {
					fmt.Println("SINK", s.pos, s.ok, s.desc)
				}
			}
			var bad []string
			seen := map[string]bool{}
			nOK := 0
			for _, s := range sinks {
				if s.ok {
					nOK++
					continue
				}
				m := s.pos + ": " + s.desc
				if !seen[m] {
					seen[m] = true
					bad = append(bad, m)
				}
			}
			sort.Strings(bad)
			gp := []string{"C04", "C19"}
			if fn == "Decimal.Equal" {
				// Equal is the yardstick of the round-trip clauses ("... is Equal to d")
				gp = append(gp, "C05", "C06", "C09", "C10", "C13", "C14")
			}
			if orientBad != "" {
				c.bad(key, fd, fmt.Sprintf("%s, exponent gap %+d: %s", fn, g, orientBad), gp...)
			} else if len(bad) > 0 {
				c.bad(key, fd, fmt.Sprintf("%s, exponent gap %+d: the coefficients are compared at different scales: %s", fn, g, strings.Join(bad, " | ")), gp...)
			} else {
				abs := g
				if abs < 0 {
					abs = -abs
				}
				detail := fmt.Sprintf("%d aligned final comparisons", nOK)
				if nOK == 0 {
					if abs <= 35 {
						// every gap up to 35 digits must reach an aligned comparison on some path
						c.bad(key, fd, fmt.Sprintf("%s, exponent gap %+d: no aligned comparison is reachable; coefficients up to 35 digits apart can still be equal", fn, g), gp...)
						continue
					}
					detail = "decided by magnitude before alignment"
				}
				c.ok(key, fd, detail, gp...)
			}
		}
	}
}

// ruleGapMod: in the 64-bit paths a remainder test `x % K != 0` guards the
// division `x /= K` with the same K.
func ruleGapMod(c *Ctx) {
	p := c.P
	n := 0
	for _, fn := range []string{"Decimal.Cmp", "Decimal.CmpAbs", "Decimal.Equal"} {
		fd := c.fn(fn)
		if fd == nil {
			continue
		}
		perFn := 0
		check := func(list []ast.Stmt, at ast.Node) {
			// divisor: a constant, or a variable that holds the power of ten selected earlier
			type divisor struct {
				k   *big.Int
				key string
			}
			same := func(a, b *divisor) bool {
				if a == nil || b == nil {
					return false
				}
				if a.k != nil && b.k != nil {
					return a.k.Cmp(b.k) == 0
				}
				return a.k == nil && b.k == nil && a.key == b.key
			}
			divisorOf := func(e ast.Expr) *divisor {
				if k, ok := constBig(p.constOf(e)); ok {
					return &divisor{k: k}
				}
				if key := p.exprKey(e); key != "" {
					return &divisor{key: key}
				}
				return nil
			}
			mods := map[string]*divisor{}
			divs := map[string]*divisor{}
			var scan func(n ast.Node)
			scan = func(n ast.Node) {
				ast.Inspect(n, func(m ast.Node) bool {
					switch x := m.(type) {
					case *ast.CaseClause:
						return false // separate block
					case *ast.BinaryExpr:
						if key := p.exprKey(x.X); key != "" && limbsOf(p.typeOf(x.X)) == 1 {
							if d := divisorOf(x.Y); d != nil {
								switch x.Op {
								case token.REM:
									mods[key] = d
								case token.QUO:
									if d.k == nil || d.k.Cmp(big.NewInt(1)) > 0 {
										divs[key] = d
									}
								}
							}
						}
					case *ast.AssignStmt:
						if x.Tok == token.QUO_ASSIGN && len(x.Lhs) == 1 {
							if d := divisorOf(x.Rhs[0]); d != nil {
								divs[p.exprKey(x.Lhs[0])] = d
							}
						}
					}
					return true
				})
			}
			for _, s := range list {
				if _, isSw := s.(*ast.SwitchStmt); isSw {
					continue
				}
				scan(s)
			}
			keys := make([]string, 0, len(divs))
			for key := range divs {
				keys = append(keys, key)
			}
			sort.Strings(keys)
			for _, key := range keys {
				d := divs[key]
				n++
				perFn++
				m := mods[key]
				desc := func(v *divisor) string {
					if v == nil {
						return "nothing"
					}
					if v.k != nil {
						return v.k.String()
					}
					return v.key
				}
				isP := true
				if d.k != nil {
					_, isP = isPow10(d.k)
				}
				c.check(same(m, d) && isP, fmt.Sprintf("gapmod:%s#%d", fn, perFn), at, fmt.Sprintf("x %% %s tested, x / %s", desc(d), desc(d)),
					fmt.Sprintf("%s: a coefficient is divided by %s but the dropped digits are tested with %% %s: some dropped digit is never examined (or a kept one is)", fn, desc(d), desc(m)))
			}
		}
		ast.Inspect(fd.Body, func(nd ast.Node) bool {
			switch x := nd.(type) {
			case *ast.CaseClause:
				check(x.Body, x)
			case *ast.IfStmt:
				check(x.Body.List, x)
			}
			return true
		})
	}
	if n < 8 {
		c.undecided("gapmod.count", nil, fmt.Sprintf("only %d scalar divisions found", n))
	}
}
