package main

import (
	"fmt"
	"go/ast"
	"go/constant"
	"go/token"
	"go/types"
)

// E1 R-WRAP: delegation equivalence. The property statements name these
// equalities literally ("Add equals AddWithMode under DefaultRoundingMode",
// "Round(d) = d.Round(0, ToNearestAway)" ...). If the body is exactly the
// delegation, the two forms are equal for every input.

type wrapSpec struct {
	fn    string
	want  func(k func(string) string) string // expected canonical body
	props []string
	why   string
}

func ruleWrap(c *Ctx) {
	p := c.P
	// the mode every default-mode operation starts with: nearest-even (the properties say "nearest-even
	// unless changed"); a declaration without an initialiser is the zero value
	{
		want, okW := p.pkgConst("ToNearestEven")
		init := p.pkgVarInit("DefaultRoundingMode")
		var got constant.Value
		if init != nil {
			got = p.constOf(init)
		} else if o, ok := p.Pkg.Types.Scope().Lookup("DefaultRoundingMode").(*types.Var); ok && o != nil {
			got = constant.MakeInt64(0)
		}
		props := []string{"C01", "C02", "C03", "C05", "C09", "C10", "C11", "C16", "C17", "C18"}
		if !okW || got == nil {
			c.undecided("default.mode", nil, "DefaultRoundingMode's initial value (or the constant ToNearestEven) was not found", props...)
		} else {
			c.check(constant.Compare(constant.ToInt(got), token.EQL, constant.ToInt(want)), "default.mode", init, "DefaultRoundingMode starts as ToNearestEven",
				"DefaultRoundingMode is initialised to "+got.ExactString()+", not to ToNearestEven ("+want.ExactString()+"): Parse, New, FromFloat64, FromInt and every operation without an explicit mode must round to nearest-even unless the program changes the variable", props...)
		}
	}
	// k resolves a named package constant to its canonical constant form; the
	// oracle (property text / doc comment) names the constant, not its value.
	missing := false
	k := func(name string) string {
		v, ok := p.pkgConst(name)
		if !ok {
			missing = true
			return "K(?" + name + ")"
		}
		return "K(" + v.ExactString() + ")"
	}
	withMode := func(name string) func(func(string) string) string {
		return func(func(string) string) string {
			return "return call(Decimal." + name + "WithMode;recv=R,P0,V:DefaultRoundingMode)"
		}
	}
	specs := []wrapSpec{
		{"Decimal.Add", withMode("Add"), []string{"C01"}, "Add = AddWithMode(o, DefaultRoundingMode)"},
		{"Decimal.Sub", withMode("Sub"), []string{"C01"}, "Sub = SubWithMode(o, DefaultRoundingMode)"},
		{"Decimal.Mul", withMode("Mul"), []string{"C02"}, "Mul = MulWithMode(o, DefaultRoundingMode)"},
		{"Decimal.Quo", withMode("Quo"), []string{"C02"}, "Quo = QuoWithMode(o, DefaultRoundingMode)"},
		{"Decimal.QuoRem", withMode("QuoRem"), []string{"C03"}, "QuoRem = QuoRemWithMode(o, DefaultRoundingMode)"},
		{"Decimal.Pow", withMode("Pow"), []string{"C18"}, "Pow = PowWithMode(o, DefaultRoundingMode)"},
		{"Ceil", func(k func(string) string) string { return "return call(Decimal.Ceil;recv=P0,K(0))" }, []string{"C08"}, "Ceil(d) = d.Ceil(0)"},
		{"Floor", func(k func(string) string) string { return "return call(Decimal.Floor;recv=P0,K(0))" }, []string{"C08"}, "Floor(d) = d.Floor(0)"},
		{"Round", func(k func(string) string) string {
			return "return call(Decimal.Round;recv=P0,K(0)," + k("ToNearestAway") + ")"
		}, []string{"C08"}, "Round(d) = d.Round(0, ToNearestAway)"},
		{"Trunc", func(k func(string) string) string {
			return "return call(Decimal.Round;recv=P0,K(0)," + k("ToZero") + ")"
		}, []string{"C08"}, "Trunc(d) = d.Round(0, ToZero)"},
		{"FromInt32", func(k func(string) string) string { return "return call(FromInt64;conv(int64;P0))" }, []string{"C10"}, "FromInt32(i) = FromInt64(int64(i))"},
		{"FromUint32", func(k func(string) string) string { return "return call(FromUint64;conv(uint64;P0))" }, []string{"C10"}, "FromUint32(i) = FromUint64(uint64(i))"},
		{"Decimal.Float32", func(k func(string) string) string { return "return conv(float32;call(Decimal.Float64;recv=R))" }, []string{"C09"}, "Float32 = float32(Float64())"},
		{"Format", func(k func(string) string) string { return "return conv(string;call(Append;nil,P0,P1,P2))" }, []string{"C06", "C07"}, "Format = string(Append(nil, d, fmt, prec))"},
		{"Parse", func(k func(string) string) string { return "return call(parse;P0," + k("payloadOpParse") + ")" }, []string{"C05"}, "Parse = parse(s, payloadOpParse)"},
		{"MustParse", func(k func(string) string) string {
			return "L0,L1:=call(parse;P0," + k("payloadOpMustParse") + ");if((L1!=nil)){call(builtin.panic;*)};return L0"
		}, []string{"C05", "C20"}, "MustParse panics iff parse returns an error and otherwise returns parse's value"},
		{"Decimal.UnmarshalText", func(k func(string) string) string {
			return "L0,L1:=call(parse;P0," + k("payloadOpUnmarshalText") + ");if((L1!=nil)){return L1};*R=L0;return nil"
		}, []string{"C05", "C20"}, "UnmarshalText stores parse's value only on success"},
		{"FromFloat32", func(k func(string) string) string {
			return "if(call(math.IsNaN;conv(float64;P0))){return call(nan;" + k("payloadOpFromFloat32") + ",K(0),K(0))};return call(FromFloat64;conv(float64;P0))"
		}, []string{"C09"}, "FromFloat32 = FromFloat64(float64(f)) except for the NaN payload"},
		{"FromRat", func(k func(string) string) string {
			return "L0:=call(math/big.Rat.Num;recv=P0);if((K(0)==call(math/big.Int.Sign;recv=L0))){return call(zero;K(false))};L1:=call(math/big.Rat.Denom;recv=P0);return call(Decimal.Quo;recv=call(FromInt;L0),call(FromInt;L1))"
		}, []string{"C10"}, "FromRat = FromInt(num).Quo(FromInt(den)), zero numerator gives +0"},
		{"FromFloat", func(k func(string) string) string {
			return "if(call(math/big.Float.IsInf;recv=P0)){return call(inf;call(math/big.Float.Signbit;recv=P0))};if((K(0)==call(math/big.Float.Sign;recv=P0))){return call(zero;call(math/big.Float.Signbit;recv=P0))};L0,_:=call(math/big.Float.Rat;recv=P0,nil);return call(FromRat;L0)"
		}, []string{"C09"}, "FromFloat = FromRat(f.Rat(nil)) with signed Inf/zero handled first; f is only read"},
		{"Inf", func(k func(string) string) string { return "return call(inf;(P0<K(0)))" }, []string{"C15"}, "Inf(sign) = inf(sign < 0)"},
		{"NaN", func(k func(string) string) string { return "return call(nan;" + k("payloadOpNaN") + ",K(0),K(0))" }, []string{"C15"}, "NaN() carries the NaN() payload"},
		{"E", func(k func(string) string) string { return "return V:e" }, []string{"C20"}, "E returns the package constant"},
		{"Phi", func(k func(string) string) string { return "return V:phi" }, []string{"C20"}, "Phi returns the package constant"},
		{"Pi", func(k func(string) string) string { return "return V:pi" }, []string{"C20"}, "Pi returns the package constant"},
	}
	// Abs / Neg: the result is the operand with bit 63 cleared / flipped (bit provenance)
	for _, t := range []struct {
		fn   string
		flip bool
	}{{"Abs", false}, {"Decimal.Neg", true}} {
		fd := c.fn(t.fn)
		if fd == nil {
			continue
		}
		res := singleReturn(fd)
		var opnd types.Object
		if fd.Recv != nil {
			opnd = recvObj(p, fd)
		} else if ps := paramObjs(p, fd); len(ps) == 1 {
			opnd = ps[0]
		}
		okk := false
		desc := "body is not a single Decimal literal"
		if len(res) == 1 && opnd != nil {
			if cl, ok := ast.Unparen(res[0]).(*ast.CompositeLit); ok && len(cl.Elts) == 2 {
				env := &bvEnv{p: p, vars: map[types.Object]bitvec{}}
				env.inputs = p.leafInputs(map[types.Object]string{opnd: "d"}, nil, nil)
				lo, hi := env.eval(cl.Elts[0]), env.eval(cl.Elts[1])
				wantLo := expectVec([]run{{63, 0, "d.lo", 0}}, nil)
				wantHi := expectVec([]run{{62, 0, "d.hi", 0}}, nil)
				if t.flip {
					wantHi[63] = bit{k: 'n', src: "d.hi", idx: 63}
				}
				okk = lo == wantLo && hi == wantHi && p.decimalFieldOrder()
				desc = "lo = " + lo.describe() + ", hi = " + hi.describe()
			}
		}
		what := map[bool]string{false: "clears", true: "flips"}[t.flip]
		c.check(okk, "wrap:"+t.fn, fd, t.fn+" "+what+" bit 63 only", fmt.Sprintf("%s must return its operand with bit 63 %s and every other bit unchanged; found %s", t.fn, map[bool]string{false: "cleared", true: "flipped"}[t.flip], desc), "C15", "C19")
	}
	for _, s := range specs {
		fd := c.fn(s.fn)
		if fd == nil {
			continue
		}
		env := p.newCanonEnv(fd)
		got := env.canonStmts(fd.Body.List)
		missing = false
		want := s.want(k)
		if missing {
			c.undecided("wrap:"+s.fn, fd, "a constant named by the specification no longer exists: "+want, s.props...)
			continue
		}
		c.check(got == want, "wrap:"+s.fn, fd, s.why,
			fmt.Sprintf("%s is no longer the documented delegation (%s): body is `%s`, expected `%s`", s.fn, s.why, got, want), s.props...)
	}
}
