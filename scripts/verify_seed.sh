#!/bin/bash
# usage: verify_seed.sh <seed-dir>  — confirms: patch applies to /repo HEAD, full suite passes with it,
# the demo fails with it and passes without it. Prints one line. Works on a scratch copy only.
d=$1
export GOFLAGS=-mod=mod GOPROXY=off GOSUMDB=off GOTOOLCHAIN=local
t=$(mktemp -d /tmp/vs.XXXXXX)
trap 'rm -rf $t' EXIT
git -C /repo archive HEAD | tar -x -C $t
cd $t
demo=$(ls $d/demo_test.go $d/*_test.go 2>/dev/null | head -1)
tn=$(grep -oE 'func (TestSeeded[A-Za-z0-9_]+)' $demo | head -1 | awk '{print $2}')
cp $demo $t/zz_seed_demo_test.go
clean=$(go test -vet=off -count=1 -run "^${tn}\$" ./... 2>&1 | tail -1)
if ! patch -p1 -s < $d/patch.diff >/dev/null 2>&1; then echo "$d APPLY=FAIL"; exit; fi
build=$(go build ./... 2>&1 | tail -1)
patched=$(go test -vet=off -count=1 -run "^${tn}\$" ./... 2>&1 | tail -1)
rm $t/zz_seed_demo_test.go
suite=$(go test -vet=off -count=1 ./... 2>&1 | tail -1)
echo "$d APPLY=ok BUILD=[$build] CLEAN=[${clean:0:40}] PATCHED=[${patched:0:40}] SUITE=[${suite:0:50}]"
