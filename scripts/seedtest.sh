#!/bin/bash
# usage: seedtest.sh [seed-root] [filter]   — applies each patch to a scratch copy of /repo and lists the violations found
root=${1:-/verif/seeded}; filt=${2:-}
one() {
  d=$1
  [ -f $d/patch.diff ] || exit 0
  t=$(mktemp -d /tmp/sv.XXXXXX)
  cp /repo/*.go /repo/go.mod $t/ ; cp -r /repo/testdata $t/ 2>/dev/null
  if ! (cd $t && patch -p1 -s < $d/patch.diff >/dev/null 2>&1); then echo "== $d: PATCH DOES NOT APPLY"; rm -rf $t; exit 0; fi
  prop=$(basename $d | cut -d- -f1)
  out=$(/verif/bin/dverif list -bad -repo $t 2>&1 | grep -v "cell:Expm1(-zero)\|series.expm1.cancel" | grep -v "obligations$")
  n=$(echo -n "$out" | grep -c .)
  hit=$(echo "$out" | grep -c "$prop")
  { echo "== $d: $n violations, $hit tagged $prop"; echo "$out" | cut -c1-220 | head -${SHOW:-3}; }
  rm -rf $t
}
export -f one
ls -d $root/C* 2>/dev/null | sort | grep -F -- "$filt" | xargs -P ${J:-8} -I{} bash -c 'one {}' | awk '/^== /{key=$2} {print key "\t" $0}' | sort -s -k1,1 | cut -f2-
