#!/usr/bin/env python3
"""Mutation sampling of the checker (a development aid, not a registered check).

Applies generic one-token mutations to random lines of /repo's non-test sources, each on a scratch
copy under /tmp, and classifies every mutant:

  nobuild    does not compile
  flagged    the checker (dverif list -bad) reports it
  killed     silent for the checker, but the repository's own suite fails
  SURVIVED   silent for the checker and the suite passes: an equivalent mutant or a gap - to be read

usage: mutsample.py N [seed] [file-filter]      (results: /tmp/mut/results.jsonl)
"""
import json, os, random, re, shutil, subprocess, sys, tempfile, glob
from concurrent.futures import ThreadPoolExecutor

N = int(sys.argv[1]) if len(sys.argv) > 1 else 100
SEED = int(sys.argv[2]) if len(sys.argv) > 2 else 1
FILT = sys.argv[3] if len(sys.argv) > 3 else ''
ENV = dict(os.environ, GOFLAGS='-mod=mod', GOPROXY='off', GOSUMDB='off', GOTOOLCHAIN='local')
OUT = '/tmp/mut'
os.makedirs(OUT, exist_ok=True)

OPS = [
    (r' < ', ' <= '), (r' <= ', ' < '), (r' > ', ' >= '), (r' >= ', ' > '),
    (r' == ', ' != '), (r' != ', ' == '), (r' \+= ', ' -= '), (r' -= ', ' += '),
    (r' && ', ' || '), (r' \|\| ', ' && '), (r'\btrue\b', 'false'), (r'\bfalse\b', 'true'),
    (r' \+ ', ' - '), (r' - ', ' + '), (r'\+\+$', '--'), (r'--$', '++'),
]

def candidates():
    c = []
    for f in sorted(glob.glob('/repo/*.go')):
        b = os.path.basename(f)
        if b.endswith('_test.go') or (FILT and FILT not in b):
            continue
        lines = open(f).read().split('\n')
        infunc = False
        for i, l in enumerate(lines):
            if l.startswith('func '):
                infunc = True
            if l == '}':
                infunc = False
            s = l.strip()
            if not infunc or not s or s.startswith('//') or l.startswith('func '):
                continue
            for pat, rep in OPS:
                for m in re.finditer(pat, l):
                    c.append((b, i, m.start(), m.end(), rep, 'op'))
            for m in re.finditer(r'(?<![\w.])(\d+)(?![\w.])', l):
                v = int(m.group(1))
                c.append((b, i, m.start(), m.end(), str(v + 1), 'lit+1'))
                if v > 0:
                    c.append((b, i, m.start(), m.end(), str(v - 1), 'lit-1'))
            if re.match(r'^[\w\[\]., ]+ (=|\+=|-=|\*=|\|=) [^{]*$', s) or re.match(r'^\w+(\+\+|--)$', s):
                c.append((b, i, 0, len(l), '', 'delete'))
    return c

def run(cmd, cwd, timeout=600):
    try:
        r = subprocess.run(cmd, cwd=cwd, env=ENV, capture_output=True, text=True, timeout=timeout)
        return r.returncode, r.stdout + r.stderr
    except subprocess.TimeoutExpired:
        return 99, 'timeout'

def one(k, cand):
    b, i, a, e, rep, kind = cand
    t = tempfile.mkdtemp(prefix='mut.', dir='/tmp')
    try:
        for f in glob.glob('/repo/*.go') + ['/repo/go.mod']:
            shutil.copy(f, t)
        if os.path.isdir('/repo/testdata'):
            shutil.copytree('/repo/testdata', t + '/testdata')
        p = os.path.join(t, b)
        lines = open(p).read().split('\n')
        old = lines[i]
        lines[i] = old[:a] + rep + old[e:]
        if kind == 'delete':
            lines[i] = ''
        open(p, 'w').write('\n'.join(lines))
        res = {'k': k, 'file': b, 'line': i + 1, 'kind': kind, 'old': old.strip(), 'new': lines[i].strip()}
        rc, out = run(['go', 'build', './...'], t)
        if rc != 0:
            res['class'] = 'nobuild'
            return res
        rc, out = run(['/verif/bin/dverif', 'list', '-bad', '-repo', t], t)
        bad = [l for l in out.split('\n') if l.strip() and 'cell:Expm1(-zero)' not in l and 'series.expm1.cancel' not in l and not l.endswith('obligations')]
        if bad:
            res['class'] = 'flagged'
            res['by'] = sorted(set(re.findall(r'\[(E\d+\.\w+)\]', '\n'.join(bad))))[:4]
            return res
        rc, out = run(['go', 'test', '-vet=off', '-count=1', './...'], t, timeout=1500)
        res['class'] = 'killed' if rc != 0 else 'SURVIVED'
        return res
    finally:
        shutil.rmtree(t, ignore_errors=True)

def main():
    random.seed(SEED)
    c = candidates()
    random.shuffle(c)
    pick = c[:N]
    print(f'{len(c)} candidate mutations, sampling {len(pick)}', flush=True)
    with ThreadPoolExecutor(max_workers=int(os.environ.get('J', '8'))) as ex, open(f'{OUT}/results_{SEED}.jsonl', 'w') as out:
        for r in ex.map(lambda kc: one(*kc), enumerate(pick)):
            out.write(json.dumps(r) + '\n')
            out.flush()
            if r['class'] == 'SURVIVED':
                print('SURVIVED', r['file'], r['line'], r['kind'], '|', r['old'], '=>', r['new'], flush=True)
    cls = {}
    for l in open(f'{OUT}/results_{SEED}.jsonl'):
        r = json.loads(l)
        cls[r['class']] = cls.get(r['class'], 0) + 1
    print(cls)

main()
