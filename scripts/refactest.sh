#!/bin/bash
# usage: refactest.sh <root>  — applies each behaviour-preserving refactoring to a scratch copy and lists alarms (all are false alarms)
root=${1:-/verif/refactorings}
for d in $(ls -d $root/*/[0-9]* $root/R*-[0-9]* 2>/dev/null | sort); do
  [ -f $d/patch.diff ] || continue
  t=$(mktemp -d /tmp/rf.XXXXXX)
  cp /repo/*.go /repo/go.mod $t/
  if ! (cd $t && patch -p1 -s < $d/patch.diff >/dev/null 2>&1); then echo "== $d: PATCH DOES NOT APPLY"; rm -rf $t; continue; fi
  out=$(/verif/bin/dverif list -bad -repo $t 2>&1 | grep -v "cell:Expm1(-zero)" | grep -v "obligations$")
  n=$(echo -n "$out" | grep -c .)
  echo "== $d: $n alarms"
  echo "$out" | cut -c1-${W:-260} | head -${SHOW:-4}
  rm -rf $t
done
