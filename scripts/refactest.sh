#!/bin/bash
# usage: refactest.sh [root] [filter]  — applies each behaviour-preserving refactoring to a scratch copy
# and lists the alarms the checker raises on it (every one of them is a false alarm).
root=${1:-/verif/refactorings}; filt=${2:-}
one() {
  d=$1
  [ -f $d/patch.diff ] || exit 0
  t=$(mktemp -d /tmp/rf.XXXXXX)
  cp /repo/*.go /repo/go.mod $t/
  if ! (cd $t && patch -p1 -s < $d/patch.diff >/dev/null 2>&1); then echo "== $d: PATCH DOES NOT APPLY"; rm -rf $t; exit 0; fi
  out=$(/verif/bin/dverif list -bad -repo $t 2>&1 | grep -v "cell:Expm1(-zero)\|series.expm1.cancel" | grep -v "obligations$")
  n=$(echo -n "$out" | grep -c .)
  { echo "== $d: $n alarms"; [ $n -gt 0 ] && echo "$out" | cut -c1-${W:-260} | head -${SHOW:-4}; } 
  rm -rf $t
}
export -f one
ls -d $root/*/[0-9]* $root/*-[0-9]* 2>/dev/null | sort -u | grep -F -- "$filt" | xargs -P ${J:-8} -I{} bash -c 'one {}' | awk '/^== /{hdr=$0; key=$2} {print key "\t" $0}' | sort -s -k1,1 | cut -f2-
