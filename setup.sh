#!/bin/sh
# Builds /verif/bin/dverif from /verif/tool, offline, from the module cache.
set -e
cd "$(dirname "$0")/tool"
unset GOWORK
export GOFLAGS=-mod=mod GOPROXY=off GOSUMDB=off GOTOOLCHAIN=local
mkdir -p ../bin
go build -o ../bin/dverif .
